"""Independent VHDX writer (from MS-VHDX, not from the code under test) + Coq rendering of an image."""
from __future__ import annotations

import struct
import uuid

from harness import core
from harness.core import Z, zpairs

MB = 1 << 20
ALIGN = 64 * 1024
G = {
    "bat": uuid.UUID("2DC27766-F623-4200-9D64-115E9BFD4A08"),
    "meta": uuid.UUID("8B7CA206-4790-4B9A-B8FE-575F050F886E"),
    "file_parameters": uuid.UUID("CAA16737-FA36-4D43-B3B6-33F0AA44E76B"),
    "size": uuid.UUID("2FA54224-CD1B-4876-B211-5DBED83BF4B8"),
    "id": uuid.UUID("BECA12AB-B2E6-4523-93EF-C309E000C746"),
    "lss": uuid.UUID("8141BF1D-A96F-4709-BA47-F233A8FAAB5F"),
    "pss": uuid.UUID("CDA348C7-445D-4471-9CC9-E9885251C556"),
    "locator": uuid.UUID("A8D35F2D-B30B-454D-ABF7-D3D84834AB0C"),
    "vhdx_locator": uuid.UUID("B04AEFB7-D19E-4A81-B789-25B8E9445913"),
}


def header(seq, sig=b"head"):
    return struct.pack("<4sIQ16s16s16sHHIQ", sig, 0, seq, b"\x01" * 16, b"\x02" * 16, b"\x00" * 16, 0, 1, MB, MB)


def region_table(entries, sig=b"regi"):
    out = struct.pack("<4sII4s", sig, 0, len(entries), b"\x00" * 4)
    for g, off, ln, req in entries:
        out += struct.pack("<16sQII", g.bytes_le, off, ln, req)
    return out


def parent_locator(entries: dict, ltype=None):
    ltype = ltype or G["vhdx_locator"]
    hdr = struct.pack("<16sHH", ltype.bytes_le, 0, len(entries))
    tbl_len = len(hdr) + 12 * len(entries)
    blob = b""
    ents = b""
    for k, v in entries.items():
        kb = k.encode("utf-16-le")
        vb = v.encode("utf-16-le")
        ko = tbl_len + len(blob)
        blob += kb
        vo = tbl_len + len(blob)
        blob += vb
        ents += struct.pack("<IIHH", ko, vo, len(kb), len(vb))
    return hdr + ents + blob


def metadata_region(items):
    """items: list of (guid, bytes) -> region bytes (table at 0, items from 64 KiB)."""
    hdr = struct.pack("<8s2sH20s", b"metadata", b"\x00" * 2, len(items), b"\x00" * 20)
    ents = b""
    data = b""
    for g, b in items:
        off = 0x10000 + len(data)
        ents += struct.pack("<16sIIII", g.bytes_le, off, len(b), 0x4, 0)
        data += b + b"\x00" * ((-len(b)) % 8)
    table = hdr + ents
    return table + b"\x00" * (0x10000 - len(table)) + data


def chunk_ratio(bs, ss):
    return ((1 << 23) * ss) // bs


def bat_layout(case):
    """-> list of raw u64 entries of the BAT for a case:
    case['blocks'] : list per payload block of [state, mb]; case['sb'] : {chunk index: [state, mb]} (differencing)."""
    bs, ss = case["block_size"], case["sector_size"]
    cr = chunk_ratio(bs, ss)
    nb = len(case["blocks"])
    ents = []
    sb = {int(k): v for k, v in case.get("sb", {}).items()}
    for b, (st, mb) in enumerate(case["blocks"]):
        ents.append(st | (mb << 20))
        if (b + 1) % cr == 0:
            ch = b // cr
            s = sb.get(ch, [0, 0])
            ents.append(s[0] | (s[1] << 20))
    if case.get("has_parent"):
        # the table of a differencing disk ends with the sector-bitmap entry of the last chunk
        total = ((nb + cr - 1) // cr) * (cr + 1)
        while len(ents) < total:
            if (len(ents) + 1) % (cr + 1) == 0:
                s = sb.get(len(ents) // (cr + 1), [0, 0])
                ents.append(s[0] | (s[1] << 20))
            else:
                ents.append(0)
    return ents


def build(case, name=None):
    """-> SparseFile for the image described by case (see gen in props/c03.py)."""
    bs, ss = case["block_size"], case["sector_size"]
    chunks = {}
    chunks[0] = b"vhdxfile" + "verif".encode("utf-16-le")
    seqs = case.get("header_seq", [5, 7])
    chunks[1 * ALIGN] = header(seqs[0])
    chunks[2 * ALIGN] = header(seqs[1])
    meta_off = case.get("meta_offset", 2 * MB)
    bat_off = case["bat_offset"]
    ents = bat_layout(case)
    bat_len = max(MB, (8 * len(ents) + MB - 1) // MB * MB)
    regs = [(G["bat"], bat_off, bat_len, 1), (G["meta"], meta_off, MB, 1)]
    regs = [r for r, k in zip(regs, ("bat", "meta")) if k not in case.get("omit_regions", [])]
    chunks[3 * ALIGN] = region_table(regs)
    chunks[4 * ALIGN] = region_table(regs)
    fp = struct.pack("<II", bs, (2 if case.get("has_parent") else 0) | (1 if case.get("leave_alloc") else 0))
    items = [(G["file_parameters"], fp), (G["size"], struct.pack("<Q", case["size"])),
             (G["id"], uuid.UUID(int=case.get("disk_id", 0x1234)).bytes_le),
             (G["lss"], struct.pack("<I", ss)), (G["pss"], struct.pack("<I", 4096))]
    if case.get("has_parent") and not case.get("omit_locator"):
        lt = uuid.UUID(case["locator_type"]) if case.get("locator_type") else None
        items.append((G["locator"], parent_locator(case.get("locator", {"relative_path": "parent.vhdx"}), lt)))
    omit = case.get("omit_items", [])
    keys = ["file_parameters", "size", "id", "lss", "pss", "locator"]
    items = [it for it in items if not any(it[0] == G[k] for k in omit if k in keys)]
    if case.get("extra_item"):
        items.append((uuid.UUID(case["extra_item"]), b"\x01\x02\x03\x04"))
    chunks[meta_off] = metadata_region(items)
    chunks[bat_off] = b"".join(struct.pack("<Q", e) for e in ents)
    for off, hexbytes in case.get("bitmaps", {}).items():
        chunks[int(off)] = bytes.fromhex(hexbytes)
    return core.SparseFile(case["file_size"], chunks, salt=case.get("salt", 0), name=name)


def coq_img(case, fbytes=None):
    """Gallina record for Model/Vhdx.v; fbytes: {offset: byte} for sector bitmaps."""
    ents = bat_layout(case)
    nz = [(i, e) for i, e in enumerate(ents) if e != 0]
    fb = "fun _ => 0"
    if fbytes:
        fb = f"fun o => match assoc_z {zpairs(sorted(fbytes.items()))} o with Some b => b | None => 0 end"
    return (f"{{| x_size := {Z(case['size'])}; x_bs := {Z(case['block_size'])}; x_ss := {Z(case['sector_size'])}; "
            f"x_has_parent := {core.cbool(case.get('has_parent', False))}; "
            f"x_bat := tbl {zpairs(nz)} 0 {Z(len(ents))}; x_fbyte := ({fb}) |}}")
