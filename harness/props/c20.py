"""C20 — vmtar: every member extracts to the bytes stored at its recorded data offset."""
from __future__ import annotations

import gzip
import io
import os
import shutil
import struct

from harness import core
from harness.core import Z
from harness.main import Finding, Suite

PROPERTY = "C20"
PROPS_FILE = "Props/C20.v"
MODEL_FILES = ["Spec/VmTar.v", "Model/VmTar.v"]
META = {
    "category": "proof",
    "text": "Coq theorems: the model of VisorTarInfo.frombuf/_proc_member on top of the header-iteration core of CPython "
            "3.12 tarfile lists exactly the members an independent vmtar writer rendered, for every mix of visor members "
            "(with a recorded data offset, without one), standard members with inline data, long GNU names, any order, "
            "size and placement of data, and extracts each to file[recorded offset, +size) (visor) or to the inline "
            "content (standard); with no visor magic present it is the standard reader; iteration terminates on every "
            "byte string. The model is tied to vmtar.py by the generated Gen/VmTar.v (magic, slice bounds, struct "
            "formats, the skip condition of _proc_member, the two factory functions) and by differential correspondence "
            "on generated archives (implementation vs model vs specification; names, types, sizes, offsets, bytes).",
    "design_ref": "DESIGN.md §6 C20",
    "note": "Trusted: Coq kernel; hand-written model of the tarfile core (Model/VmTar.v) validated against CPython only "
            "on generated cases; pax headers and GNU sparse members are outside the model (standard-reader oracle: the "
            "same bytes through tarfile.TarInfo); gzip is an oracle.",
    "technique": "Coq proof (reader inverts writer; progress; conservativity) + differential correspondence",
    "rule": "archives: 0..30 members from {visor file with data, visor empty file, visor dir/link/unknown type, standard "
            "file/dir/link/unknown type with inline data, GNU long name/link records before either}; sizes {0,1,511,512,"
            "513,1024,4096,5000,random}; data areas asc/desc/shuffled, page/block/unaligned, gaps, shared, aliased into "
            "the header area or a standard member's data; 0..8 terminator blocks, 0..20 trailing zero blocks; access via "
            "open(fileobj), VisorTarFile, gzip, path, iterate+extract. Streams: wf (3-way with Coq spec), plain "
            "(Python's own writer incl. pax; vmtar vs standard reader), malformed (mutated archives; impl vs model). "
            "Non-trivial = at least 2 members with data whose data order differs from header order, or visor and "
            "standard data members mixed; distinct by case hash.",
    "trusted_base": ["Model/VmTar.v models CPython tarfile by hand (correspondence-checked, not proved against Python)",
                     "gzip/zlib (oracle)", "Python's utf-8/surrogateescape codec (names compared as bytes)"],
    "assumptions": ["file objects behave as io.BytesIO / regular files",
                    "pax (x, g, X) and GNU sparse (S) members are handled by the standard library unchanged "
                    "(checked differentially against tarfile.TarInfo, not modelled)"],
}

BLOCK = 512
VISOR7 = b"visor  "
def _scratch_root():
    """a scratch directory outside the repository under test and outside the framework's tracked files:
    $VERIF_SCRATCH, else /work/scratch_c20 when /work is writable, else <framework>/out/scratch_c20 (out/ is git-ignored)"""
    if os.environ.get("VERIF_SCRATCH"):
        return os.environ["VERIF_SCRATCH"]
    if os.path.isdir("/work") and os.access("/work", os.W_OK):
        return "/work/scratch_c20"
    return os.path.join(core.OUT, "scratch_c20")


SCRATCH = _scratch_root()


# ----------------------------------------------------------------------------- content
def pat_bytes(seed: int, start: int, n: int) -> bytes:
    return bytes((seed + 7 * i + 13 * (i // 256) + 101 * (i // 65536)) % 256 for i in range(start, start + n))


def block_up(n: int) -> int:
    return (n + 511) // 512 * 512


def octf(w: int, v: int) -> bytes:
    return b"%0*o" % (w - 1, v) + b"\0"


def hx(b: bytes) -> str:
    return b.hex()


def unhx(s: str) -> bytes:
    return bytes.fromhex(s)


DATA_TYPES_KNOWN = {48, 0, 49, 50, 53, 54, 55, 51, 52, 76, 75, 83}


def has_data_type(t: int) -> bool:
    return t in (48, 0, 55, 83) or t not in DATA_TYPES_KNOWN


def spec_type(m) -> int:
    if m["type"] == 0 and unhx(m["name"]).endswith(b"/"):
        return 53
    return m["type"]


def stored_away(m) -> bool:
    return m["visor"] and m["voff"] != 0


def is_inline(m) -> bool:
    return (not stored_away(m)) and has_data_type(spec_type(m))


def header_bytes(m) -> bytes:
    """The harness's own header writer (independent of tarfile and of the Coq render)."""
    name = unhx(m["name"])
    pre = (name.ljust(100, b"\0") + octf(8, m["mode"]) + octf(8, m["uid"]) + octf(8, m["gid"]) + octf(12, m["size"])
           + octf(12, m["mtime"]))
    post = (bytes([m["type"]]) + unhx(m["link"]).ljust(100, b"\0") + unhx(m["magic"]) + unhx(m["uname"]).ljust(32, b"\0")
            + unhx(m["gname"]).ljust(32, b"\0") + octf(8, m["devmajor"]) + octf(8, m["devminor"]))
    if m["visor"]:
        post += unhx(m["prefix"]).ljust(151, b"\0") + struct.pack("<IIII", m["voff"], m["vres"], m["text"], m["fix"])
    else:
        post += unhx(m["prefix"]).ljust(155, b"\0") + b"\0" * 12
    assert len(pre) == 148 and len(post) == 356, (len(pre), len(post))
    chk = 256 + sum(pre) + sum(post)
    return pre + b"%06o\0 " % chk + post


def member_data(m) -> bytes:
    """blocks following the header of a standard member (content + padding)"""
    if m.get("payload") is not None:          # GNU long name/link record: payload, NUL, zero padding
        p = unhx(m["payload"])
        return p + b"\0" * (block_up(m["size"]) - len(p))
    if not is_inline(m) or m["visor"]:
        return b""
    return pat_bytes(m["dseed"], 0, block_up(m["size"]))


def layout(case):
    """-> (regions, file bytes before edits).  regions: list of (abs offset, kind, info)"""
    out = []
    regions = []
    pos = 0
    for m in case["items"]:
        h = header_bytes(m)
        regions.append((pos, "lit", h))
        out.append(h)
        pos += 512
        d = member_data(m)
        if d:
            if m.get("payload") is not None:
                regions.append((pos, "lit", d))
            else:
                regions.append((pos, "pat", (m["dseed"], 0, len(d))))
            out.append(d)
            pos += len(d)
    t = case["term_blocks"] * 512
    if t:
        regions.append((pos, "rep", (0, t)))
        out.append(b"\0" * t)
        pos += t
    tl = case["tail"]
    if tl["len"]:
        regions.append((pos, "pat", (tl["seed"], 0, tl["len"])))
        out.append(pat_bytes(tl["seed"], 0, tl["len"]))
        pos += tl["len"]
    z = case["trail_blocks"] * 512
    if z:
        regions.append((pos, "rep", (0, z)))
        out.append(b"\0" * z)
        pos += z
    return regions, b"".join(out)


def apply_edits(case, regions, data: bytes):
    """malformed stream: overlays, truncation, appended bytes -> (regions', bytes)"""
    edits = case.get("edits") or []
    if not edits:
        return regions, data
    buf = bytearray(data)
    dirty = []
    for e in edits:
        if e[0] == "set":
            off, hv = e[1], unhx(e[2])
            if off + len(hv) <= len(buf):
                buf[off:off + len(hv)] = hv
                dirty.append((off, off + len(hv)))
        elif e[0] == "trunc":
            del buf[e[1]:]
        elif e[0] == "append":
            start = len(buf)
            buf += unhx(e[1])
            dirty.append((start, len(buf)))
    n = len(buf)
    # rebuild the regions: cut at the new length, replace dirty intervals by literals
    dirty.sort()
    new = []
    for off, kind, info in regions:
        ln = len(info) if kind == "lit" else (info[1] if kind == "rep" else info[2])
        end = min(off + ln, n)
        cur = off
        while cur < end:
            # next dirty interval intersecting [cur, end)
            nxt = None
            for a, b in dirty:
                if b > cur and a < end:
                    nxt = (max(a, cur), min(b, end))
                    break
            stop = nxt[0] if nxt else end
            if stop > cur:
                if kind == "lit":
                    new.append((cur, "lit", bytes(buf[cur:stop])))
                elif kind == "rep":
                    new.append((cur, "rep", (info[0], stop - cur)))
                else:
                    new.append((cur, "pat", (info[0], info[1] + (cur - off), stop - cur)))
                cur = stop
            if nxt and nxt[0] == cur:
                new.append((cur, "lit", bytes(buf[nxt[0]:nxt[1]])))
                cur = nxt[1]
    last = new[-1][0] + (len(new[-1][2]) if new[-1][1] == "lit" else new[-1][2][1] if new[-1][1] == "rep" else new[-1][2][2]) \
        if new else 0
    if last < n:
        new.append((last, "lit", bytes(buf[last:n])))
    return new, bytes(buf)


def build(case):
    regions, data = layout(case)
    regions, data = apply_edits(case, regions, data)
    return regions, data


def rle_chunks(b: bytes):
    """literal bytes -> CLit / CRep terms (runs of >= 12 equal bytes become CRep)"""
    out = []
    i = 0
    lit = []
    n = len(b)
    while i < n:
        j = i
        while j < n and b[j] == b[i]:
            j += 1
        if j - i >= 12:
            if lit:
                out.append("CLit " + core.zlist(lit))
                lit = []
            out.append(f"CRep {b[i]} {j - i}")
        else:
            lit.extend(b[i:j])
        i = j
    if lit:
        out.append("CLit " + core.zlist(lit))
    return out


def file_term(regions) -> str:
    cs = []
    for off, kind, info in regions:
        if kind == "lit":
            cs += rle_chunks(info)
        elif kind == "rep":
            cs.append(f"CRep {info[0]} {info[1]}")
        else:
            cs.append(f"CPat {info[0]} {info[1]} {info[2]}")
    return "expand [" + "; ".join(cs) + "]"


def blist(h: str) -> str:
    return core.zlist(list(unhx(h)))


def member_term(m) -> str:
    d = member_data(m)
    if not d:
        dt = "[]"
    elif m.get("payload") is not None:
        dt = "expand [" + "; ".join(rle_chunks(d)) + "]"
    else:
        dt = f"expand [CPat {m['dseed']} 0 {len(d)}]"
    return (f"mkam {core.cbool(m['visor'])} {blist(m['name'])} {blist(m['prefix'])} {m['type']} {m['size']} {blist(m['link'])} "
            f"{m['mode']} {m['uid']} {m['gid']} {m['mtime']} {m['devmajor']} {m['devminor']} {blist(m['magic'])} "
            f"{blist(m['uname'])} {blist(m['gname'])} {m['voff']} {m['vres']} {m['text']} {m['fix']} ({dt})")


# ----------------------------------------------------------------------------- generator
NAME_ALPH = b"abcdefghijklmnopqrstuvwxyzABCDEFGHIJKLMNOPQRSTUVWXYZ0123456789._-+ "


def rand_component(rng, n):
    return bytes(rng.pick(NAME_ALPH) for _ in range(n))


def rand_path(rng, total, utf=False):
    """a path of exactly `total` bytes (components separated by /, no leading or trailing slash)"""
    if total <= 0:
        return b""
    out = bytearray()
    while len(out) < total:
        left = total - len(out)
        k = min(left, rng.randint(1, 24))
        if utf and k >= 4 and rng.chance(0.3):
            out += "é€𝄞"[rng.randrange(3)].encode()[:k]
            continue
        out += rand_component(rng, k)
        if len(out) < total - 1 and rng.chance(0.6):
            out += b"/"
    out = bytes(out[:total])
    if out.endswith(b"/"):
        out = out[:-1] + b"x"
    if out.startswith(b"/"):
        out = b"y" + out[1:]
    # cut multi-byte sequences cleanly is not required: names are compared as bytes (surrogateescape)
    return out


STD_MAGICS = [b"ustar\x0000", b"ustar  \x00", b"\0" * 8, b"ustar\x00  ", b"visor \x000", b"Visor  \x00"]
SIZES = [0, 1, 511, 512, 513, 1024, 4096, 5000]


def gen_member(rng, visor, kind):
    """kind: file | empty | dir | sym | lnk | fifo | chr | unknown | cont | v7dir"""
    m = {"visor": visor, "payload": None}
    tmap = {"file": 48, "empty": 48, "dir": 53, "sym": 50, "lnk": 49, "fifo": 54, "chr": 51, "cont": 55, "v7dir": 0,
            "areg": 0}
    if kind == "unknown":
        m["type"] = rng.pick([90, 65, 56, 57, 77, 86, 1, 200, 255])
    else:
        m["type"] = tmap[kind]
    nl = rng.weighted([(rng.randint(1, 20), 5), (rng.randint(21, 99), 2), (100, 1), (99, 1)])
    name = rand_path(rng, nl, utf=rng.chance(0.15))
    if kind in ("dir", "v7dir"):
        slashes = rng.weighted([(1, 5), (0, 2 if kind == "dir" else 0), (2, 1)])
        name = (name[:max(1, nl - slashes)] + b"/" * slashes)[:100]
        if kind == "v7dir" and not name.endswith(b"/"):
            name = name[:-1] + b"/"
    m["name"] = hx(name)
    pmax = 150 if visor else 155
    pl = rng.weighted([(0, 6), (rng.randint(1, 40), 2), (pmax, 1), (pmax - 1, 1)])
    m["prefix"] = hx(rand_path(rng, pl))
    if kind in ("file", "unknown", "cont", "areg"):
        m["size"] = rng.weighted([(rng.pick(SIZES), 6), (rng.randint(1, 6000), 3), (rng.randint(1, 40), 2)])
        if kind == "file" and m["size"] == 0:
            m["size"] = 1
    elif kind == "empty":
        m["size"] = 0
    else:
        m["size"] = rng.weighted([(0, 8), (rng.randint(1, 2000), 1)])    # a size on a member without data
    m["link"] = hx(rand_path(rng, rng.randint(1, 100)) if kind in ("sym", "lnk") else b"")
    m["mode"] = rng.pick([0o644, 0o755, 0o775, 0o664, 0, 0o7777777])
    m["uid"] = rng.pick([0, 1000, 0o7777777, rng.randrange(8 ** 7)])
    m["gid"] = rng.pick([0, 1000, rng.randrange(8 ** 7)])
    m["mtime"] = rng.pick([0, 1700000000, 8 ** 11 - 1, rng.randrange(8 ** 11)])
    m["devmajor"] = rng.pick([0, 0, 8, rng.randrange(8 ** 7)])
    m["devminor"] = rng.pick([0, 0, 1, rng.randrange(8 ** 7)])
    m["uname"] = hx(rng.pick([b"", b"root", rand_component(rng, 32)]))
    m["gname"] = hx(rng.pick([b"", b"root", rand_component(rng, rng.randint(1, 32))]))
    if visor:
        m["magic"] = hx(VISOR7 + bytes([rng.pick([0, 0, 32, 48])]))
        m["vres"] = rng.pick([0, 0, rng.randrange(1 << 32)])
        m["text"] = rng.pick([0, 0, 1, rng.randrange(1 << 32)])
        m["fix"] = rng.pick([0, 0, 3, rng.randrange(1 << 32)])
    else:
        m["magic"] = hx(rng.weighted([(STD_MAGICS[0], 5), (STD_MAGICS[1], 2), (STD_MAGICS[2], 1), (STD_MAGICS[3], 1),
                                      (STD_MAGICS[4], 1), (STD_MAGICS[5], 1)]))
        m["vres"] = m["text"] = m["fix"] = 0
    m["voff"] = 0
    m["dseed"] = rng.randrange(256)
    return m


def gen_long_record(rng, kind, visor_magic):
    """a GNU L / K record; its payload is a long name / link name"""
    n = rng.weighted([(rng.randint(101, 300), 5), (rng.randint(1, 100), 1), (511, 1), (512, 1), (1023, 1), (1500, 1)])
    p = rand_path(rng, n, utf=rng.chance(0.1))
    if rng.chance(0.15):
        p = p[:-1] + b"/"
    m = gen_member(rng, False, "empty")
    m["type"] = 76 if kind == "L" else 75
    m["name"] = hx(b"././@LongLink")
    m["prefix"] = hx(b"")
    m["link"] = hx(b"")
    m["size"] = len(p) + 1
    m["payload"] = hx(p)
    if visor_magic:
        # vmtar-style: every header carries the visor magic; no data offset on a record
        m["visor"] = True
        m["magic"] = hx(VISOR7 + b"\0")
        m["prefix"] = hx(b"")
    return m


def gen_archive(rng, tier, plain_only=False, with_long=False, kinds=None):
    nmax = 30 if tier == "thorough" else 14
    n = rng.weighted([(0, 1), (1, 2), (2, 3), (rng.randint(3, nmax), 12)])
    mix = "std" if plain_only else rng.weighted([("visor", 4), ("mixed", 5), ("std", 1)])
    items = []
    for _ in range(n):
        visor = {"visor": True, "std": False, "mixed": rng.chance(0.6)}[mix]
        kind = rng.weighted(kinds or [("file", 10), ("empty", 2), ("dir", 3), ("sym", 1), ("lnk", 1), ("fifo", 1), ("chr", 1),
                                      ("unknown", 1), ("cont", 1), ("v7dir", 1), ("areg", 1)])
        m = gen_member(rng, visor, kind)
        if with_long and rng.chance(0.35):
            recs = rng.weighted([(["L"], 5), (["K"], 2), (["L", "K"], 2), (["K", "L"], 1), (["L", "L"], 1)])
            for r in recs:
                items.append(gen_long_record(rng, r, visor and rng.chance(0.5)))
        items.append(m)
    term = rng.weighted([(2, 6), (1, 3), (3, 1), (8, 1), (0, 1)])
    if n == 0 and term == 0:
        term = 1
    hdr_len = sum(512 + len(member_data(m)) for m in items)
    base = hdr_len + term * 512
    # data areas of the visor members that have content
    need = [i for i, m in enumerate(items) if m["visor"] and m.get("payload") is None and
            (has_data_type(spec_type(m)) and m["size"] > 0 or rng.chance(0.15))]
    order = list(need)
    placement = rng.weighted([("asc", 3), ("desc", 3), ("shuffled", 5)])
    if placement == "desc":
        order.reverse()
    elif placement == "shuffled":
        rng.shuffle(order)
    align = rng.weighted([(4096, 3), (512, 2), (1, 4), (16, 1)])
    gaps = rng.weighted([("none", 3), ("small", 3), ("big", 1)])
    pos = base
    high = rng.chance(0.12)
    if high:
        pos = max(pos, rng.pick([65536, 65536 + 4096, 70001, 131072]))     # recorded offsets beyond 16 bits
    share = rng.chance(0.15)
    alias = rng.chance(0.15) and base >= 1024
    prev = None
    for k, i in enumerate(order):
        m = items[i]
        sz = m["size"] if has_data_type(spec_type(m)) else rng.randint(0, 64)
        if share and prev is not None and rng.chance(0.4):
            m["voff"] = prev                       # two members record the same area
            continue
        if alias and rng.chance(0.3):
            m["voff"] = rng.randint(1, max(1, base - 1))   # inside the header area / a standard member's data
            m["_alias"] = True
            continue
        if gaps == "small":
            pos += rng.randint(0, 700)
        elif gaps == "big":
            pos += rng.randint(0, 20000)
        if align > 1:
            pos = (pos + align - 1) // align * align
        if pos == 0:
            pos = align if align > 1 else 1
        m["voff"] = pos
        prev = pos
        pos += sz
    for m in items:
        if m["voff"] and not m.get("_alias"):
            pos = max(pos, m["voff"] + (m["size"] if has_data_type(spec_type(m)) else 0))
    tail_len = pos - base
    if rng.chance(0.3):
        tail_len += rng.randint(0, 3000)           # unreferenced bytes after the last area
    trail = rng.weighted([(0, 4), (rng.randint(1, 20), 3)])
    c = {"items": items, "term_blocks": term, "tail": {"len": tail_len, "seed": rng.randrange(256)}, "trail_blocks": trail,
         "placement": placement, "align": align, "gaps": gaps, "mix": mix, "high": high}
    total = base + tail_len + trail * 512
    # aliased areas must lie inside the file
    for m in items:
        if m.pop("_alias", False):
            sz = m["size"] if has_data_type(spec_type(m)) else 0
            if m["voff"] + sz > total:
                m["voff"] = max(1, total - sz)
            if m["voff"] + sz > total:          # file too small: give it no recorded area -> must not have content
                m["voff"] = 0
                if has_data_type(spec_type(m)) and m["size"] > 0:
                    m["size"] = 0
    if term == 0 and tail_len == 0 and trail == 0:
        pass      # the archive ends with its last header / inline data
    return c


ACCESS = [("open", 5), ("visortarfile", 3), ("gz", 3), ("path", 1), ("iter", 3), ("opengz", 1)]


def gen_wf(rng, tier, with_long):
    c = gen_archive(rng, tier, with_long=with_long)
    c["stream"] = "long" if with_long else "wf"
    c["access"] = rng.weighted(ACCESS)
    return c


def gen_malformed(rng, tier):
    c = gen_archive(rng, tier, with_long=rng.chance(0.45))
    c["stream"] = "malformed"
    c["access"] = rng.weighted([("open", 5), ("visortarfile", 3), ("gz", 1), ("iter", 3)])
    _, data = layout(c)
    n = len(data)
    hdr_offsets = []
    pos = 0
    for m in c["items"]:
        hdr_offsets.append(pos)
        pos += 512 + len(member_data(m))
    edits = []
    kinds = rng.randint(1, 2)
    for _ in range(kinds):
        k = rng.weighted([("trunc", 4), ("chk", 2), ("size", 3), ("voff", 4), ("type", 2), ("magic", 2), ("noterm", 2),
                          ("garbage", 1), ("numfield", 2), ("zero_voff", 2), ("hdr_in_tail", 2), ("signed_chk", 2),
                          ("after_record", 3), ("record_voff", 2)])
        h = rng.pick(hdr_offsets) if hdr_offsets else 0
        if k == "trunc":
            cut = rng.weighted([(rng.randrange(0, n + 1), 3), (max(0, rng.pick(hdr_offsets or [0]) + rng.pick([0, 1, 100, 511, 512, 513])), 3),
                                (max(0, n - rng.randint(1, 600)), 2)])
            edits.append(["trunc", min(cut, n)])
        elif k == "chk" and hdr_offsets:
            edits.append(["set", h + 148, hx(rng.pick([b"0000000\0", b"       \0", b"\0" * 8, b"99999999", b"0177777\0"]))])
        elif k == "size" and hdr_offsets:
            v = rng.pick([b"00000000000\0", b"77777777777\0", b"00000001000 ", b"           \0", b"0000000100\0\0", b"\x80" + b"\0" * 9 + b"\x02\x00",
                          b"00000000z00\0", b"\0" * 12, b"  00000777\0\0"])
            edits.append(["set", h + 124, hx(v)])
            edits.append(["fixchk", h])
        elif k == "voff" and hdr_offsets:
            v = rng.pick([n, n + 1, n - 1, 0xFFFFFFFF, 1, 512, rng.randrange(0, n + 5000)])
            edits.append(["set", h + 496, hx(struct.pack("<I", v & 0xFFFFFFFF))])
            edits.append(["fixchk", h])
        elif k == "zero_voff" and hdr_offsets:
            edits.append(["set", h + 496, hx(b"\0\0\0\0")])
            edits.append(["fixchk", h])
        elif k == "type" and hdr_offsets:
            edits.append(["set", h + 156, hx(bytes([rng.pick([48, 53, 0, 50, 76, 75, 90, 55, 49, 54])]))])
            edits.append(["fixchk", h])
        elif k == "magic" and hdr_offsets:
            edits.append(["set", h + 257, hx(rng.pick([VISOR7 + b"\0", b"ustar\x0000", b"visor \x00\x00", b"visor   ", b"VISOR  \0"]))])
            edits.append(["fixchk", h])
        elif k == "numfield" and hdr_offsets:
            off, w = rng.pick([(100, 8), (108, 8), (116, 8), (136, 12), (329, 8), (337, 8)])
            v = rng.pick([b" " * w, b"\0" * w, b"7" * w, b"8" * w, (b"12 34" + b"\0" * w)[:w], (b"\x80" + b"\x01" * w)[:w],
                          (b"\xff" + b"\xfe" * w)[:w], (b"12\xc3\xa9" + b"\0" * w)[:w], (b" 17 " + b"\0" * w)[:w],
                          (b"\t7\x1f" + b"\0" * w)[:w], (b"1a" + b"\0" * w)[:w]])
            edits.append(["set", h + off, hx(v)])
            edits.append(["fixchk", h])
        elif k == "signed_chk" and hdr_offsets:
            # a header with bytes >= 128 whose checksum was computed with signed chars (Sun / NeXT tars): still valid
            edits.append(["set", h + 265, hx("ü".encode() * 3)])
            edits.append(["fixchk-signed", h])
        elif k == "after_record":
            # damage the header that follows a long name / link record, or cut the archive right after the record
            recs = [(o, m) for o, m in zip(hdr_offsets, c["items"]) if m.get("payload") is not None]
            if recs:
                o, m = rng.pick(recs)
                nxt = o + 512 + len(member_data(m))
                how = rng.pick(["chk", "zero", "trunc", "trunc-mid"])
                if how == "chk":
                    edits.append(["set", nxt + 148, hx(b"0000001\0")])
                elif how == "zero":
                    edits.append(["set", nxt, hx(b"\0" * 512)])
                elif how == "trunc":
                    edits.append(["trunc", nxt])
                else:
                    edits.append(["trunc", nxt + rng.randint(1, 511)])
        elif k == "record_voff":
            recs = [o for o, m in zip(hdr_offsets, c["items"]) if m.get("payload") is not None and m["visor"]]
            if recs:
                o = rng.pick(recs)
                edits.append(["set", o + 496, hx(struct.pack("<I", rng.pick([1, 512, n // 2, n + 7])))])
                edits.append(["fixchk", o])
        elif k == "noterm":
            c["term_blocks"] = 0
        elif k == "garbage":
            edits.append(["append", hx(bytes(rng.randrange(256) for _ in range(rng.randint(1, 700))))])
        elif k == "hdr_in_tail":
            # a valid header where the data area starts: only reached if iteration runs past the terminator
            g = gen_member(rng, rng.chance(0.5), "file")
            g["size"] = rng.pick([0, 10, 600])
            if g["visor"]:
                g["voff"] = rng.randint(1, n)
            tb = sum(512 + len(member_data(m)) for m in c["items"]) + c["term_blocks"] * 512
            if tb + 512 <= n:
                edits.append(["set", tb, hx(header_bytes(g))])
    # resolve fixchk: recompute the checksum of the edited header so that the edit is what is tested
    if c["term_blocks"] == 0:
        _, data = layout(c)
        n = len(data)
    buf = bytearray(data)
    final = []
    for e in edits:
        if e[0] == "set":
            if e[1] + len(unhx(e[2])) <= len(buf):
                buf[e[1]:e[1] + len(unhx(e[2]))] = unhx(e[2])
                final.append(e)
        elif e[0] in ("fixchk", "fixchk-signed"):
            h = e[1]
            if h + 512 <= len(buf):
                blk = bytes(buf[h:h + 512])
                if e[0] == "fixchk":
                    chk = 256 + sum(blk[:148]) + sum(blk[156:])
                else:
                    sg = lambda bs: sum(b if b < 128 else b - 256 for b in bs)  # noqa: E731
                    chk = 256 + sg(blk[:148]) + sg(blk[156:])
                cb = b"%06o\0 " % chk
                buf[h + 148:h + 156] = cb
                final.append(["set", h + 148, hx(cb)])
        elif e[0] == "trunc":
            cut = min(e[1], len(buf))
            del buf[cut:]
            final.append(["trunc", cut])
        else:
            buf += unhx(e[1])
            final.append(e)
    c["edits"] = final
    return c


def gen_plain(rng, tier):
    """a non-visor archive written by Python's own tarfile (ustar / GNU / pax, long names, links, pax headers)"""
    n = rng.randint(0, 10)
    fmt = rng.pick(["ustar", "gnu", "pax"])
    ms = []
    for _ in range(n):
        kind = rng.weighted([("file", 6), ("dir", 2), ("sym", 1), ("lnk", 1), ("fifo", 1)])
        maxn = 90 if fmt == "ustar" else 400
        name = rand_path(rng, rng.weighted([(rng.randint(1, 60), 4), (rng.randint(61, maxn), 2)]), utf=rng.chance(0.2))
        ms.append({"kind": kind, "name": hx(name), "size": rng.pick(SIZES + [rng.randint(1, 3000)]) if kind == "file" else 0,
                   "link": hx(rand_path(rng, rng.randint(1, 120 if fmt != "ustar" else 90))), "seed": rng.randrange(256),
                   "pax": {"comment": "x" * rng.randint(1, 30)} if fmt == "pax" and rng.chance(0.3) else {},
                   "uname": rng.pick(["", "root", "ü" if fmt == "pax" else "u"])})
    c = {"stream": "plain", "fmt": fmt, "members": ms, "access": rng.weighted([("open", 4), ("visortarfile", 3), ("gz", 2), ("iter", 2)]),
         "trail_blocks": rng.pick([0, 0, 3]), "global_pax": fmt == "pax" and rng.chance(0.2)}
    if rng.chance(0.35):
        # an old-GNU sparse member ('S': up to four (offset, length) segments in the header, the real size behind them) in
        # front of the others: tarfile cannot write one, every tar reader expands it (holes read as zeros)
        segs, pos = [], 0
        for _ in range(rng.randint(1, 4)):
            pos += 512 * rng.randint(0, 6)
            ln = 512 * rng.randint(1, 3) if rng.chance(0.7) else rng.randint(1, 1500)
            segs.append([pos, ln])
            pos += (ln + 511) // 512 * 512
        c["sparse"] = {"name": hx(b"var/sparse-" + bytes([97 + rng.randrange(26)]) + b".img"), "segs": segs,
                       "realsize": pos + 512 * rng.randint(0, 5), "seed": rng.randrange(256)}
    return c


def build_plain(case) -> bytes:
    import tarfile
    bio = io.BytesIO()
    fmt = {"ustar": tarfile.USTAR_FORMAT, "gnu": tarfile.GNU_FORMAT, "pax": tarfile.PAX_FORMAT}[case["fmt"]]
    kw = {}
    if case.get("global_pax"):
        kw["pax_headers"] = {"globalkey": "globalvalue"}
    with tarfile.TarFile(fileobj=bio, mode="w", format=fmt, **kw) as t:
        for m in case["members"]:
            ti = tarfile.TarInfo(unhx(m["name"]).decode("utf-8", "surrogateescape"))
            ti.type = {"file": tarfile.REGTYPE, "dir": tarfile.DIRTYPE, "sym": tarfile.SYMTYPE, "lnk": tarfile.LNKTYPE,
                       "fifo": tarfile.FIFOTYPE}[m["kind"]]
            ti.size = m["size"]
            ti.uname = m["uname"]
            if m["kind"] in ("sym", "lnk"):
                ti.linkname = unhx(m["link"]).decode("utf-8", "surrogateescape")
            if m["pax"]:
                ti.pax_headers = dict(m["pax"])
            t.addfile(ti, io.BytesIO(pat_bytes(m["seed"], 0, m["size"])) if m["kind"] == "file" else None)
    data = bio.getvalue() + b"\0" * (512 * case["trail_blocks"])
    sp = case.get("sparse")
    if sp:
        stored = sum(ln for _, ln in sp["segs"])
        ti = tarfile.TarInfo(unhx(sp["name"]).decode())
        ti.type = tarfile.GNUTYPE_SPARSE
        ti.size = stored
        h = bytearray(ti.tobuf(tarfile.GNU_FORMAT))
        for k, (off, ln) in enumerate(sp["segs"]):
            h[386 + 24 * k:386 + 24 * k + 24] = octf(12, off) + octf(12, ln)
        h[482] = 0
        h[483:495] = octf(12, sp["realsize"])
        h[148:156] = b" " * 8
        h[148:156] = b"%06o\0 " % sum(h)
        body = pat_bytes(sp["seed"], 0, stored)
        data = bytes(h) + body + b"\0" * (block_up(stored) - stored) + data
    return data


SAMPLE = {b"test": None, b"test/file1": b"a" * 512 + b"\n", b"test/file2": b"b" * 1024 + b"\n", b"test/file3": b"c" * 2048 + b"\n",
          b"test/subdir": None, b"test/subdir/file4": b"f" * 2048 + b"\n"}


def case_bytes(case):
    if case["stream"] == "sample":              # the real vmtar sample of the repository's test-suite
        with open(os.path.join(core.REPO, "tests", "data", "test.vgz"), "rb") as fh:
            data = fh.read()
        return [(0, "lit", data)], data
    if case["stream"] == "plain":
        data = build_plain(case)
        return [(0, "lit", data)], data
    return build(case)


# ----------------------------------------------------------------------------- implementation driver
LINK_TYPES = (b"1", b"2")


def _exc(e, phase):
    return {"outcome": "exc", "phase": phase, "exc": type(e).__name__, "msg": str(e)[:160]}


def drive(data: bytes, access: str, visor: bool):
    """List and extract everything through vmtar (visor=True) or the standard reader (visor=False)."""
    import shutil
    import tarfile
    from dissect.hypervisor.util import vmtar
    tmpdir = None
    fh = None
    try:
        if access in ("gz", "opengz"):
            import zlib
            k = zlib.crc32(data)
            if k & 1 and len(data) > 1024:
                # a wrapper of several gzip members (what `cat a.gz b.gz` or a chunking compressor writes): one stream
                cut = 512 + (k >> 1) % (len(data) - 1024)
                parts = [data[:cut], data[cut:]] if k & 2 else [data[:cut], b"", data[cut:]]
            else:
                parts = [data]
            fh = io.BytesIO(b"".join(gzip.compress(q, compresslevel=1, mtime=0) for q in parts))
        else:
            fh = io.BytesIO(data)
        try:
            if access == "visortarfile":
                tar = vmtar.VisorTarFile(fileobj=fh) if visor else tarfile.TarFile(fileobj=fh)
            elif access == "opengz":
                tar = vmtar.open(fileobj=fh, mode="r:gz") if visor else tarfile.open(fileobj=fh, mode="r:gz")
            elif access == "path":
                tmpdir = os.path.join(SCRATCH, f"p{os.getpid()}")
                os.makedirs(tmpdir, exist_ok=True)
                p = os.path.join(tmpdir, "a.vtar")
                with open(p, "wb") as o:
                    o.write(data)
                tar = vmtar.open(p) if visor else tarfile.open(p)
            else:
                tar = vmtar.open(fileobj=fh) if visor else tarfile.open(fileobj=fh)
        except Exception as e:  # noqa: BLE001
            return {"open": _exc(e, "open"), "members": []}
        out = {"open": None, "members": [], "list": None}

        def record(m, extract_now):
            r = {"name": m.name.encode("utf-8", "surrogateescape"), "link": m.linkname.encode("utf-8", "surrogateescape"),
                 "type": m.type[0] if m.type else -1, "size": m.size, "off": m.offset, "data": m.offset_data,
                 "visor": bool(getattr(m, "is_visor", False)), "text": getattr(m, "textPgs", None) or 0,
                 "fix": getattr(m, "fixUpPgs", None) or 0, "cls": type(m).__name__}
            if extract_now:
                r["x"] = extract(tar, m)
            out["members"].append(r)

        def extract(tar, m):
            if m.type in LINK_TYPES:
                return "skipped"
            try:
                fo = tar.extractfile(m)
                if fo is None:
                    return "none"
                return fo.read()
            except Exception as e:  # noqa: BLE001
                return _exc(e, "extract")

        if access == "iter":
            try:
                for m in tar:
                    record(m, True)
            except Exception as e:  # noqa: BLE001
                out["list"] = _exc(e, "list")
        else:
            try:
                ms = tar.getmembers()
            except Exception as e:  # noqa: BLE001
                out["list"] = _exc(e, "list")
                ms = list(tar.members)
            order = list(range(len(ms)))
            for m in ms:
                record(m, False)
            # extract in reverse order (independent of listing order)
            for i in reversed(order):
                out["members"][i]["x"] = extract(tar, ms[i])
        return out
    finally:
        if tmpdir:
            shutil.rmtree(tmpdir, ignore_errors=True)


# ----------------------------------------------------------------------------- judging
def model_listing(v):
    """parsed `run` value -> ('done', [member dict]) | ('raises',) | ('unmod',) | ('nofuel',)"""
    if v == "Raises":
        return ("raises",)
    if v == "Unmod":
        return ("unmod",)
    if v == "NoFuel":
        return ("nofuel",)
    if isinstance(v, tuple) and v[0] == "Done":
        ms = []
        for item in v[1]:
            # left-nested pairs print flat: ('', name, link, (t,s,o,d), (visor,text,fix), extract)
            _, name, link, nums, vis, ex = item
            _, ty, sz, off, doff = nums
            _, visor, text, fix = vis
            if ex == "Raises":
                x = ("raises",)
            elif ex == "Unmod":
                x = ("unmod",)
            elif ex == "NoFuel":
                x = ("nofuel",)
            else:
                o = ex[1]
                x = ("none",) if o == "None" else ("plan", o[1][1], o[1][2])
            ms.append({"name": bytes(name), "link": bytes(link), "type": ty, "size": sz, "off": off, "data": doff,
                       "visor": visor == "true", "text": text, "fix": fix, "x": x})
        return ("done", ms)
    raise ValueError(f"unexpected model value {str(v)[:200]}")


FIELDS = ("name", "link", "type", "size", "off", "data", "visor", "text", "fix")


def cmp_members(a, b, fields=FIELDS):
    """first difference between two listings (lists of dicts) or None"""
    if len(a) != len(b):
        return f"{len(a)} members vs {len(b)}"
    for i, (x, y) in enumerate(zip(a, b)):
        for k in fields:
            if x[k] != y[k]:
                return f"member {i} field {k}: {x[k]!r} vs {y[k]!r}"
    return None


def impl_outcome(r):
    """implementation listing outcome: 'ok' | 'raises'"""
    if r.get("outcome"):
        return r["outcome"]
    if r["open"] is not None or r["list"] is not None:
        return "raises"
    return "ok"


def impl_vs_model(tag, r, mv, data, sig):
    """compare one implementation run with one model run on the same bytes"""
    fs = []
    if mv[0] == "unmod":
        return fs, True
    if mv[0] == "nofuel":
        return [Finding("model_vs_spec", f"{tag}: model ran out of fuel", sig + ":fuel")], False
    io_ = impl_outcome(r)
    if io_ not in ("ok", "raises"):
        return [Finding("impl_fault", f"{tag}: implementation {io_}: {r.get('detail', '')}", sig + ":" + io_)], False
    if mv[0] == "raises":
        if io_ != "raises":
            fs.append(Finding("impl_vs_model", f"{tag}: model predicts an exception, implementation listed "
                              f"{len(r['members'])} members", sig + ":model-raises"))
        return fs, False
    if io_ == "raises":
        e = r["open"] or r["list"]
        fs.append(Finding("impl_vs_model", f"{tag}: implementation raised {e['exc']} ({e['msg'][:80]}) in {e['phase']}, "
                          f"model lists {len(mv[1])} members", sig + ":impl-raises"))
        return fs, False
    d = cmp_members(r["members"], mv[1])
    if d:
        fs.append(Finding("impl_vs_model", f"{tag}: listing differs from the model: {d}", sig + ":listing"))
        return fs, False
    for i, (im, mm) in enumerate(zip(r["members"], mv[1])):
        x, mx = im.get("x"), mm["x"]
        if x == "skipped" or mx[0] == "unmod":
            continue
        if mx[0] == "none":
            if x != "none":
                fs.append(Finding("impl_vs_model", f"{tag}: member {i}: model says no file object, implementation {str(x)[:60]}",
                                  sig + ":x-none"))
        elif mx[0] == "raises":
            if not (isinstance(x, dict) and x.get("outcome") == "exc"):
                fs.append(Finding("impl_vs_model", f"{tag}: member {i}: model predicts a read error, implementation returned "
                                  f"{len(x) if isinstance(x, bytes) else x}", sig + ":x-raises"))
        elif mx[0] == "plan":
            want = data[mx[1]:mx[1] + mx[2]] if mx[2] > 0 else b""
            if not isinstance(x, bytes):
                fs.append(Finding("impl_vs_model", f"{tag}: member {i}: implementation {str(x)[:100]}, model reads "
                                  f"[{mx[1]}, +{mx[2]})", sig + ":x-impl-exc"))
            elif x != want:
                fs.append(Finding("impl_vs_model", f"{tag}: member {i}: bytes differ from the model plan [{mx[1]}, +{mx[2]}) "
                                  f"at +{core.first_diff(x, want)}", sig + ":x-bytes"))
    return fs, False


class VmTarSuite(Suite):
    name = "vmtar"
    shard = 20
    per_case_timeout = 30.0
    preamble = ("From Coq Require Import ZArith List Bool.\nImport ListNotations.\nOpen Scope Z_scope.\n"
                "From DH Require Import Spec.VmTar Model.VmTar.\n")

    def generate(self, rng, tier):
        n = 1200 if tier == "thorough" else 120
        cases = [{"stream": "sample", "access": a} for a in ("open", "gz", "iter", "visortarfile")]
        for i in range(n):
            k = rng.weighted([("wf", 5), ("long", 2), ("malformed", 3), ("plain", 1)])
            if k == "wf":
                cases.append(gen_wf(rng, tier, False))
            elif k == "long":
                cases.append(gen_wf(rng, tier, True))
            elif k == "malformed":
                cases.append(gen_malformed(rng, tier))
            else:
                cases.append(gen_plain(rng, tier))
        return cases

    # -- implementation
    def impl(self, case):
        _, data = case_bytes(case)
        out = {"visor": drive(data, case["access"], True)}
        # the standard reader on the same bytes (oracle for non-visor archives; validates the va=false model)
        out["std"] = drive(data, case["access"], False)
        if case["access"] not in ("open", "iter"):
            out["visor_open"] = drive(data, "open", True)       # the listing must not depend on the access path
        return out

    # -- Coq
    def coq_term(self, case):
        regions, data = case_bytes(case)
        if len(data) > 400_000:
            return None
        f = file_term(regions)
        # the standard-reader model (va = false) is evaluated on every plain / malformed case and on a third
        # of the others (it is the same computation again; its tie to tarfile.TarInfo needs fewer cases)
        std = "run false f" if self.wants_std(case, data) else "skip_run"
        if case["stream"] in ("wf", "long"):
            items = []
            pend = []
            for m in case["items"]:
                if m.get("payload") is not None:
                    pend.append(member_term(m))
                else:
                    t = f"IMember ({member_term(m)})"
                    for r in reversed(pend):
                        t = f"ILong ({r}) ({t})"
                    pend = []
                    items.append(t)
            l = "[" + "; ".join(items) + "]"
            return (f"let f := {f} in let l := {l} in "
                    f"(run true f, {std}, (wf_itemsb l, list_eqb (firstn (length (render_items l)) f) (render_items l), "
                    f"map (fun e => ((e_name e, e_link e, (e_type e, e_size e, e_off e, e_data e), "
                    f"(e_visor e, e_text e, e_fix e)), spec_extract e)) (listing_items 0 l)))")
        return f"let f := {f} in (run true f, {std})"

    @staticmethod
    def wants_std(case, data):
        return case["stream"] in ("plain", "malformed") or VISOR7 not in data or len(data) % 3 == 0

    # -- spec side computed in Python for the streams the Coq spec does not cover (long records)
    def py_spec(self, case):
        """expected listing of a `long` case, the harness's own reading: GNU L/K records rename the member that follows.
        Reader-defined details (what a standard tar reader does, which is what the property asks for): records are applied
        from the one nearest to the member outwards, so the outermost record of a kind wins, and each record removes one
        trailing slash from a directory's name."""
        out = []
        pos = 0
        group = []
        first = None
        for m in case["items"]:
            d = member_data(m)
            if m.get("payload") is not None:
                if first is None:
                    first = pos
                group.append(m)
                pos += 512 + len(d)
                continue
            st = spec_type(m)
            name = unhx(m["name"])
            if st == 53:
                name = name.rstrip(b"/")
            if m["prefix"]:
                name = unhx(m["prefix"]) + b"/" + name
            link = unhx(m["link"])
            for r in reversed(group):
                if r["type"] == 76:
                    name = unhx(r["payload"])
                else:
                    link = unhx(r["payload"])
                if st == 53 and name.endswith(b"/"):
                    name = name[:-1]
            e = {"name": name, "link": link, "type": st, "size": m["size"], "off": pos if first is None else first,
                 "data": m["voff"] if stored_away(m) else pos + 512, "visor": m["visor"],
                 "text": m["text"] if m["visor"] else 0, "fix": m["fix"] if m["visor"] else 0}
            e["x"] = ("plan", e["data"], e["size"]) if has_data_type(st) else ("none",)
            out.append(e)
            group = []
            first = None
            pos += 512 + len(d)
        return out

    def judge(self, case, impl_res, coq_val):
        fs = []
        if impl_res.get("outcome"):
            return [Finding("impl_fault", f"implementation {impl_res['outcome']}: {impl_res.get('detail', '')}",
                            "vmtar:" + impl_res["outcome"])]
        stream = case["stream"]
        _, data = case_bytes(case)
        rv, rs = impl_res["visor"], impl_res["std"]
        sig = f"vmtar:{stream}"
        # the listing must not depend on how the archive is opened
        if "visor_open" in impl_res:
            ro = impl_res["visor_open"]
            if impl_outcome(ro) != impl_outcome(rv) or (impl_outcome(rv) == "ok" and (
                    cmp_members(ro["members"], rv["members"]) or
                    [m.get("x") for m in ro["members"]] != [m.get("x") for m in rv["members"]])):
                fs.append(Finding("impl_vs_spec", f"access path {case['access']} and open(fileobj) disagree on the same bytes",
                                  sig + ":access"))
        mv = ms = None
        spec_entries = None
        if coq_val is not None:
            mv = model_listing(coq_val[1])
            ms = model_listing(coq_val[2])
            f1, _ = impl_vs_model("vmtar", rv, mv, data, sig + ":visor")
            f2, _ = impl_vs_model("tarfile", rs, ms, data, sig + ":std")
            fs += f1 + f2
            if stream in ("wf", "long"):
                _, wf, ren, lst = coq_val[3]
                if wf != "true":
                    fs.append(Finding("coq_error", "generated archive does not satisfy wf_itemsb (generator bug)", sig + ":wf"))
                if ren != "true":
                    fs.append(Finding("coq_error", "Coq render differs from the harness writer", sig + ":render"))
                spec_entries = []
                for item in lst:
                    _, name, link, nums, vis, ex = item
                    _, ty, sz, off, doff = nums
                    _, visor, text, fix = vis
                    x = ("none",) if ex == "None" else ("plan", ex[1][1], ex[1][2])
                    spec_entries.append({"name": bytes(name), "link": bytes(link), "type": ty, "size": sz, "off": off,
                                         "data": doff, "visor": visor == "true", "text": text, "fix": fix, "x": x})
        if stream == "long":
            # the harness's own reading of the format for long records must agree with the Coq specification
            py = self.py_spec(case)
            if spec_entries is None:
                spec_entries = py
            else:
                d = cmp_members(spec_entries, py)
                if d or [e["x"] for e in spec_entries] != [e["x"] for e in py]:
                    fs.append(Finding("coq_error", f"Coq specification and harness specification of long records differ: {d}",
                                      sig + ":spec-py"))
        # ---- impl vs spec
        if spec_entries is not None:
            fs += self.judge_spec(case, rv, spec_entries, data, sig)
            # model vs spec
            if mv is not None and mv[0] != "unmod":
                if mv[0] != "done":
                    fs.append(Finding("model_vs_spec", f"model outcome {mv[0]} on a well-formed archive", sig + ":mvs-outcome"))
                else:
                    d = cmp_members(mv[1], spec_entries)
                    if d:
                        fs.append(Finding("model_vs_spec", f"model listing differs from the specification: {d}", sig + ":mvs"))
                    else:
                        for i, (a, b) in enumerate(zip(mv[1], spec_entries)):
                            if a["x"][0] != "unmod" and a["x"] != b["x"]:
                                fs.append(Finding("model_vs_spec", f"member {i}: model extraction {a['x']} vs spec {b['x']}",
                                                  sig + ":mvs-x"))
        # ---- archives without any visor magic: exactly the standard reader
        if not self.has_visor_magic(data):
            if impl_outcome(rv) != impl_outcome(rs):
                fs.append(Finding("impl_vs_spec", f"non-visor archive: vmtar {impl_outcome(rv)}, standard reader {impl_outcome(rs)}",
                                  sig + ":plain-outcome"))
            elif impl_outcome(rv) == "ok":
                d = cmp_members(rv["members"], rs["members"])
                if d:
                    fs.append(Finding("impl_vs_spec", f"non-visor archive listed differently from the standard reader: {d}",
                                      sig + ":plain-listing"))
                elif [m.get("x") for m in rv["members"]] != [m.get("x") for m in rs["members"]]:
                    fs.append(Finding("impl_vs_spec", "non-visor archive extracted differently from the standard reader",
                                      sig + ":plain-bytes"))
        if stream == "sample":
            if impl_outcome(rv) != "ok":
                fs.append(Finding("impl_vs_spec", f"the repository's vmtar sample is not readable: {rv.get('open') or rv.get('list')}",
                                  sig + ":sample"))
            else:
                got = {m["name"]: (m.get("x") if isinstance(m.get("x"), bytes) else None) for m in rv["members"]}
                if got != SAMPLE or not all(m["visor"] for m in rv["members"]):
                    fs.append(Finding("impl_vs_spec", f"the repository's vmtar sample lists/extracts differently from its documented "
                                      f"content: {sorted(got)}", sig + ":sample"))
        if stream == "plain" and impl_outcome(rv) == "ok":
            # and the standard reader returns what was written
            members = list(rv["members"])
            sp = case.get("sparse")
            if sp and members:
                # the sparse member in front: its size is the real size, its content the segments at their offsets, zeros between
                exp = bytearray(sp["realsize"])
                k = 0
                for off, ln in sp["segs"]:
                    exp[off:off + ln] = pat_bytes(sp["seed"], 0, sum(x for _, x in sp["segs"]))[k:k + ln]
                    k += ln
                m0 = members.pop(0)
                if m0["size"] != sp["realsize"] or m0.get("x") != bytes(exp):
                    fs.append(Finding("impl_vs_spec", f"plain archive: the sparse member {unhx(sp['name'])} (real size {sp['realsize']}, "
                                      f"segments {sp['segs']}) extracts to {len(m0.get('x') or b'') if isinstance(m0.get('x'), bytes) else m0.get('x')} "
                                      f"bytes that are not its expanded content", sig + ":plain-sparse"))
            want = [(unhx(m["name"]), m["size"]) for m in case["members"]]
            got = [(m["name"], m["size"]) for m in members]
            if [w[1] for w in want] != [g[1] for g in got]:
                fs.append(Finding("impl_vs_spec", f"plain archive: sizes {got} vs written {want}", sig + ":plain-sizes"))
            else:
                for m, w in zip(members, case["members"]):
                    if w["kind"] == "file" and m.get("x") != pat_bytes(w["seed"], 0, w["size"]):
                        fs.append(Finding("impl_vs_spec", f"plain archive: member {w['name']} content differs from what was written",
                                          sig + ":plain-content"))
                        break
        return fs

    @staticmethod
    def has_visor_magic(data):
        return VISOR7 in data

    def judge_spec(self, case, rv, spec_entries, data, sig):
        fs = []
        io_ = impl_outcome(rv)
        if io_ != "ok":
            e = rv.get("open") or rv.get("list") or {}
            kind = "impl_vs_spec" if io_ == "raises" else "impl_fault"
            return [Finding(kind, f"well-formed archive: implementation {io_} {e.get('exc', '')} {e.get('msg', '')[:80]} "
                            f"where the specification lists {len(spec_entries)} members", sig + ":spec-" + io_)]
        d = cmp_members(rv["members"], spec_entries)
        if d:
            return [Finding("impl_vs_spec", f"listing differs from the specification: {d}", sig + ":spec-listing")]
        items = [m for m in case["items"] if m.get("payload") is None]
        for i, (im, se, am) in enumerate(zip(rv["members"], spec_entries, items)):
            x = im.get("x")
            if x == "skipped":
                continue
            if se["x"][0] == "none":
                if x != "none":
                    fs.append(Finding("impl_vs_spec", f"member {i} ({se['name'][:30]!r}) has no content but extractfile gave "
                                      f"{str(x)[:60]}", sig + ":spec-none"))
                continue
            _, off, n = se["x"]
            want = data[off:off + n]
            # independent of the position: what the writer stored for this member
            if not am["visor"] or not stored_away(am):
                want2 = pat_bytes(am["dseed"], 0, n) if n else b""
            else:
                want2 = data[am["voff"]:am["voff"] + n]
            if want != want2 or len(want) != n:
                fs.append(Finding("coq_error", f"member {i}: specification plan and writer disagree (harness bug)", sig + ":harness"))
                continue
            if not isinstance(x, bytes):
                fs.append(Finding("impl_vs_spec", f"member {i} ({se['name'][:30]!r}): extractfile {str(x)[:120]} where the "
                                  f"specification defines {n} bytes at {off}", sig + ":spec-x-exc"))
            elif x != want:
                fs.append(Finding("impl_vs_spec", f"member {i} ({se['name'][:30]!r}, size {n}, recorded offset {off}): extracted "
                                  f"bytes differ at +{core.first_diff(x, want)} (got {len(x)} bytes)", sig + ":spec-bytes"))
        return fs

    def nontrivial(self, case, impl_res, coq_val):
        if case["stream"] == "sample":
            return ("sample", case["access"])
        if case["stream"] not in ("wf", "long"):
            return None
        ms = [m for m in case["items"] if m.get("payload") is None and has_data_type(spec_type(m)) and m["size"] > 0]
        vis = [m for m in ms if stored_away(m)]
        std = [m for m in ms if not m["visor"]]
        offs = [m["voff"] for m in vis]
        if (len(vis) >= 2 and offs != sorted(offs)) or (vis and std):
            return core.sha(core.jdump(case).encode())
        return None

    def dist(self, case):
        d = {"stream": case["stream"], "access": case["access"]}
        if case["stream"] == "sample":
            return d
        if case["stream"] == "plain":
            d["fmt"] = case["fmt"]
            d["members"] = min(len(case["members"]), 10)
            return d
        items = [m for m in case["items"] if m.get("payload") is None]
        n = len(items)
        d["members"] = "0" if n == 0 else "1-2" if n <= 2 else "3-9" if n <= 9 else "10+"
        d["mix"] = case["mix"]
        d["placement"] = case["placement"]
        d["align"] = case["align"]
        d["gaps"] = case["gaps"]
        d["offsets_beyond_64k"] = any(m["voff"] >= 65536 for m in items)
        d["term_blocks"] = case["term_blocks"]
        d["trail"] = "0" if case["trail_blocks"] == 0 else "1+"
        d["long_records"] = sum(1 for m in case["items"] if m.get("payload") is not None)
        d["prefix_used"] = any(m["prefix"] for m in items)
        d["visor_zero_off"] = sum(1 for m in items if m["visor"] and m["voff"] == 0) > 0
        vis = [m["voff"] for m in items if stored_away(m)]
        d["data_order"] = "none" if len(vis) < 2 else "asc" if vis == sorted(vis) else "desc" if vis == sorted(vis, reverse=True) else "mixed"
        d["shared_area"] = len(set(vis)) != len(vis)
        if case["stream"] == "malformed":
            d["edits"] = ",".join(sorted({e[0] for e in case.get("edits", [])})) or "none"
        return d

    def describe(self, case):
        return case


class ExtractAllSuite(Suite):
    """Whole-archive extraction to a directory (TarFile.extractall through vmtar.open): archives of regular files, empty
    files and directories under a handful of safe relative names, so that paths repeat (a file updated, or truncated to
    empty, later in the archive) while the data areas lie in any order.  The tree on disk holds, for every path, the bytes of
    the LAST header with that path — what per-member extraction gives for that member (C20's main suite) and what every
    tar reader does."""
    name = "extractall"
    shard = 50
    per_case_timeout = 60.0

    def generate(self, rng, tier):
        out = []
        for _ in range(60 if tier == "thorough" else 10):
            c = gen_archive(rng, tier, kinds=[("file", 8), ("empty", 3), ("dir", 2)])
            dirs = [b"d0/", b"d1/", b"d0/sub/"]
            files = [b"g0", b"g1.txt", b"d0/f0", b"d0/f1", b"d1/f0", b"d0/sub/deep", b"boot.log"]
            for m in c["items"]:
                m["name"] = hx(rng.pick(dirs) if spec_type(m) == 53 else rng.pick(files))
                m["prefix"] = ""
                m["mode"] = rng.pick([0o644, 0o755, 0o600])
                m["uid"] = m["gid"] = 0
            c["stream"] = "wf"
            c["access"] = rng.pick(["open", "gz"])
            out.append(c)
        return out

    def impl(self, case):
        import tarfile
        from dissect.hypervisor.util import vmtar
        _, data = case_bytes(case)
        per = drive(data, "open", True)
        if per["open"] is not None or per.get("list"):
            return {"per": "listing failed"}
        want = {}
        for m in per["members"]:
            nm = m["name"].rstrip(b"/")
            if m["type"] == 53:
                want[nm] = None
            elif isinstance(m.get("x"), (bytes, bytearray)):
                want[nm] = bytes(m["x"])
            else:
                return {"per": f"member extraction: {str(m.get('x'))[:80]}"}
        d = os.path.join(_scratch_root(), f"xa{os.getpid()}")
        shutil.rmtree(d, ignore_errors=True)
        os.makedirs(d)
        try:
            blob = gzip.compress(data, mtime=0) if case["access"] == "gz" else data
            try:
                with vmtar.open(fileobj=io.BytesIO(blob)) as tar:
                    tar.extractall(d, filter="data")
            except Exception as e:  # noqa: BLE001
                return {"per": None, "exc": f"{type(e).__name__}: {str(e)[:100]}", "want": len(want)}
            got = {}
            for root, dns, fns in os.walk(d):
                for n in dns:
                    got[os.path.relpath(os.path.join(root, n), d).encode()] = None
                for n in fns:
                    with open(os.path.join(root, n), "rb") as fh:
                        got[os.path.relpath(os.path.join(root, n), d).encode()] = fh.read()
            bad = []
            for k in sorted(set(want) | set(got)):
                if k not in got:
                    if want[k] is not None or not any(g.startswith(k + b"/") for g in got):
                        bad.append([k.decode(), "missing on disk"])
                elif k not in want:
                    if got[k] is not None:                    # (parent directories of files are created implicitly)
                        bad.append([k.decode(), "not in the archive"])
                elif want[k] is not None and got[k] != want[k]:
                    bad.append([k.decode(), f"{len(got[k] or b'')} bytes on disk differ from the {len(want[k])} bytes of the last "
                                            f"header with this path"])
            return {"per": None, "bad": bad, "want": len(want), "repeats": len(per["members"]) - len(want)}
        finally:
            shutil.rmtree(d, ignore_errors=True)

    def judge(self, case, impl_res, coq_val):
        if impl_res.get("outcome"):
            return [Finding("impl_fault", f"extractall: implementation {impl_res['outcome']}", "vmtar:extractall:" + impl_res["outcome"])]
        if impl_res.get("per"):
            return []                 # the archive does not list / extract member by member: the main suite's business
        if impl_res.get("exc"):
            return [Finding("impl_vs_spec", f"extractall of a well-formed archive raised {impl_res['exc']}", "vmtar:extractall:exc")]
        if impl_res["bad"]:
            return [Finding("impl_vs_spec", f"extractall: the tree on disk differs from the archive: {impl_res['bad'][:4]}",
                            "vmtar:extractall:tree")]
        return []

    def nontrivial(self, case, impl_res, coq_val):
        return core.sha(core.jdump(case).encode()) if impl_res.get("repeats") else None

    def dist(self, case):
        return {"members": len(case["items"]) // 5 * 5, "placement": case["placement"]}


class FarSuite(Suite):
    """Visor archives whose data areas lie far into the file (around and beyond 2 GiB, up to just below 4 GiB: the recorded
    data offset is an unsigned 32-bit field), on a sparse file: every member extracts the bytes at its recorded offset and
    the listing is complete.  Implementation against the generator's intent (no model: the archive cannot be shipped)."""
    name = "far"
    per_case_timeout = 60.0

    def generate(self, rng, tier):
        out = []
        for _ in range(24 if tier == "thorough" else 5):
            n = rng.randint(2, 6)
            members = []
            offs = set()
            for i in range(n):
                m = gen_member(rng, True, rng.pick(["file", "file", "file", "dir", "empty"]))
                if m["type"] == 48 and m["size"] > 0:
                    while True:
                        off = rng.pick([0x7FFFF000, 0x80000000, 0x80001000, 0xC0000000, 0xFFFFE000, 0x40000000, 0x10000]) \
                            + 4096 * rng.randrange(0, 64)
                        if off not in offs and off + m["size"] < (1 << 32):
                            break
                    offs.add(off)
                    m["voff"] = off
                members.append(m)
            out.append({"items": members, "salt": rng.randrange(1 << 30)})
        return out

    @staticmethod
    def _file(case):
        chunks = {}
        pos = 0
        for m in case["items"]:
            chunks[pos] = header_bytes(m)
            pos += 512
        chunks[pos] = b"\0" * 1024
        end = pos + 1024
        for m in case["items"]:
            if m["voff"]:
                chunks[m["voff"]] = pat_bytes(m["dseed"], 0, m["size"])
                end = max(end, m["voff"] + m["size"])
        return core.SparseFile(end + 512, chunks, fill="zero")

    def impl(self, case):
        from dissect.hypervisor.util import vmtar
        sf = self._file(case)
        out = {"open": None, "members": []}
        try:
            t = vmtar.open(fileobj=sf)
            for m in t.getmembers():
                ent = {"name": m.name, "size": m.size, "isreg": m.isreg()}
                if m.isreg():
                    f = t.extractfile(m)
                    ent["data"] = f.read() if f is not None else None
                out["members"].append(ent)
        except Exception as e:  # noqa: BLE001
            out["open"] = {"exc": type(e).__name__, "msg": str(e)[:120]}
        return out

    def judge(self, case, impl_res, coq_val):
        if impl_res.get("outcome"):
            return [Finding("impl_fault", f"vmtar: implementation {impl_res['outcome']}", "vmtar:far:" + impl_res["outcome"])]
        if impl_res["open"] is not None:
            return [Finding("impl_vs_spec", f"vmtar: well-formed far archive raised {impl_res['open']}", "vmtar:far:exc")]
        fs = []
        got = impl_res["members"]
        if len(got) != len(case["items"]):
            fs.append(Finding("impl_vs_spec", f"vmtar: {len(got)} members listed, {len(case['items'])} stored", "vmtar:far:count"))
        for m, g in zip(case["items"], got):
            if m["type"] == 48 and m["size"] > 0:
                want = pat_bytes(m["dseed"], 0, m["size"])
                if g.get("data") != want:
                    fs.append(Finding("impl_vs_spec", f"vmtar: member with data offset {m['voff']:#x} ({m['size']} bytes) does "
                                      f"not extract the bytes stored there", "vmtar:far:data"))
        return fs

    def nontrivial(self, case, impl_res, coq_val):
        return core.sha(core.jdump(case).encode())

    def dist(self, case):
        return {"members": len(case["items"]), "beyond_2g": sum(1 for m in case["items"] if m["voff"] >= (1 << 31))}


SUITES = {"vmtar": VmTarSuite(), "far": FarSuite(), "extractall": ExtractAllSuite()}
