"""C09 — Parsing never modifies evidence (read-only operation): static inventory theorems + dynamic audit.

Static half (Props/C09.v): theorems over Gen/Effects.v, the regenerated inventory of every open call,
every call of a mutating method name and every runtime import in every module under dissect/hypervisor.
Dynamic half (this module): every parser family is driven over the sample files of tests/data (copied to a
scratch directory under /work) and over synthetic inputs, valid and corrupted, with
  * sys.addaudithook recording every `open` (path, mode, flags) and every mutating os.*/shutil.*/tempfile.*/
    subprocess.* event raised while library code runs, with the innermost dissect.hypervisor frame that caused it;
  * every caller-supplied handle wrapped in a recording proxy over a file opened O_RDONLY: any attribute outside the
    read-only alphabet is a violation;
  * the scratch directory hashed (names, sizes, sha256, mtime) before and after.
The two halves are tied: every path-open observed at run time must originate at a site of the static inventory.
The universally quantified part is the static inventory; its completeness rests on the translator (partial)."""
from __future__ import annotations

import gzip
import hashlib
import io
import os
import re
import shutil
import struct
import sys

from harness import core
from harness.main import Finding, Suite

PROPERTY = "C09"
PROPS_FILE = "Props/C09.v"
MODEL_FILES = ["Model/Effects.v"]
META = {
    "category": "proof",
    "text": "Coq theorems (vm_compute over the inventory regenerated from the current source of all 26 modules): every "
            "open call has a literal read-only mode, or forwards the caller's own mode (vmtar.open/VisorTarFile), or is "
            "the CLI's output file; exactly one site opens for writing (tools/envelope.py main on args.output); every call "
            "of a mutating method name acts on a private io.BytesIO buffer, is str/bytes.replace, or is the CLI's single "
            "write; no shutil/subprocess/tempfile import; os is used only as os.getenv; the property's anchor files are "
            "inventoried. Plus a dynamic audit (audit hook, recording read-only handle proxies, directory hashes) over "
            "workloads for every parser family, valid and corrupted inputs, tied to the static inventory by checking "
            "that every observed open originates at an inventoried site.",
    "design_ref": "DESIGN.md §6 C09",
    "note": "PARTIAL: the kernel checks the inventory of the current source, not the translator's completeness (aliasing such "
            "as `w = fh.write; w(b)` or getattr with a computed name is not seen statically; writes inside third-party "
            "libraries are seen only by the audit hook, on the paths the workloads reach).",
    "technique": "Coq proof over a generated call-site inventory + dynamic audit (exploration)",
    "rule": "workloads: family x sample/synthetic input x access (handle proxy / path / path list) x damage (none, truncated "
            "at 8 positions, garbage overlay, empty). Non-trivial = the library performed at least one read on a supplied "
            "handle or opened at least one file itself; distinct by (family, variant, damage).",
    "trusted_base": ["tools/translate_effects.py: syntactic completeness of the inventory (no aliasing analysis)",
                     "CPython audit events (PEP 578) for open/os.*; third-party code is covered only dynamically"],
    "assumptions": ["level_note: partial — universally quantified part is the static inventory"],
}

def _scratch_root():
    """a scratch directory outside the repository under test and outside the framework's tracked files:
    $VERIF_SCRATCH_C09, else /work/scratch_c09 when /work is writable, else <framework>/out/scratch_c09 (out/ is git-ignored)"""
    if os.environ.get("VERIF_SCRATCH_C09"):
        return os.environ["VERIF_SCRATCH_C09"]
    if os.path.isdir("/work") and os.access("/work", os.W_OK):
        return "/work/scratch_c09"
    return os.path.join(core.OUT, "scratch_c09")


SCRATCH = _scratch_root()
READ_ALPHABET = {"seek", "read", "tell", "readinto", "readable", "seekable", "close", "closed", "name", "read1", "readline",
                 "readlines", "peek", "mode", "__enter__", "__exit__", "__iter__", "__next__", "readall", "size",
                 "writable", "isatty"}
MUTATING_EVENTS = ("os.remove", "os.unlink", "os.rename", "os.replace", "os.mkdir", "os.rmdir", "os.truncate", "os.ftruncate",
                   "os.chmod", "os.chown", "os.utime", "os.link", "os.symlink", "os.mkfifo", "os.mknod", "os.removexattr",
                   "os.setxattr", "shutil.", "tempfile.", "subprocess.Popen", "os.system", "os.exec", "os.posix_spawn",
                   "os.spawn", "os.fork", "os.startfile", "os.putenv", "os.unsetenv")
WRITE_FLAGS = os.O_WRONLY | os.O_RDWR | os.O_CREAT | os.O_TRUNC | os.O_APPEND


# ----------------------------------------------------------------------------- worker-side machinery
class Audit:
    """process-wide audit hook (cannot be removed); records only while .active"""
    instance = None

    def __init__(self, repo):
        self.active = False
        self.events = []
        self.libdir = os.path.join(os.path.realpath(repo), "dissect", "hypervisor") + os.sep
        self.repo = os.path.realpath(repo)
        sys.addaudithook(self.hook)

    def origin(self):
        """innermost frame that belongs to dissect.hypervisor -> (relative file, line, function) or None"""
        f = sys._getframe(2)
        while f is not None:
            fn = f.f_code.co_filename
            if fn.startswith(self.libdir):
                return (os.path.relpath(fn, self.repo), f.f_lineno, f.f_code.co_name)
            f = f.f_back
        return None

    def hook(self, event, args):
        if not self.active:
            return
        if event == "open":
            path, mode, flags = (list(args) + [None, None, None])[:3]
            self.active = False
            try:
                org = self.origin()
            finally:
                self.active = True
            self.events.append(("open", str(path), mode, flags if isinstance(flags, int) else -1, org))
        elif event.startswith(MUTATING_EVENTS):
            self.active = False
            try:
                org = self.origin()
            finally:
                self.active = True
            self.events.append((event, repr(args)[:200], None, None, org))


def make_dirty_vhdx(path):
    """Rewrite the VHDX at `path` into one that was not closed cleanly: both headers carry a LogGuid and the log holds one
    valid entry (CRC-32C) with one data descriptor that rewrites the first 4 KiB of payload block 0.  A reader may use the
    log to present the data; it must not write the replayed sectors (or anything else) back."""
    import uuid
    from dissect.util.hash import crc32c
    img = bytearray(open(path, "rb").read())
    hfmt = "<4sIQ16s16s16sHHIQ"
    f = struct.unpack_from(hfmt, img, 0x10000)
    log_length, log_offset = f[8], f[9]
    guid = uuid.UUID(int=0xC09C09C09C09C09C09C09C09C09C09C0).bytes_le
    seq = 0x1122334455667788
    target = 0x400000
    sector = b"PENDING-LOG-DATA" + bytes(img[target + 16:target + 4096])
    desc = struct.pack("<4s4s8sQQ", b"desc", sector[-4:], sector[:8], target, seq)
    data = b"data" + struct.pack("<I", seq >> 32) + sector[8:-4] + struct.pack("<I", seq & 0xFFFFFFFF)
    hdr = struct.pack("<4sIIIQII16sQQ", b"loge", 0, 8192, 0, seq, 1, 0, guid, len(img), len(img))
    entry = bytearray((hdr + desc).ljust(4096, b"\x00") + data)
    struct.pack_into("<I", entry, 4, crc32c.crc32c(bytes(entry)))
    img[log_offset:log_offset + log_length] = bytes(log_length)
    img[log_offset:log_offset + 8192] = entry
    for off in (0x10000, 0x20000):
        h = bytearray(img[off:off + 4096])
        struct.pack_into("<16s", h, 48, guid)
        struct.pack_into("<I", h, 4, 0)
        struct.pack_into("<I", h, 4, crc32c.crc32c(bytes(h)))
        img[off:off + 4096] = h
    os.chmod(path, 0o644)
    with open(path, "wb") as o:
        o.write(bytes(img))


class Proxy:
    """a caller-supplied handle: forwards the read-only alphabet to a file opened O_RDONLY, records everything else"""

    def __init__(self, raw, log, label, text=False):
        object.__setattr__(self, "_raw", raw)
        object.__setattr__(self, "_log", log)
        object.__setattr__(self, "_label", label)

    def __getattr__(self, name):
        log = object.__getattribute__(self, "_log")
        raw = object.__getattribute__(self, "_raw")
        label = object.__getattribute__(self, "_label")
        if name in READ_ALPHABET:
            log["ops"].add(name)
            if name in ("read", "readinto", "read1", "readline", "readall"):
                log["reads"] += 1
            return getattr(raw, name)
        log["violations"].append(f"handle {label}: attribute {name!r} outside the read-only alphabet")
        raise AttributeError(name)

    def __setattr__(self, name, value):
        object.__getattribute__(self, "_log")["violations"].append(
            f"handle {object.__getattribute__(self, '_label')}: attribute {name!r} assigned")

    def __iter__(self):
        return iter(object.__getattribute__(self, "_raw"))

    def __enter__(self):
        return self

    def __exit__(self, *a):
        return False


def tree_state(root):
    st = {}
    for dp, dn, fn in os.walk(root):
        dn.sort()
        for d in dn:
            st[os.path.relpath(os.path.join(dp, d), root) + "/"] = ("dir",)
        for f in sorted(fn):
            p = os.path.join(dp, f)
            s = os.stat(p)
            h = hashlib.sha256()
            with open(p, "rb") as fh:
                for chunk in iter(lambda: fh.read(1 << 20), b""):
                    h.update(chunk)
            st[os.path.relpath(p, root)] = (s.st_size, s.st_mtime_ns, s.st_mode, h.hexdigest())
    return st


# ----------------------------------------------------------------------------- inputs
def data_dir():
    return os.path.join(core.REPO, "tests", "data")


def materialise_sample(name, dst):
    """copy a sample (file or .hdd directory) into dst, decompressing *.gz members"""
    src = os.path.join(data_dir(), name)
    if os.path.isdir(src):
        out = os.path.join(dst, name)
        os.makedirs(out, exist_ok=True)
        for f in sorted(os.listdir(src)):
            p = os.path.join(src, f)
            if f.endswith(".gz"):
                with gzip.open(p, "rb") as g, open(os.path.join(out, f[:-3]), "wb") as o:
                    shutil.copyfileobj(g, o)
            else:
                shutil.copy(p, os.path.join(out, f))
        return out
    if name.endswith(".gz"):
        out = os.path.join(dst, name[:-3])
        with gzip.open(src, "rb") as g, open(out, "wb") as o:
            shutil.copyfileobj(g, o)
        return out
    out = os.path.join(dst, name)
    shutil.copy(src, out)
    return out


def build_qcow2(cluster_bits=9, backing=False, compat=0, autoclear=0):
    cs = 1 << cluster_bits
    l1_off, l2_off, d_off = cs, 2 * cs, 3 * cs
    hdr = struct.pack(">IIQIIQIIQQIIQ", 0x514649FB, 3, 0, 0, cluster_bits, 4 * cs, 0, 1, l1_off, 0, 0, 0, 0)
    # v3 fields (incompatible, compatible, autoclear feature bits), refcount_order, header_length, compression+pad
    hdr += struct.pack(">QQQII", 0, compat, autoclear, 4, 112) + b"\0" * 8
    img = bytearray(4 * cs + cs)
    img[:len(hdr)] = hdr
    img[l1_off:l1_off + 8] = struct.pack(">Q", l2_off | (1 << 63))
    img[l2_off:l2_off + 8] = struct.pack(">Q", d_off | (1 << 63))
    img[l2_off + 16:l2_off + 24] = struct.pack(">Q", 1)               # a zero cluster
    img[d_off:d_off + cs] = bytes(range(256)) * (cs // 256)
    return bytes(img)


def build_vdi(nblocks=3, block_size=4096):
    from dissect.hypervisor.disk.c_vdi import VDI_SIGNATURE, c_vdi
    h = c_vdi.HeaderDescriptor()
    h.FileInfo = b"<<< Oracle VM VirtualBox Disk Image >>>\n".ljust(64, b"\0")
    h.Signature = VDI_SIGNATURE
    h.Version = 0x00010001
    h.HeaderSize = 400
    h.ImageDescription = b"\0" * 256
    h.BlocksOffset = 512
    h.DataOffset = 1024
    h.SectorSize = 512
    h.DiskSize = nblocks * block_size
    h.BlockSize = block_size
    h.BlocksInHDD = nblocks
    h.BlocksAllocated = 2
    for k in ("UUIDVDI", "UUIDSNAP", "UUIDLink", "UUIDParent"):
        setattr(h, k, b"\0" * 16)
    raw = h.dumps()
    img = bytearray(1024 + 2 * block_size)
    img[:len(raw)] = raw
    img[512:512 + 4 * nblocks] = struct.pack("<3i", 1, -1, 0)[:4 * nblocks]
    for i in range(2):
        img[1024 + i * block_size:1024 + (i + 1) * block_size] = bytes([0x41 + i]) * block_size
    return bytes(img)


def build_vmdk_descriptor(dst, parent=False):
    """a monolithic-flat style descriptor with two FLAT extents (+ optionally a parent hint that does not exist)"""
    for i, n in enumerate((32, 16)):
        with open(os.path.join(dst, f"disk-f00{i + 1}.vmdk"), "wb") as o:
            o.write(bytes([0x30 + i]) * (512 * n))
    txt = ('# Disk DescriptorFile\nversion=1\nCID=fffffffe\nparentCID=%s\ncreateType="twoGbMaxExtentFlat"\n%s\n'
           '# Extent description\nRW 32 FLAT "disk-f001.vmdk" 0\nRW 16 FLAT "disk-f002.vmdk" 0\n\nddb.adapterType = "ide"\n'
           % ("11111111" if parent else "ffffffff", 'parentFileNameHint="missing-parent.vmdk"' if parent else ""))
    p = os.path.join(dst, "disk.vmdk")
    with open(p, "w") as o:
        o.write(txt)
    return p


OVF_DOC = """<?xml version="1.0"?>
<Envelope xmlns="http://schemas.dmtf.org/ovf/envelope/1" xmlns:ovf="http://schemas.dmtf.org/ovf/envelope/1"
 xmlns:rasd="http://schemas.dmtf.org/wbem/wscim/1/cim-schema/2/CIM_ResourceAllocationSettingData">
<References><File ovf:href="disk1.vmdk" ovf:id="file1"/></References>
<DiskSection><Disk ovf:diskId="vmdisk1" ovf:fileRef="file1"/></DiskSection>
<VirtualSystem ovf:id="vm"><VirtualHardwareSection><Item><rasd:ResourceType>17</rasd:ResourceType>
<rasd:HostResource>ovf:/disk/vmdisk1</rasd:HostResource></Item></VirtualHardwareSection></VirtualSystem></Envelope>"""
VBOX_DOC = """<?xml version="1.0"?><VirtualBox xmlns="http://www.virtualbox.org/"><Machine><MediaRegistry><HardDisks>
<HardDisk uuid="{1}" location="a.vdi" format="VDI" type="Normal"/></HardDisks></MediaRegistry></Machine></VirtualBox>"""
PVS_DOC = """<?xml version="1.0"?><ParallelsVirtualMachine><Hardware><Hdd><SystemName>disk.hdd</SystemName></Hdd></Hardware>
</ParallelsVirtualMachine>"""
VMX_DOC = '.encoding = "UTF-8"\nscsi0.present = "TRUE"\nscsi0:0.fileName = "a.vmdk"\nscsi0:0.deviceType = "scsi-hardDisk"\nide1:0.fileName = "x.iso"\nide1:0.deviceType = "cdrom-image"\n'

FAMILIES = {
    # family: list of (variant, sample or None)
    "vhd": [("fixed", "fixed.vhd.gz"), ("dynamic", "dynamic.vhd.gz"), ("dynamic-rwhandle", "dynamic.vhd.gz")],
    "vhdx": [("fixed", "fixed.vhdx.gz"), ("dynamic", "dynamic.vhdx.gz"), ("dynamic-path", "dynamic.vhdx.gz"),
             ("dynamic-rwhandle", "dynamic.vhdx.gz"), ("dirty-rwhandle", "dynamic.vhdx.gz"), ("dirty-path", "dynamic.vhdx.gz"),
             ("differencing-path", "differencing.avhdx.gz"), ("differencing-path-parent-present", "differencing.avhdx.gz")],
    "vmdk": [("sesparse", "sesparse.vmdk.gz"), ("sesparse-path", "sesparse.vmdk.gz"), ("sesparse-path+debuglog", "sesparse.vmdk.gz"),
             ("flat-descriptor+debuglog", None), ("flat-descriptor", None),
             ("flat-descriptor-parent", None), ("flat-descriptor-parent-present", None), ("handle-list", None),
             ("raw-rwhandle", None), ("sesparse-rwhandle", "sesparse.vmdk.gz")] +
            [(f"flat-descriptor-ct:{ct}:{acc}", None)
             for ct in ("fullDevice", "partitionedDevice", "vmfsRaw", "vmfsRawDeviceMap", "vmfsPassthroughRawDeviceMap",
                        "monolithicFlat", "vmfs", "custom", "streamOptimized")
             for acc in ("RW", "RDONLY")],
    "hdd": [("plain", "plain.hdd"), ("expanding", "expanding.hdd"), ("split", "split.hdd"),
            # an image whose writer still has it open (m_DiskInUse set): a reader takes no lock of its own
            ("expanding-inuse", "expanding.hdd"), ("split-inuse", "split.hdd"),
            # a bundle whose descriptor is damaged or gone while the writer's backup copy sits next to it: nothing is restored
            ("expanding-backup:half", "expanding.hdd"), ("split-backup:empty", "split.hdd"), ("plain-backup:missing", "plain.hdd"),
            ("expanding-backup:garbage", "expanding.hdd")],
    "qcow2": [("synthetic", None), ("synthetic-64k", None), ("synthetic-rwhandle", None),
              # feature bits a writer would maintain (lazy refcounts; autoclear bits, known and unknown): a reader leaves them
              ("featbits", None), ("featbits-rwhandle", None)],
    "vdi": [("synthetic", None), ("synthetic-rwhandle", None)],
    "hyperv": [("vmcx", "test.vmcx"), ("vmrs", "test.VMRS"), ("vmcx-rwhandle", "test.vmcx"),
               # generated files with values kept in file objects (large values), read through every accessor
               ("blobs", None), ("blobs-rwhandle", None)],
    "vmx": [("encrypted", "encrypted.vmx"), ("plain", None)],
    "xml": [("ovf", None), ("vbox", None), ("pvs", None)],
    "envelope": [("library", None), ("cli", None), ("cli-outdir", None), ("cli-outdir-upper", None)],
    "vmtar": [("sample-handle", "test.vgz"), ("sample-path", "test.vgz"), ("gz-handle", "test.vgz"), ("visortarfile", "test.vgz"),
              ("synthetic-handle", None), ("synthetic-path", None), ("gz-path", "test.vgz"), ("big-gz-path", None),
              ("big-gz-handle", None), ("gz-aplushandle", "test.vgz"), ("sample-aplushandle", "test.vgz")],
}
DAMAGE = ["none", "trunc-0", "trunc-1", "trunc-512", "trunc-4096", "trunc-half", "trunc-last", "garbage-head", "garbage-mid"]


def damage_file(path, how, rng_seed):
    if how == "none" or os.path.isdir(path):
        return
    size = os.path.getsize(path)
    with open(path, "r+b") as fh:
        if how.startswith("trunc"):
            k = how.split("-")[1]
            cut = {"0": 0, "1": 1, "512": 512, "4096": 4096, "half": size // 2, "last": max(0, size - 1)}[k]
            fh.truncate(min(cut, size))
        else:
            off = 0 if how == "garbage-head" else size // 3
            fh.seek(min(off, max(0, size - 1)))
            r = core.Rng(rng_seed)
            fh.write(bytes(r.randrange(256) for _ in range(min(64, max(1, size)))))


class AuditSuite(Suite):
    name = "audit"
    shard = 100
    per_case_timeout = 60.0

    def generate(self, rng, tier):
        cases = []
        for fam, variants in FAMILIES.items():
            for variant, sample in variants:
                dmg = list(DAMAGE) if tier == "thorough" else ["none"] + [rng.pick(DAMAGE[1:]) for _ in range(2)]
                for d in dict.fromkeys(dmg):
                    cases.append({"family": fam, "variant": variant, "sample": sample, "damage": d, "seed": rng.randrange(1 << 30)})
        return cases

    # ---- worker side
    def impl(self, case):
        sys.dont_write_bytecode = True
        if Audit.instance is None:
            Audit.instance = Audit(core.REPO)
        aud = Audit.instance
        root = os.path.join(SCRATCH, f"w{os.getpid()}")
        shutil.rmtree(root, ignore_errors=True)
        os.makedirs(root)
        log = {"ops": set(), "reads": 0, "violations": []}
        handles = []
        res = {"outcome": None, "violations": [], "events": [], "changed": [], "reads": 0, "ops": [], "lib_opens": 0}
        try:
            import dissect.hypervisor  # noqa: F401  (imports happen before the audit window)
            import dissect.hypervisor.tools.envelope  # noqa: F401
            paths = self.prepare(case, root)
            before = tree_state(root)

            def H(path, text=False):
                if case["variant"].endswith(("rwhandle", "aplushandle")):
                    was = aud.active
                    aud.active = False                           # the caller's own open is not the library's doing
                    try:
                        # the caller's read/write handle, handed over as is ("a+b": positioned for appending, mode string
                        # not starting with "r" — wrappers that infer their mode from it must still only read)
                        mode = ("a+" if case["variant"].endswith("aplushandle") else "r+") + ("" if text else "b")
                        raw = open(path, mode)
                        raw.seek(0)
                    finally:
                        aud.active = was
                    handles.append(raw)
                    return raw
                raw = open(path, "r" if text else "rb")          # OS-level read-only
                handles.append(raw)
                return Proxy(raw, log, os.path.basename(path))

            aud.events = []
            aud.active = True
            import logging
            dbg = case["variant"].endswith("+debuglog")
            lgs = [logging.getLogger(n) for n in list(logging.Logger.manager.loggerDict)
                   if n == "dissect" or n.startswith("dissect.hypervisor")]
            old_levels = [(g, g.level) for g in lgs]
            if dbg:
                # verbose logging switched on by the application (what DISSECT_LOG_<MODULE>=DEBUG does at import time):
                # diagnostics go to the application's handlers, never to files next to the evidence
                for g in lgs:
                    g.setLevel(logging.DEBUG)
                case = dict(case, variant=case["variant"][:-len("+debuglog")])
            try:
                expected_new = self.workload(case, paths, H, root)
                res["outcome"] = "ok"
            except BaseException as e:  # noqa: BLE001
                if isinstance(e, (KeyboardInterrupt, MemoryError)):
                    raise
                res["outcome"] = "exc:" + type(e).__name__
                expected_new = self.expected_new(case, root)
            finally:
                for g, lv in old_levels:
                    g.setLevel(lv)
                    for h in list(g.handlers):
                        if isinstance(h, logging.FileHandler):
                            h.close()
                            g.removeHandler(h)
                aud.active = False
            for h in handles:
                try:
                    h.close()
                except Exception:  # noqa: BLE001
                    pass
            after = tree_state(root)
            if expected_new == "ANY-NEW":
                # output location chosen by the tool inside a directory the user named: files that did not exist before
                # may appear; nothing that existed may change
                expected_new = [os.path.join(root, k) for k in after if k not in before] + \
                    [ev[1] for ev in aud.events if ev[0] == "open" and
                     os.path.relpath(os.path.realpath(ev[1]), os.path.realpath(root)) not in before]
            # ---- evaluate
            for ev in aud.events:
                kind, a, mode, flags, org = ev
                if kind == "open":
                    inside = os.path.realpath(a).startswith(os.path.realpath(root)) if a and not a.isdigit() else False
                    writing = (flags is not None and flags >= 0 and (flags & WRITE_FLAGS)) or \
                        (isinstance(mode, str) and any(c in mode for c in "wax+"))
                    if org is not None:
                        res["lib_opens"] += 1
                    if writing and a not in expected_new:
                        res["violations"].append(f"open for writing: {a} mode={mode} flags={flags} from {org}")
                    res["events"].append(("open", os.path.relpath(a, root) if inside else a, mode, bool(writing), org))
                else:
                    res["violations"].append(f"mutating event {kind} {a} from {org}")
                    res["events"].append((kind, a, None, True, org))
            for k in sorted(set(before) | set(after)):
                if before.get(k) != after.get(k):
                    full = os.path.join(root, k)
                    if full in expected_new and k not in before:
                        continue
                    res["changed"].append(k)
                    res["violations"].append(f"file system changed: {k}: {before.get(k)} -> {after.get(k)}")
            res["violations"] += log["violations"]
            res["reads"] = log["reads"]
            res["ops"] = sorted(log["ops"])
            if case["variant"] == "cli" and res["outcome"] == "ok":
                out = expected_new[0] if expected_new else None
                if not out or not os.path.exists(out):
                    res["violations"].append("CLI did not produce its output file")
        finally:
            aud.active = False
            shutil.rmtree(root, ignore_errors=True)
        return res

    def expected_new(self, case, root):
        if case["variant"].startswith("cli-outdir"):
            return "ANY-NEW"
        return [os.path.join(root, "out.bin")] if case["variant"] == "cli" else []

    def prepare(self, case, root):
        fam, variant, sample = case["family"], case["variant"], case["sample"]
        paths = {}
        if sample:
            paths["main"] = materialise_sample(sample, root)
            if "-backup:" in variant:
                dx = os.path.join(paths["main"], "DiskDescriptor.xml")
                shutil.copy(dx, dx + ".Backup")
                how = variant.split(":")[1]
                if how == "missing":
                    os.unlink(dx)
                elif how == "garbage":
                    with open(dx, "r+b") as o:
                        o.seek(40)
                        o.write(b"<<<&&&>>>")
                else:
                    with open(dx, "r+b") as o:
                        o.truncate(0 if how == "empty" else os.path.getsize(dx) // 2)
            if variant.endswith("-inuse"):
                for f in sorted(os.listdir(paths["main"])):
                    if f.endswith(".hds"):
                        with open(os.path.join(paths["main"], f), "r+b") as o:
                            o.seek(44)                            # pvd_header.m_DiskInUse
                            o.write(struct.pack("<I", 0x746F6E59))
            if variant == "differencing-path":
                paths["parent"] = materialise_sample("dynamic.vhdx.gz", root)
            if variant == "differencing-path-parent-present":
                # the sample's parent locator names this file (relative path): the library opens it by path itself
                p0 = materialise_sample("dynamic.vhdx.gz", root)
                paths["parent"] = os.path.join(root, "Generation 1_49C4BAF3-4B25-4406-8C4B-D39E65C32385.avhdx")
                os.rename(p0, paths["parent"])
        if fam == "vhdx" and variant.startswith("dirty"):
            make_dirty_vhdx(paths["main"])
        if fam == "vmdk" and variant.startswith("flat-descriptor"):
            if variant.endswith("parent-present"):
                # child in <root>/child, parent in the sibling directory <root>/base: found through the second candidate
                # of vmdk.open_parent (path.parent / <last directory of the hint> / <file name>)
                child, base = os.path.join(root, "child"), os.path.join(root, "base")
                os.makedirs(child)
                os.makedirs(base)
                os.rename(build_vmdk_descriptor(base), os.path.join(base, "missing-parent.vmdk"))
                paths["main"] = build_vmdk_descriptor(child, parent=True)
                txt = open(paths["main"]).read().replace('parentFileNameHint="missing-parent.vmdk"',
                                                         'parentFileNameHint="C:\\vm\\base\\missing-parent.vmdk"')
                with open(paths["main"], "w") as o:
                    o.write(txt)
            elif "-ct:" in variant:
                # unusual but valid createType values and access modes: the extents must still be opened read-only
                _, ct, access = variant.split(":")
                paths["main"] = build_vmdk_descriptor(root)
                txt = open(paths["main"]).read().replace('createType="twoGbMaxExtentFlat"', f'createType="{ct}"')
                txt = txt.replace('RW 32 FLAT', f'{access} 32 FLAT').replace('RW 16 FLAT', f'{access} 16 ' +
                                                                           ("VMFS" if ct.startswith("vmfs") else "FLAT"))
                with open(paths["main"], "w") as o:
                    o.write(txt)
            else:
                paths["main"] = build_vmdk_descriptor(root, parent="parent" in variant)
        if fam == "vmdk" and variant == "raw-rwhandle":
            paths["main"] = os.path.join(root, "raw-flat.vmdk")            # a bare flat image handed over as a handle
            with open(paths["main"], "wb") as o:
                o.write(bytes(range(256)) * 128)
        if fam == "vmdk" and variant == "handle-list":
            build_vmdk_descriptor(root)
            paths["main"] = os.path.join(root, "disk-f001.vmdk")
            paths["second"] = os.path.join(root, "disk-f002.vmdk")
        if fam == "hyperv" and not sample:
            from harness.props import c17
            r = core.Rng(case["seed"])
            for _ in range(200):
                hc = c17.gen_case(r, "quick")
                if hc["dims"]["n_blobs"] and not hc["dims"]["high"] and c17.open_sparse(hc).size < (8 << 20):
                    break
            sf = c17.open_sparse(hc)
            paths["main"] = os.path.join(root, "generated.vmcx")
            with open(paths["main"], "wb") as o:
                o.write(sf.content(0, sf.size))
        if fam == "qcow2":
            paths["main"] = os.path.join(root, "img.qcow2")
            with open(paths["main"], "wb") as o:
                if variant.startswith("featbits"):
                    o.write(build_qcow2(9, compat=1, autoclear=(1 << (case["seed"] % 62 + 2)) | (case["seed"] >> 8 & 3)))
                else:
                    o.write(build_qcow2(16 if variant.endswith("64k") else 9))
        if fam == "vdi":
            paths["main"] = os.path.join(root, "img.vdi")
            with open(paths["main"], "wb") as o:
                o.write(build_vdi())
        if fam == "vmx" and variant == "plain":
            paths["main"] = os.path.join(root, "vm.vmx")
            with open(paths["main"], "w") as o:
                o.write(VMX_DOC)
        if fam == "xml":
            paths["main"] = os.path.join(root, variant + ".xml")
            with open(paths["main"], "w") as o:
                o.write({"ovf": OVF_DOC, "vbox": VBOX_DOC, "pvs": PVS_DOC}[variant])
        if fam == "envelope":
            paths["main"] = materialise_sample("local.tgz.ve", root)
            paths["keystore"] = materialise_sample("encryption.info", root)
            if variant == "cli-outdir-upper":
                up = os.path.join(root, "LOCAL.TGZ.VE")
                os.rename(paths["main"], up)
                paths["main"] = up
        if fam == "vmtar" and variant.startswith("synthetic"):
            from harness.props import c20                      # C20's archive generator: mixed visor / standard members
            arch = c20.gen_wf(core.Rng(case["seed"]), "quick", with_long=bool(case["seed"] & 1))
            _, blob = c20.case_bytes(arch)
            paths["main"] = os.path.join(root, "synthetic.vtar")
            with open(paths["main"], "wb") as o:
                o.write(blob)
        if fam == "vmtar" and variant.startswith("big-gz"):
            # a gzip-wrapped archive that inflates to > 8 MiB (any spill of the inflated stream to disk would show)
            import tarfile
            bio = io.BytesIO()
            with tarfile.open(fileobj=bio, mode="w", format=tarfile.USTAR_FORMAT) as tf:
                for name, n in (("etc/small", 700), ("lib/big.bin", 9 * (1 << 20) + 123), ("etc/tail", 5)):
                    ti = tarfile.TarInfo(name)
                    ti.size = n
                    tf.addfile(ti, io.BytesIO((name.encode() * (n // len(name) + 1))[:n]))
            paths["main"] = os.path.join(root, "big.vgz")
            with open(paths["main"], "wb") as o:
                o.write(gzip.compress(bio.getvalue(), 1))
        if fam == "vmtar" and variant in ("gz-handle", "gz-path", "gz-aplushandle"):
            raw = open(paths["main"], "rb").read()
            paths["main"] = os.path.join(root, "test.real.vgz")
            with open(paths["main"], "wb") as o:
                o.write(gzip.compress(raw))
        target = paths["main"]
        if os.path.isdir(target):
            hds = sorted(f for f in os.listdir(target) if f.endswith(".hds"))
            target = os.path.join(target, hds[case["seed"] % len(hds)]) if case["damage"] != "none" and case["seed"] % 2 else \
                os.path.join(target, "DiskDescriptor.xml")
        if os.path.exists(target):
            damage_file(target, case["damage"], case["seed"])
        for p in list(paths.values()):
            if os.path.isfile(p):
                # "-rwhandle": the caller hands over a handle it opened read/write (a generic I/O layer does): the file
                # itself must be writable for that, and any write then shows in the before/after comparison of the tree
                os.chmod(p, 0o644 if variant.endswith(("rwhandle", "aplushandle")) else 0o444)
        return paths

    def workload(self, case, paths, H, root):
        from pathlib import Path
        fam, variant = case["family"], case["variant"]
        main = paths["main"]

        def exercise(stream, size=None):
            stream.seek(0)
            stream.read(4096)
            n = size if size is not None else getattr(stream, "size", 0)
            if n:
                stream.seek(max(0, n // 2 - 100))
                stream.read(8192)
                stream.seek(max(0, n - 1000))
                stream.read(5000)
            stream.seek(0)
            stream.read(70000)
            if variant.endswith(("rwhandle", "aplushandle")):
                probe_mutators(stream)

        def probe_mutators(top):
            # the caller's handle is writable: no object of the library that a user can reach from the reader offers an
            # operation that changes it.  Every reachable library object is asked for the file-mutating operations; where
            # one exists it is invoked (a refusal is fine, a change of the evidence shows in the tree comparison).
            seen, todo = set(), [(top, 0)]
            while todo:
                obj, depth = todo.pop()
                if id(obj) in seen or depth > 3:
                    continue
                seen.add(id(obj))
                mod = type(obj).__module__ or ""
                if not mod.startswith("dissect.hypervisor"):
                    continue
                for name, args in (("write", (b"C09-probe",)), ("writelines", ([b"C09-probe"],)), ("truncate", (7,))):
                    try:
                        fn = getattr(obj, name, None)
                        if callable(fn):
                            fn(*args)
                    except BaseException:  # noqa: BLE001
                        pass
                kids = []
                try:
                    kids = list(vars(obj).values())
                except TypeError:
                    pass
                for kid in kids:
                    if isinstance(kid, (list, tuple)):
                        todo += [(x, depth + 1) for x in kid[:8]]
                    elif isinstance(kid, dict):
                        todo += [(x, depth + 1) for x in list(kid.values())[:8]]
                    else:
                        todo.append((kid, depth + 1))

        if fam == "vhd":
            from dissect.hypervisor.disk.vhd import VHD
            exercise(VHD(H(main)))
        elif fam == "vhdx":
            from dissect.hypervisor.disk.vhdx import VHDX
            v = VHDX(Path(main)) if variant.endswith("path") else VHDX(H(main))
            exercise(v)
        elif fam == "vmdk":
            from dissect.hypervisor.disk.vmdk import VMDK
            if variant == "handle-list":
                v = VMDK([H(main), H(paths["second"])])
            elif variant.endswith("path") or variant.startswith("flat-descriptor"):
                v = VMDK(Path(main))
            else:
                v = VMDK(H(main))
            exercise(v)
        elif fam == "hdd":
            from dissect.hypervisor.disk.hdd import HDD
            h = HDD(Path(main))
            exercise(h.open())
        elif fam == "qcow2":
            from dissect.hypervisor.disk.qcow2 import QCow2
            exercise(QCow2(H(main)))
        elif fam == "vdi":
            from dissect.hypervisor.disk.vdi import VDI
            exercise(VDI(H(main)))
        elif fam == "hyperv":
            from dissect.hypervisor.descriptor.hyperv import HyperVFile
            hf = HyperVFile(H(main))
            hf.as_dict()
            # every stored value once more through the entry accessors (data, value, and the stream of a file object)
            for kt in [t for ts in hf.key_tables.values() for t in ts]:
                for ent in kt.entries:
                    try:
                        if ent.is_file_object_pointer:
                            with_stream = ent.get_file_object().open()
                            with_stream.read(64)
                            ent.get_file_object().read(16)
                        ent.data  # noqa: B018
                    except Exception:  # noqa: BLE001
                        pass
        elif fam == "vmx":
            from dissect.hypervisor.descriptor.vmx import VMX
            v = VMX.parse(H(main, text=True).read())
            if v.encrypted:
                v.unlock_with_phrase("password")
            v.disks()
        elif fam == "xml":
            if variant == "ovf":
                from dissect.hypervisor.descriptor.ovf import OVF
                list(OVF(H(main, text=True)).disks())
            elif variant == "vbox":
                from dissect.hypervisor.descriptor.vbox import VBox
                list(VBox(H(main, text=True)).disks())
            else:
                from dissect.hypervisor.descriptor.pvs import PVS
                list(PVS(H(main, text=True)).disks())
        elif fam == "envelope":
            if variant.startswith("cli-outdir"):
                # -o names a directory (the evidence directory itself): the tool may refuse or write a new file there;
                # it must not touch the envelope or the keystore, whatever the envelope is called
                from dissect.hypervisor.tools import envelope as cli
                argv = sys.argv
                sys.argv = ["envelope", main, "-ks", paths["keystore"], "-o", root]
                try:
                    cli.main()
                except (IsADirectoryError, PermissionError, SystemExit):
                    pass
                finally:
                    sys.argv = argv
                return "ANY-NEW"
            if variant == "cli":
                from dissect.hypervisor.tools import envelope as cli
                out = os.path.join(root, "out.bin")
                argv = sys.argv
                sys.argv = ["envelope", main, "-ks", paths["keystore"], "-o", out]
                try:
                    cli.main()
                finally:
                    sys.argv = argv
                return [out]
            from dissect.hypervisor.util.envelope import Envelope, KeyStore
            ks = KeyStore.from_text(H(paths["keystore"], text=True).read())
            Envelope(H(main)).decrypt(ks.key, aad=b"ESXConfiguration")
        elif fam == "vmtar":
            from dissect.hypervisor.util import vmtar
            if variant in ("sample-path", "synthetic-path", "gz-path", "big-gz-path"):
                t = vmtar.open(main)
            elif variant == "visortarfile":
                t = vmtar.VisorTarFile(fileobj=H(main))
            else:
                t = vmtar.open(fileobj=H(main))
            for m in t.getmembers():
                if m.islnk() or m.issym():
                    continue                       # a link's target need not exist in a synthetic archive
                f = t.extractfile(m)
                if f is not None:
                    f.read()
        return []

    # ---- driver side
    def coq_term(self, case):
        return None

    def judge(self, case, impl_res, coq_val):
        tag = f"{case['family']}/{case['variant']}/{case['damage']}"
        if impl_res.get("outcome") in ("hang", "crash", "oom"):
            # resource faults are C11's subject; here they only mean the audit did not complete
            return [Finding("coq_error", f"{tag}: workload did not complete: {impl_res['outcome']}", "c09:incomplete")]
        if impl_res.get("outcome") == "exc" or "violations" not in impl_res:
            return [Finding("coq_error", f"{tag}: audit harness failed: {impl_res}", "c09:harness")]
        fs = []
        for v in impl_res["violations"]:
            fs.append(Finding("impl_vs_spec", f"{tag}: {v}", f"c09:{case['family']}:{v.split(':')[0][:40]}"))
        # tie to the static inventory: an open performed by library code must come from an inventoried site
        sites = static_sites()
        for ev in impl_res["events"]:
            # (opens of interpreter / site-packages files by lazy imports and codecs are not evidence: only opens inside the
            #  scratch directory, or for writing, are tied to the inventory)
            if ev[0] == "open" and ev[4] is not None and (ev[3] or not os.path.isabs(ev[1])):
                rel, line, fn = ev[4]
                if (rel, line) not in sites:
                    fs.append(Finding("impl_vs_model", f"{tag}: open of {ev[1]} (mode {ev[2]}) at {rel}:{line} in {fn} is not in the "
                                      f"static inventory Gen/Effects.v", "c09:inventory-miss"))
        if case["damage"] == "none" and not impl_res["outcome"].startswith("ok") and \
                not (case["variant"] in ("differencing-path", "flat-descriptor-parent", "cli", "differencing-path-parent-present")
                     or "-backup:" in case["variant"]):
            fs.append(Finding("coq_error", f"{tag}: undamaged workload failed ({impl_res['outcome']}): the audit did not cover it",
                              "c09:workload"))
        return fs

    def nontrivial(self, case, impl_res, coq_val):
        if isinstance(impl_res, dict) and (impl_res.get("reads", 0) > 0 or impl_res.get("lib_opens", 0) > 0):
            return (case["family"], case["variant"], case["damage"])
        return None

    def dist(self, case):
        return {"family": case["family"], "variant": f"{case['family']}/{case['variant']}", "damage": case["damage"]}


_SITES = None


def static_sites():
    """(module, line) of every open site of Gen/Effects.v"""
    global _SITES
    if _SITES is None:
        _SITES = set()
        try:
            src = open(os.path.join(core.COQ, "Gen", "Effects.v")).read()
        except OSError:
            return _SITES
        for m in re.finditer(r'mko "([^"]+)" "[^"]*" (\d+) ', src):
            _SITES.add((m.group(1), int(m.group(2))))
    return _SITES


def static_check(ctx):
    """the inventory must exist and cover every module on disk"""
    fs = []
    try:
        src = open(os.path.join(core.COQ, "Gen", "Effects.v")).read()
    except OSError as e:
        return [Finding("coq_error", f"Gen/Effects.v missing: {e}", "c09:gen")]
    listed = set(re.findall(r'"(dissect/hypervisor/[^"]+\.py)"', src.split("Definition modules")[1].split("].")[0]))
    on_disk = set()
    base = os.path.join(core.REPO, "dissect", "hypervisor")
    for dp, dn, fn in os.walk(base):
        for f in fn:
            if f.endswith(".py"):
                on_disk.add(os.path.relpath(os.path.join(dp, f), core.REPO))
    if listed != on_disk:
        fs.append(Finding("impl_vs_model", f"inventory modules differ from the source tree: {sorted(listed ^ on_disk)[:5]}",
                          "c09:modules"))
    return fs


SUITES = {"audit": AuditSuite()}
