"""C03 — VHDX (non-differencing): every byte range reads as the guest-visible content."""
from __future__ import annotations

from harness import core, fmt_vhdx
from harness.core import Z
from harness.readers import ReaderSuite, gen_requests

PROPERTY = "C03"
PROPS_FILE = "Props/C03.v"
MODEL_FILES = ["Model/Vhdx.v"]
META = {
    "category": "proof",
    "text": "Coq theorems: the VHDX reader model (BAT with interleaved sector-bitmap entries, bat_entry bit-fields pinned "
            "to the generated layout, per-block split, all payload states, clamp to the disk size) returns exactly the "
            "guest bytes of a non-differencing disk for every block size, sector size, BAT content, placement and request; "
            "payload indices never leave the table for any chunk ratio; 44-bit MiB offsets do not truncate; tied to "
            "vhdx.py by differential correspondence (impl vs model vs spec, byte for byte).",
    "design_ref": "DESIGN.md §6 C03–C06",
    "note": "Trusted: Coq kernel; hand-written Model/Vhdx.v validated against VHDX.read_sectors/_read on generated images "
            "only; Gen/Consts.v and Gen/Layouts.v from the translator; cstruct bit-field decoding as exercised.",
    "technique": "Coq proof of model-refines-spec (generic block-mapped walker) + differential correspondence",
    "rule": "images: block size {1,2,8,32,256} MiB x sector size {512,4096}; 1..6 blocks or more blocks than the chunk ratio "
            "(interleaved sector-bitmap entries); states {0,1,2,3,6}; placement asc/desc/random/gaps/high(>2^32 bytes); size "
            "not a multiple of the block; requests raw/stream/read_sectors, half of them starting shortly before a block "
            "boundary. Non-trivial = request touches >= 2 blocks or >= 2 source kinds; distinct by case hash.",
    "trusted_base": ["Model/Vhdx.v is hand-written (correspondence-checked, not proved against Python)"],
    "assumptions": ["file handles behave as io.RawIOBase files (SparseFile stand-in)"],
}
MB = 1 << 20


def gen_case(rng, tier, diff=False):
    bs = rng.weighted([(1 * MB, 4), (2 * MB, 2), (8 * MB, 1), (32 * MB, 2), (256 * MB, 2)])
    ss = rng.weighted([(512, 3), (4096, 2)])
    cr = fmt_vhdx.chunk_ratio(bs, ss)
    inter = rng.chance(0.35) and cr <= 1024
    if inter:
        nblocks = cr + rng.randint(1, min(cr, 40))
    else:
        nblocks = rng.randint(1, 6)
    cut = rng.weighted([(0, 3), (ss * rng.randrange(0, bs // ss), 3)])
    size = max(ss, nblocks * bs - cut)
    if size <= (nblocks - 1) * bs:
        size = (nblocks - 1) * bs + ss
    mode = rng.weighted([("all", 2), ("none", 1), ("alt", 2), ("rand", 5)])
    states = []
    for b in range(nblocks):
        p = {"all": True, "none": False, "alt": b % 2 == 0, "rand": rng.chance(0.6)}[mode]
        states.append(6 if p else rng.pick([0, 0, 1, 2, 3]))
    if inter and rng.chance(0.8):
        # make sure blocks on both sides of the first interleaved entry are present
        for b in (cr - 1, cr, min(cr + 1, nblocks - 1)):
            states[b] = 6
    # a "fixed" VHDX (LeaveBlockAllocated): written with every block in place; after trimming, compaction or a
    # repair tool the first and last block may still sit where a flat layout would put them while the interior does not
    fixed_like = nblocks >= 3 and rng.chance(0.2)
    if fixed_like:
        states[0] = states[-1] = 6
    present = [b for b, s in enumerate(states) if s == 6]
    place = rng.weighted([("asc", 2), ("desc", 2), ("random", 4), ("gaps", 2), ("high", 1), ("logical", 2)])
    if fixed_like:
        place = "logical"
    bat_off = rng.pick([3 * MB, 4 * MB, 9 * MB])
    bat_mb = (8 * (nblocks + nblocks // cr + 2) + MB - 1) // MB
    first_mb = (bat_off // MB) + bat_mb + rng.randrange(0, 3)
    step = bs // MB
    first_mb += (-first_mb) % 1
    slots = list(range(len(present)))
    if place == "logical":
        slots = list(present)          # block b lies where it would lie in a fully allocated image
        if fixed_like and len(present) >= 4 and rng.chance(0.6):
            i, j = rng.sample(range(1, len(present) - 1), 2)
            slots[i], slots[j] = slots[j], slots[i]          # two interior blocks changed places
    elif place == "desc":
        slots.reverse()
    elif place == "random":
        rng.shuffle(slots)
    elif place == "gaps":
        slots = rng.sample(range(3 * len(present) + 1), len(present))
    elif place == "high":
        base = ((1 << 44) - 1 - step * (len(present) + 3)) // step if rng.chance(0.5) else (5000 * 1024) // step + 7
        slots = [base + s for s in slots]
        rng.shuffle(slots)
    blocks = [[s, 0] for s in states]
    top = first_mb
    for b, s in zip(present, slots):
        mb = (first_mb + s * step) if place != "high" else s * step
        blocks[b][1] = mb
        top = max(top, mb + step)
    for b, s in enumerate(states):
        if s in (1, 2, 3) and rng.chance(0.3):
            blocks[b][1] = rng.randrange(1, 1000)      # stale offsets on non-present states must be ignored
    if rng.chance(0.2):
        # the BAT region behind the payload blocks (a table moved to the end of the file when the disk grew): regions and
        # blocks may lie in any order
        bat_off = top * MB
        top += bat_mb
    c = {"size": size, "block_size": bs, "sector_size": ss, "blocks": blocks, "bat_offset": bat_off,
         "file_size": top * MB, "place": place, "mode": mode, "inter": inter, "salt": rng.randrange(1 << 30),
         "kind": "nodiff", "header_seq": rng.pick([[5, 7], [9, 3], [4, 4]])}
    # LeaveBlockAllocated (a "fixed" VHDX): a hint for writers; the BAT still decides where every block lies
    c["leave_alloc"] = fixed_like or (c["salt"] % 3) == 0
    c["reqs"] = gen_requests(rng, size, bs, n=6, sector=ss, raw_align=ss, max_bytes=2_000_000,
                             big=(20 * MB if (bs >= 32 * MB and rng.chance(0.4)) else 0))
    if inter:
        # directed: the blocks on both sides of every interleaved sector-bitmap entry (payload block k*cr and its
        # neighbours), where an index that forgets or double-counts the interleaved entries goes wrong first
        for k in range(1, nblocks // cr + 1):
            for b in (k * cr - 1, k * cr, k * cr + 1):
                if 0 <= b and b * bs + ss <= size:
                    c["reqs"].append(["bytes", b * bs + rng.randrange(0, bs // ss) * ss, min(ss, size - b * bs)])
            if k * cr * bs + ss <= size:
                c["reqs"].append(["raw", k * cr * bs - ss, min(2 * ss, size - (k * cr * bs - ss))])
    return c


class VhdxSuite(ReaderSuite):
    name = "vhdx"
    fmt = "vhdx"
    preamble = ("From Coq Require Import ZArith List.\nImport ListNotations.\nOpen Scope Z_scope.\n"
                "From DH Require Import Base.Plan Base.Table Model.Vhdx.\n")
    shard = 15

    def generate(self, rng, tier):
        n = 1200 if tier == "thorough" else 70
        from harness.readers import with_twins
        return with_twins([gen_case(rng, tier) for _ in range(n)], rng)

    def build_files(self, case):
        return {"file": fmt_vhdx.build(case)}

    def open_impl(self, case, files):
        from dissect.hypervisor.disk.vhdx import VHDX
        return VHDX(files["file"])

    def coq_img(self, case):
        return fmt_vhdx.coq_img(case)

    def model_term(self, case, kind, a, b):
        ss = case["sector_size"]
        if kind == "raw":
            return f"vhdx_read img (vhdx_fuel {Z(b // ss + 2)}) {Z(a)} {Z(b)}"
        if kind == "sectors":
            return f"vhdx_read_sectors img (vhdx_fuel {Z(b)}) {Z(a)} {Z(b)}"
        return None

    def spec_fn(self, case):
        return "(vhdx_src img)"

    def granule(self, case):
        return case["sector_size"]

    def sector_size(self, case):
        return case["sector_size"]

    def dist(self, case):
        return {"bs_mb": case["block_size"] // MB, "ss": case["sector_size"], "place": case["place"],
                "mode": case["mode"], "interleaved": case["inter"],
                "size_aligned": case["size"] % case["block_size"] == 0,
                "req_kinds": ",".join(sorted({r[0] for r in case["reqs"]}))}


SUITES = {"vhdx": VhdxSuite()}

from harness.readers import under_O, under_debug, under_bufsize  # noqa: E402
SUITES["vhdx_pyO"] = under_O(SUITES["vhdx"])
SUITES["vhdx_dbg"] = under_debug(SUITES["vhdx"])
SUITES["vhdx_buf12288"] = under_bufsize(SUITES["vhdx"], 12288)
SUITES["vhdx_buf1536"] = under_bufsize(SUITES["vhdx"], 1536, n=4)
