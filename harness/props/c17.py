"""C17 — Hyper-V VMCX/VMRS: decoded tree equals the stored key/value tree.

Suites
  tree     random key/value trees serialised by an independent writer with random layout choices
           (entries spread over key tables, competing sequence numbers, free entries, file objects,
           several object tables, both headers); implementation vs model vs the tree that was stored.
  mal      the same files with one structural mutation each (malformed / adversarial stream):
           implementation vs model only (both must agree on raise / result), hangs are failures.
  samples  the two real files of /repo/tests/data parsed by implementation and model.
"""
from __future__ import annotations

import copy
import os
import re
import struct

from harness import core
from harness.core import Z, zlist
from harness.main import Finding, Suite

PROPERTY = "C17"
PROPS_FILE = "Props/C17.v"
MODEL_FILES = ["Model/HyperV.v", "Spec/HyperV.v"]
META = {
    "category": "proof",
    "text": "Coq theorems: entry / value / key-table / link round trips composed up to whole files with one object table "
            "(decode after encode is the stored tree for every tree, every distribution of entries over key tables, every "
            "order, free entries anywhere, inline and file-object storage, competing tables with lower sequence numbers), "
            "highest-sequence header and key table are the active ones, free entries are ignored, and the whole decode "
            "(entry walk, repaired object-table worklist, as_dict) terminates on arbitrary bytes; the model is tied to "
            "hyperv.py by generated layouts/enums/literals and by differential correspondence on generated files, a "
            "malformed stream and the two real samples.",
    "design_ref": "DESIGN.md §6 C17 (+ §7 row 14 for the C11 worklist)",
    "note": "Trusted: Coq kernel; hand-written Model/HyperV.v validated against hyperv.py on the generated files, the "
            "malformed stream and the two real samples; Gen/{Consts,Layouts,Enums,HyperVLits}.v from the translator; "
            "Python's UTF-8 / UTF-16-LE codecs and struct (modelled: validity predicates + little-endian integers; doubles "
            "are compared as bit patterns).",
    "technique": "Coq proof of decode-after-encode + differential correspondence model/implementation/stored tree",
    "rule": "trees: depth 0..6, fan-out 0..12, UTF-8 keys (ASCII, 2/3/4-byte sequences, empty, 254 bytes), all seven value "
            "types with boundary values, strings/arrays of 0, 1, 0x7FE/0x7FF, 0x800, 0x801.. bytes (file objects from 0x800); "
            "layout: 1..12 key tables with arbitrary indices, entries assigned at random, order shuffled, free entries, "
            "padding, stale competing tables with lower sequence numbers, 1..4 object tables, unallocated/ignored object "
            "entries, both headers (either active, the other possibly garbage), extra replay logs, alignment 16..4096, "
            "regions in any order, optionally beyond 4 GiB. Non-trivial = at least two key tables in use or a file object "
            "or a competing table; distinct by the digest of the file.",
    "trusted_base": ["Model/HyperV.v is hand-written (correspondence-checked, not proved against Python)",
                     "Python codecs utf-8 / utf-16-le and struct.unpack as modelled"],
    "assumptions": ["file handles behave as io.RawIOBase files (SparseFile stand-in)",
                    "root entries may be values (HyperVFile.as_dict dumps them by value: fixes/C17-hyperv-root-leaf.diff)",
                    "an ObjectTable entry whose offset is already loaded is skipped (fixes/C11-hyperv-objtable-cycle.diff)"],
}

SIG_HDR = 0x01282014
SIG_RLOG = 0x01110003
SIG_OTAB = 0x01110001
SIG_KTAB = 0x0002
T_FREE, T_UNK, T_INT, T_UINT, T_DOUBLE, T_STRING, T_ARRAY, T_BOOL, T_NODE = 1, 2, 3, 4, 5, 6, 7, 8, 9
TYPE_OF = {"int": T_INT, "uint": T_UINT, "double": T_DOUBLE, "string": T_STRING, "array": T_ARRAY, "bool": T_BOOL,
           "node": T_NODE}
O_OTAB, O_KTAB, O_FILE, O_FREE, O_RLOG = 1, 2, 3, 4, 6


# ============================================================================ independent writer
def pack_header(h):
    return struct.pack("<IIHIQIQQI", h["sig"], h.get("ck", 0), h["seq"], h["ver"], h.get("u2", 0), h["align"],
                       h["rlo"], h.get("rls", 0x4000), h.get("hsize", 0x1000))


def pack_rlog(r):
    b = struct.pack("<IIIBIIIIIB", r["sig"], r.get("ck", 0), r["n"], 0, r.get("max", 0x91), 0, 0, 0, 0, 0)
    for i in range(r.get("present", r["n"])):
        b += struct.pack("<QIIIII", 0x3000 + i, 16, 0, 0, 0, 0)
    return b


def pack_otab(t):
    b = struct.pack("<II", t["sig"], t.get("n", len(t["entries"])))
    for e in t["entries"]:
        b += struct.pack("<BIQIB", e["type"], e.get("ck", 0), e["off"], e["size"], e["alloc"])
    return b


def pack_kentry(e):
    body = bytes.fromhex(e["body"])
    return struct.pack("<HIHIIIB", e["type"], e["size"], e["pidx"], e["poff"], e.get("ck", 0), e.get("ins", 0),
                       e["doff"]) + body


def pack_ktab(t):
    b = bytearray(struct.pack("<HHHI", t["sig"], t["index"], t["seq"], t.get("ck", 0)))
    for e in t["entries"]:
        if len(b) < e["off"]:
            b += b"\x00" * (e["off"] - len(b))
        raw = pack_kentry(e)
        b[e["off"]:e["off"] + len(raw)] = raw
    want = t.get("stored", t["size"])
    if len(b) < want:
        b += bytes([t.get("fill", 0)]) * (want - len(b))
    return bytes(b[:want]) if t.get("clip", True) else bytes(b)


def build_chunks(case):
    """-> (size, sorted non-overlapping chunks [(off, bytes)]) : later writes win."""
    writes = []
    for i, h in enumerate(case["hdrs"]):
        if h is not None:
            writes.append((0x1000 * i, pack_header(h)))
    for r in case["rlogs"]:
        writes.append((r["off"], pack_rlog(r)))
    for t in case["otabs"]:
        writes.append((t["off"], pack_otab(t)))
    for t in case["ktabs"]:
        writes.append((t["off"], pack_ktab(t)))
    for b in case["blobs"]:
        writes.append((b["off"], bytes.fromhex(b["data"])))
    for w in case.get("patches", []):
        writes.append((w["off"], bytes.fromhex(w["data"])))
    pages = {}
    for off, data in writes:
        pos = 0
        while pos < len(data):
            pg, po = divmod(off + pos, 4096)
            n = min(4096 - po, len(data) - pos)
            pages.setdefault(pg, bytearray(4096))[po:po + n] = data[pos:pos + n]
            pos += n
    size = case["fsize"]
    chunks = []
    run_start, run = None, bytearray()
    for pg in sorted(pages):
        if run_start is not None and pg * 4096 == run_start + len(run):
            run += pages[pg]
        else:
            if run_start is not None:
                chunks += split_run(run_start, bytes(run))
            run_start, run = pg * 4096, bytearray(pages[pg])
    if run_start is not None:
        chunks += split_run(run_start, bytes(run))
    out = []
    for off, data in chunks:
        if off >= size:
            continue
        out.append((off, data[:size - off]))
    return size, out


_NZ = re.compile(rb"(?:[^\x00]|\x00(?!\x00{31}))+", re.S)


def split_run(start, data):
    """non-zero islands of a run (zero gaps of >= 32 bytes are dropped)"""
    out = []
    for m in _NZ.finditer(data):
        seg = m.group(0).rstrip(b"\x00")
        if seg:
            out.append((start + m.start(), seg))
    return out


def open_sparse(case):
    size, chunks = build_chunks(case)
    return core.SparseFile(size, dict(chunks), fill="zero")


# ============================================================================ trees
KEY_POOL = ["configuration", "properties", "version", "settings", "name", "a", "B", "k e y", "global_settings",
            "_ac6b8dc1-3257-4a70-b1b2-a9c9215659ad_", "clé", "ключ", "鍵", "🔑", "naïve/∑", "x" * 254, "", "é" * 127,
            "VDEVVersion", "0", "\x01ctl", "a.b", "A", "𝔘𝔫𝔦"]


def gen_value(rng, tier):
    k = rng.weighted([("int", 4), ("uint", 3), ("double", 3), ("string", 5), ("array", 4), ("bool", 3)])
    if k == "int":
        return ["int", rng.pick([0, 1, -1, 2304, -(1 << 63), (1 << 63) - 1, rng.randrange(-(1 << 63), 1 << 63),
                                 rng.randrange(-1000, 1000)])]
    if k == "uint":
        return ["uint", rng.pick([0, 1, (1 << 64) - 1, 1 << 63, (1 << 63) - 1, rng.randrange(0, 1 << 64), 0xFFFFFFFF])]
    if k == "double":
        return ["double", rng.pick([0, 1 << 63, 0x3FF0000000000000, 0x7FF0000000000000, 0xFFF0000000000000,
                                    0x7FF8000000000000, 0x7FF0000000000001, 0xFFF8000000000123, 1,
                                    rng.randrange(0, 1 << 64), 0x400921FB54442D18])]
    if k == "bool":
        return ["bool", rng.pick([0, 1, 1, 2, 0xFFFFFFFF, 0x100, rng.randrange(0, 1 << 32)])]
    if k == "string":
        n = rng.weighted([(0, 2), (1, 2), (rng.randint(2, 40), 8), (0x3FF, 1), (0x400, 1), (0x401, 1),
                          (rng.randint(0x402, 2500 if tier == "thorough" else 1400), 1)])
        alphabet = rng.pick(["ascii", "bmp", "mixed", "astral"])
        chars = []
        while len(chars) < n:
            if alphabet == "ascii":
                chars.append(chr(rng.randrange(32, 127)))
            elif alphabet == "bmp":
                chars.append(chr(rng.pick([rng.randrange(0xA0, 0xD800), rng.randrange(0xE000, 0xFFFE), 0, 0xFFFF])))
            elif alphabet == "astral":
                chars.append(chr(rng.randrange(0x10000, 0x110000)))
            else:
                chars.append(chr(rng.pick([rng.randrange(32, 127), rng.randrange(0xA0, 0xD800), 0,
                                           rng.randrange(0x10000, 0x110000)])))
        s = "".join(chars)
        # n counts code points; astral characters take two units
        return ["string", s]
    n = rng.weighted([(0, 2), (1, 2), (rng.randint(2, 60), 8), (0x7FF, 1), (0x800, 1), (0x801, 1),
                      (rng.randint(0x802, 5000 if tier == "thorough" else 2600), 1)])
    return ["array", bytes(rng.randrange(256) for _ in range(min(n, 64))).hex() +
            core.stamp(64, max(0, n - 64), rng.randrange(1 << 20)).hex()]


def gen_children(rng, tier, depth, budget):
    maxfan = 12 if tier == "thorough" else 8
    fan = rng.weighted([(0, 1), (1, 3), (2, 3), (rng.randint(3, maxfan), 3)])
    fan = min(fan, budget[0])
    keys = []
    pool = list(KEY_POOL)
    while len(keys) < fan:
        k = rng.pick(pool) if rng.chance(0.7) else "".join(chr(rng.randrange(97, 123)) for _ in range(rng.randint(1, 9)))
        if rng.chance(0.06):
            # long key names: the name length + 1 is the entry's one-byte data offset (126..255 sits around the sign bit)
            nbytes = rng.pick([100, 125, 126, 127, 128, 200, 253, 254])
            if rng.chance(0.5):
                k = "".join(chr(rng.randrange(97, 123)) for _ in range(nbytes))
            else:
                k = ("\u00e9" * (nbytes // 2)) + ("x" * (nbytes % 2))
        if k not in keys:
            keys.append(k)
    out = []
    for k in keys:
        budget[0] -= 1
        if depth > 0 and rng.chance(0.45):
            out.append([k, ["node", gen_children(rng, tier, depth - 1, budget)]])
        else:
            out.append([k, gen_value(rng, tier)])
    return out


def gen_tree(rng, tier):
    depth = rng.weighted([(0, 1), (1, 2), (2, 3), (3, 3), (rng.randint(4, 6), 2)])
    budget = [120 if tier == "thorough" else 45]
    root_leaves = rng.chance(0.12)
    if depth == 0 and not root_leaves:
        n = rng.randint(0, 3)
        keys = []
        while len(keys) < n:
            k = rng.pick(KEY_POOL)
            if k not in keys:
                keys.append(k)
        return [[k, ["node", []]] for k in keys], False
    kids = gen_children(rng, tier, depth, budget)
    if not root_leaves:
        # real files have one node ("configuration") at the root: wrap values
        kids = [[k, t if t[0] == "node" else ["node", [[k, t]]]] for k, t in kids]
    has_leaf = any(t[0] != "node" for _, t in kids)
    return kids, has_leaf


def value_payload(t):
    """stored bytes of a scalar, or the blob of a string/array"""
    kind, v = t
    if kind == "int":
        return struct.pack("<q", v), None
    if kind == "uint":
        return struct.pack("<Q", v), None
    if kind == "double":
        return struct.pack("<Q", v), None
    if kind == "bool":
        return struct.pack("<I", v), None
    if kind == "string":
        return None, v.encode("utf-16-le")
    if kind == "array":
        return None, bytes.fromhex(v)
    raise ValueError(kind)


def align_up(x, a):
    return (x + a - 1) // a * a


# ============================================================================ structured generator
def gen_case(rng, tier):
    tree, root_leaf = gen_tree(rng, tier)
    align = rng.weighted([(16, 3), (64, 2), (256, 2), (512, 1), (4096, 2)])
    c = {"align": align, "tree": tree, "root_leaf": root_leaf}

    # ---- flatten
    ents = []

    def walk(children, parent):
        for k, t in children:
            eid = len(ents)
            ents.append({"parent": parent, "key": k, "t": t})
            if t[0] == "node":
                walk(t[1], eid)
    walk(tree, None)

    # ---- key tables
    maxt = 12 if tier == "thorough" else 6
    ntab = 1 if not ents else rng.weighted([(1, 2), (2, 3), (3, 2), (rng.randint(4, maxt), 3)])
    indices = []
    while len(indices) < ntab:
        i = rng.weighted([(len(indices) + 1, 5), (rng.randrange(1, 65536), 2), (65535, 1)])
        if i not in indices:
            indices.append(i)
    spread = rng.weighted([("random", 5), ("roundrobin", 2), ("bydepth", 1), ("chunks", 2)])
    tabs = [{"index": indices[i], "slots": []} for i in range(ntab)]
    per = max(1, (len(ents) + ntab - 1) // ntab)
    for eid, e in enumerate(ents):
        if spread == "random":
            ti = rng.randrange(ntab)
        elif spread == "roundrobin":
            ti = eid % ntab
        elif spread == "chunks":
            ti = min(ntab - 1, eid // per)
        else:
            d, p = 0, e["parent"]
            while p is not None:
                d, p = d + 1, ents[p]["parent"]
            ti = d % ntab
        e["tab"] = ti
        tabs[ti]["slots"].append(eid)
    blobs = []          # (blob bytes, [entry refs])
    free_rate = rng.pick([0.0, 0.15, 0.4])
    for t in tabs:
        if rng.chance(0.7):
            rng.shuffle(t["slots"])
        slots = []
        for eid in t["slots"]:
            while rng.chance(free_rate):
                slots.append(None)
            slots.append(eid)
        while rng.chance(free_rate):
            slots.append(None)
        t["slots"] = slots
    # sizes and offsets
    fop_small = rng.chance(0.1)
    inline_big = rng.chance(0.1)
    for t in tabs:
        off = 10
        recs = []
        for eid in t["slots"]:
            if eid is None:
                size = 21 + rng.pick([0, 1, 7, 30, rng.randint(0, 200)])
                recs.append({"off": off, "free": True, "size": size})
                off += size
                continue
            e = ents[eid]
            kb = e["key"].encode("utf-8")
            kind = e["t"][0]
            flags = rng.weighted([(0, 6), (2, 2), (0x80, 1), (0x7E, 1)])
            if kind == "node":
                val = bytes(rng.randrange(256) for _ in range(rng.pick([12, 12, 12, 8, 0, 3])))
                if rng.chance(0.05):
                    flags |= 1          # the pointer flag on a node is never looked at
            else:
                scalar, blob = value_payload(e["t"])
                if scalar is not None:
                    val = scalar
                else:
                    big = len(blob) >= 0x800
                    use_fop = (big and not inline_big) or (not big and fop_small and rng.chance(0.5))
                    if use_fop:
                        flags |= 1
                        val = None      # pointer, patched later
                        blobs.append({"data": blob, "eid": eid})
                    else:
                        val = struct.pack("<I", len(blob)) + blob
            pad = rng.pick([0, 0, 1, 5, 12, rng.randint(0, 40)])
            vlen = 12 if val is None else len(val)
            size = 21 + len(kb) + 1 + vlen + pad
            e.update(off=off, size=size, flags=flags, val=val, pad=pad)
            recs.append({"off": off, "eid": eid, "size": size})
            off += size
        t["recs"] = recs
        t["end"] = off
        tail = rng.weighted([("exact", 3), ("zeros", 3), ("free", 3)])
        if tail == "exact":
            t["size"] = off
        elif tail == "zeros":
            t["size"] = align_up(off + 21 + rng.randint(0, 40), align)
        else:
            t["size"] = align_up(off + 21, align)
            recs.append({"off": off, "free": True, "size": t["size"] - off})
        t["tail"] = tail
        t["seq"] = rng.pick([0, 1, 2, 5, 12, rng.randrange(0, 65536), 65535])

    # ---- competing (stale) tables: same index, lower sequence number
    stale = []
    for t in tabs:
        if t["seq"] > 0 and rng.chance(0.35):
            for _ in range(rng.pick([1, 1, 2])):
                stale.append({"of": t, "seq": rng.randrange(0, t["seq"]), "mode": rng.pick(["shift", "mutate", "empty"])})
    if tabs and rng.chance(0.3):
        # a table index of its own whose NEWEST version is empty (everything in it was deleted) while an older version still
        # holds entries: the newest version is the table, so nothing of it shows
        t = rng.pick(tabs)
        used = {x["index"] for x in tabs}
        ghost = max(used) + 1 + rng.randrange(0, 3)
        if ghost > 65535:
            ghost = next(i for i in range(2, 65536) if i not in used)
        lo = rng.randrange(0, 1000)
        stale.append({"of": t, "seq": lo, "mode": "mutate", "index_override": ghost})
        stale.append({"of": t, "seq": lo + rng.randint(1, 50), "mode": "empty", "index_override": ghost})
    c["n_stale"] = len(stale)

    # ---- file regions
    n_otabs = rng.weighted([(1, 5), (2, 2), (3, 1), (4, 1)])
    n_extra_rlogs = rng.weighted([(0, 5), (1, 2), (2, 1)])
    high = rng.chance(0.08)
    regions = []        # (kind, ref, length)
    for t in tabs:
        regions.append(["ktab", t, t["size"]])
    for s in stale:
        regions.append(["stale", s, s["of"]["size"] + 64])
    for b in blobs:
        regions.append(["blob", b, max(1, len(b["data"]))])
    for i in range(1, n_otabs):
        regions.append(["otab", i, 0])      # length fixed below
    for i in range(1 + n_extra_rlogs):
        regions.append(["rlog", i, 34 + 28 * 3])
    rng.shuffle(regions)
    # object entries (key tables, files, replay logs, noise) distributed over the object tables
    objs = []
    for r in regions:
        if r[0] in ("ktab", "stale"):
            objs.append({"type": O_KTAB, "ref": r, "alloc": rng.pick([1, 1, 1, 0xFF, 2])})
        elif r[0] == "blob":
            objs.append({"type": O_FILE, "ref": r, "alloc": 1})
        elif r[0] == "rlog" and r[1] > 0:
            objs.append({"type": O_RLOG, "ref": r, "alloc": 1})
    for _ in range(rng.pick([0, 0, 2, 6])):
        objs.append({"type": rng.pick([0, 4, 5, 7, 4, 0, 200]), "off": rng.randrange(0, 1 << 20), "size": rng.randrange(0, 1 << 16),
                     "alloc": 1})
    for _ in range(rng.pick([0, 3, 10])):
        # unallocated entries of every type, pointing anywhere: must be ignored
        objs.append({"type": rng.pick([0, 1, 2, 3, 4, 6]), "off": rng.pick([0, 0x2000, 0x3000, rng.randrange(0, 1 << 20)]),
                     "size": rng.randrange(0, 1 << 12), "alloc": 0})
    rng.shuffle(objs)
    otabs = [{"entries": []} for _ in range(n_otabs)]
    for o in objs:
        otabs[rng.randrange(n_otabs)]["entries"].append(o)
    for i in range(1, n_otabs):
        parent = rng.randrange(0, i)
        reg = [r for r in regions if r[0] == "otab" and r[1] == i][0]
        pos = rng.randint(0, len(otabs[parent]["entries"]))
        otabs[parent]["entries"].insert(pos, {"type": O_OTAB, "ref": reg, "alloc": 1})
    for i in range(1, n_otabs):
        reg = [r for r in regions if r[0] == "otab" and r[1] == i][0]
        reg[2] = 8 + 18 * len(otabs[i]["entries"])
    cursor = align_up(0x2000 + 8 + 18 * len(otabs[0]["entries"]) + rng.pick([0, 0, 100]), align)
    for r in regions:
        if high and rng.chance(0.5):
            base = align_up((1 << 32) + rng.randrange(0, 1 << 33), align)
            cursor = max(cursor, base) if rng.chance(0.5) else cursor
        if rng.chance(0.2):
            cursor += align * rng.randint(1, 3)
        r.append(cursor)
        cursor = align_up(cursor + r[2], align)
    fsize = cursor + rng.pick([0, 0, 1, align])
    off_of = {id(r[1]) if r[0] != "otab" and r[0] != "rlog" else (r[0], r[1]): r[3] for r in regions}

    # ---- render key tables
    blob_off = {b["eid"]: off_of[id(b)] for b in blobs}

    def render_entry(t, rec, mutate=False, shift=0):
        if rec.get("free"):
            return {"off": rec["off"] + shift, "type": T_FREE | rng.pick([0, 0, 0x200, 0x100]),
                    "size": rec["size"], "pidx": 0, "poff": 0, "ck": 0, "ins": 0xFDFDFDFD, "doff": 0,
                    "body": (b"\xfd" * max(0, rec["size"] - 21)).hex()}
        e = ents[rec["eid"]]
        kb = e["key"].encode("utf-8")
        if e["val"] is None:
            blob = [b for b in blobs if b["eid"] == rec["eid"]][0]
            val = struct.pack("<IQ", len(blob["data"]), blob_off[rec["eid"]])
        else:
            val = e["val"]
        if mutate and e["t"][0] != "node" and e["val"] is not None and len(val) >= 4:
            val = bytes([val[0] ^ 0x55]) + val[1:]
        if e["parent"] is None:
            pidx, poff = 0, rng.pick([0, 0, 0, 10, rec["off"], 0xFFFFFFFF])
        else:
            p = ents[e["parent"]]
            pidx, poff = tabs[p["tab"]]["index"], p["off"]
        body = kb + b"\x00" + val + bytes(rng.randrange(256) for _ in range(e["pad"]))
        return {"off": rec["off"] + shift, "type": TYPE_OF[e["t"][0]] | (e["flags"] << 8), "size": rec["size"],
                "pidx": pidx, "poff": poff, "ck": rng.randrange(1 << 32), "ins": rng.randrange(1 << 16),
                "doff": len(kb) + 1, "body": body.hex()}

    ktabs = []
    for t in tabs:
        ktabs.append({"off": off_of[id(t)], "size": t["size"], "sig": SIG_KTAB, "index": t["index"], "seq": t["seq"],
                      "ck": rng.randrange(1 << 32), "entries": [render_entry(t, r) for r in t["recs"]],
                      "fill": 0})
    for s in stale:
        t = s["of"]
        if s["mode"] == "empty":
            entries, size = [], 10 + rng.pick([0, 21, 40])
        elif s["mode"] == "shift":
            sh = 21 + rng.randint(0, 20)
            entries = [{"off": 10, "type": T_FREE, "size": sh, "pidx": 0, "poff": 0, "doff": 0,
                        "body": (b"\xfd" * (sh - 21)).hex()}]
            keep = t["recs"][:-1] if t["tail"] == "free" else t["recs"]
            entries += [render_entry(t, r, shift=sh) for r in keep]
            size = max([e["off"] + e["size"] for e in entries])
        else:
            entries = [render_entry(t, r, mutate=True) for r in t["recs"]]
            size = t["size"]
        ktabs.append({"off": off_of[id(s)], "size": size, "sig": SIG_KTAB, "index": s.get("index_override", t["index"]),
                      "seq": s["seq"], "entries": entries, "fill": 0})
        s["size"] = size
    # ---- render object tables
    out_otabs = []
    for i, ot in enumerate(otabs):
        es = []
        for o in ot["entries"]:
            if "ref" in o:
                r = o["ref"]
                if r[0] == "ktab":
                    off, size = r[3], r[1]["size"]
                elif r[0] == "stale":
                    off, size = r[3], r[1]["size"]
                elif r[0] == "blob":
                    off, size = r[3], align_up(len(r[1]["data"]), align) + rng.pick([0, 0, align])
                elif r[0] == "otab":
                    off, size = r[3], align_up(r[2], align)
                else:
                    off, size = r[3], 0x4000
                es.append({"type": o["type"], "off": off, "size": size, "alloc": o["alloc"], "ck": rng.randrange(1 << 32)})
            else:
                es.append({"type": o["type"], "off": o["off"], "size": o["size"], "alloc": o["alloc"]})
        off = 0x2000 if i == 0 else off_of[("otab", i)]
        out_otabs.append({"off": off, "sig": SIG_OTAB, "entries": es})
    # ---- replay logs, headers
    rlogs = []
    for i in range(1 + n_extra_rlogs):
        n = rng.pick([0, 0, 1, 3])
        rlogs.append({"off": off_of[("rlog", i)], "sig": SIG_RLOG, "n": n})
    active = rng.randrange(2)
    seq_a = rng.pick([1, 7, 25, rng.randrange(1, 65536), 65535])
    seq_o = rng.randrange(0, seq_a)
    good = {"sig": SIG_HDR, "seq": seq_a, "ver": 0x400, "align": align, "rlo": rlogs[0]["off"], "ck": rng.randrange(1 << 32)}
    other_kind = rng.weighted([("valid", 4), ("badsig", 2), ("badver", 1), ("badrlo", 2), ("zeros", 1)])
    other = dict(good, seq=seq_o, ck=rng.randrange(1 << 32))
    if other_kind == "badsig":
        other["sig"] = rng.pick([0, 0xFFFFFFFF, SIG_HDR ^ 1])
    elif other_kind == "badver":
        other["ver"] = rng.pick([0x300, 0x401, 0])
    elif other_kind == "badrlo":
        other["rlo"] = rng.pick([0, 0x1000, fsize + 100, 1 << 40])
    elif other_kind == "zeros":
        other = None
    hdrs = [good, other] if active == 0 else [other, good]
    c.update(hdrs=hdrs, rlogs=rlogs, otabs=out_otabs, ktabs=ktabs, fsize=fsize,
             blobs=[{"off": off_of[id(b)], "data": b["data"].hex()} for b in blobs],
             dims={"ntab": ntab, "spread": spread, "n_otabs": n_otabs, "free_rate": free_rate, "high": high,
                   "other_hdr": other_kind, "active_first": active == 0, "fop_small": fop_small, "inline_big": inline_big,
                   "n_entries": len(ents), "n_blobs": len(blobs), "n_stale": len(stale), "extra_rlogs": n_extra_rlogs})
    c["expect"] = {"first": active == 0, "ntables": n_otabs}
    # ---- item-access paths
    paths = []
    leafs, nodes = [], []

    def collect(children, prefix):
        for k, t in children:
            (nodes if t[0] == "node" else leafs).append(prefix + [k])
            if t[0] == "node":
                collect(t[1], prefix + [k])
    collect(tree, [])
    for _ in range(4):
        if leafs and rng.chance(0.6):
            paths.append(rng.pick(leafs))
        elif nodes and rng.chance(0.6):
            paths.append(rng.pick(nodes))
        else:
            base = rng.pick(nodes + leafs + [[]])
            paths.append(base + [rng.pick(["nope", "", "a"])])
    c["paths"] = paths
    return c


# ============================================================================ canonical forms
CSUM_P = 2305843009213693951


def csum(vals):
    a = 0
    for b in vals:
        a = (a * 257 + b + 1) % CSUM_P
    return a


def canon_blob(kind, data: bytes):
    """kind 's' (utf-16-le bytes) or 'a' (bytes); long payloads as (length, checksum) like Model.squeeze_val"""
    if kind == "s":
        units = list(struct.unpack(f"<{len(data) // 2}H", data[:len(data) // 2 * 2]))
        if len(units) > 32:
            return ["S", len(units), csum(units)]
        return ["s", data.hex()]
    if len(data) > 32:
        return ["A", len(data), csum(data)]
    return ["a", data.hex()]


def canon_expected(t):
    kind = t[0]
    if kind == "node":
        return ["N", sorted([[k.encode("utf-8").hex(), canon_expected(s)] for k, s in t[1]])]
    if kind in ("int", "uint"):
        return ["i", t[1]]
    if kind == "double":
        return ["d", t[1]]
    if kind == "bool":
        return ["b", t[1] != 0]
    if kind == "string":
        return canon_blob("s", t[1].encode("utf-16-le"))
    return canon_blob("a", bytes.fromhex(t[1]))


def canon_py(v):
    """a Python value returned by the implementation -> canonical form (dict order kept)"""
    if isinstance(v, dict):
        return ["N", [[k.encode("utf-8", "surrogatepass").hex(), canon_py(s)] for k, s in v.items()]]
    if isinstance(v, bool):
        return ["b", v]
    if isinstance(v, int):
        return ["i", v]
    if isinstance(v, float):
        return ["d", struct.unpack("<Q", struct.pack("<d", v))[0]]
    if isinstance(v, str):
        return canon_blob("s", v.encode("utf-16-le", "surrogatepass"))
    if isinstance(v, (bytes, bytearray, memoryview)):
        return canon_blob("a", bytes(v))
    return ["?", repr(v)[:80]]


def canon_coq_value(v):
    if v[0] == "PBig":
        return ["S" if v[1] == "true" else "A", v[2], v[3]]
    if v[0] == "PV":
        v = v[1]
    tag = v[0]
    if tag in ("VInt", "VUInt"):
        return ["i", v[1]]
    if tag == "VDouble":
        return ["d", v[1]]
    if tag == "VBool":
        return ["b", v[1] == "true"]
    if tag == "VString":
        return ["s", b"".join(struct.pack("<H", u) for u in v[1]).hex()]
    if tag == "VArray":
        return ["a", bytes(v[1]).hex()]
    raise ValueError(f"unexpected Coq value {v!r}")


def canon_coq_tree(t):
    if t[0] == "PLeaf":
        return canon_coq_value(t[1])
    if t[0] == "PNode":
        return ["N", [[bytes(kv[1]).hex(), canon_coq_tree(kv[2])] for kv in t[1]]]
    raise ValueError(f"unexpected Coq tree {t!r}")


def coq_typed(t):
    """constructor-level view (Int vs UInt) of a Coq tree, sorted"""
    if t[0] == "PLeaf":
        pv = t[1]
        return ("VString" if pv[1] == "true" else "VArray") if pv[0] == "PBig" else pv[1][0]
    return sorted([[bytes(kv[1]).hex(), coq_typed(kv[2])] for kv in t[1]])


def expected_typed(t):
    if t[0] == "node":
        return sorted([[k.encode("utf-8").hex(), expected_typed(s)] for k, s in t[1]])
    return {"int": "VInt", "uint": "VUInt", "double": "VDouble", "string": "VString", "array": "VArray",
            "bool": "VBool"}[t[0]]


def sort_canon(c):
    if c[0] == "N":
        return ["N", sorted([[k, sort_canon(s)] for k, s in c[1]])]
    return c


def expected_shape(tree, path):
    cur = ["node", tree]
    for k in path:
        if cur[0] != "node":
            return ["none"]
        nxt = [t for kk, t in cur[1] if kk == k]
        if not nxt:
            return ["none"]
        cur = nxt[0]
    if not path:
        return ["none"]
    return ["node"] if cur[0] == "node" else ["leaf", canon_expected(cur)]


# ============================================================================ implementation driver
_KEEP = []


def run_impl(fh, paths, sibling=None):
    from dissect.hypervisor.descriptor.hyperv import HyperVFile
    from dissect.hypervisor.descriptor.c_hyperv import KeyDataType
    out = {}
    try:
        hf = HyperVFile(fh)
    except Exception as e:  # noqa: BLE001
        return {"open": [type(e).__name__, str(e)[:120]]}
    if sibling is not None:
        # another file of the same layout (tables and file objects at the same offsets, other stored bytes) is opened and
        # decoded while this one is open and not yet decoded: what is decoded below is this file's content
        try:
            other = HyperVFile(sibling)
            _KEEP[:] = [other, other.as_dict()]
        except Exception:  # noqa: BLE001
            pass
    out["open"] = None
    out["first"] = hf.header is hf.headers[0]
    out["version"] = int(hf.version)
    out["ntables"] = len(hf.object_tables)
    try:
        out["dict"] = ["ok", canon_py(hf.as_dict())]
    except Exception as e:  # noqa: BLE001
        out["dict"] = ["exc", type(e).__name__, str(e)[:120]]
    # decoding is a function of the file: asking again gives the same tree (values held in file objects included)
    if out["dict"][0] == "ok":
        try:
            again = ["ok", canon_py(hf.as_dict())]
            third = ["ok", canon_py(hf.as_dict())]
        except Exception as e:  # noqa: BLE001
            again = third = ["exc", type(e).__name__, str(e)[:120]]
        if again != out["dict"] or third != out["dict"]:
            out["repeat"] = "as_dict() differs between calls on one object"
    shapes = []
    for p in paths:
        try:
            cur = hf
            for k in p:
                cur = cur[k]
            if not p:
                shapes.append(["none"])
            elif cur.type == KeyDataType.Node:
                shapes.append(["node"])
            else:
                try:
                    shapes.append(["leaf", canon_py(cur.value)])
                except Exception as e:  # noqa: BLE001
                    shapes.append(["leaf", ["exc"]])
        except KeyError:
            shapes.append(["none"])
        except Exception as e:  # noqa: BLE001
            shapes.append(["exc", type(e).__name__, str(e)[:80]])
    out["paths"] = shapes
    return out


def packed(b: bytes) -> str:
    """bytes as 7-byte little-endian primitive integers (uint63 literals are the only bulk literals coqc reads fast)"""
    nums = [str(int.from_bytes(b[i:i + 7], "little")) for i in range(0, len(b), 7)]
    return f"unpk {len(b)} [" + "; ".join(nums) + "]%uint63"


def file_term(size, chunks):
    return ("{| fl_size := " + Z(size) + "; fl_chunks := [" +
            "; ".join(f"({Z(o)}, {packed(b)})" for o, b in chunks) + "] |}")


def paths_term(paths):
    return "[" + "; ".join("[" + "; ".join(zlist(list(k.encode("utf-8"))) for k in p) + "]" for p in paths) + "]"


PREAMBLE = ("From Coq Require Import ZArith List Uint63.\nImport ListNotations.\nOpen Scope Z_scope.\n"
            "From DH Require Import Base.Plan Model.HyperV.\n"
            "Fixpoint unp (n : nat) (x : int) : list Z := match n with O => [] | S n' => "
            "Uint63.to_Z (x land 255)%uint63 :: unp n' (x >> 8)%uint63 end.\n"
            "Definition unpk (n : Z) (l : list int) : list Z := firstn (Z.to_nat n) (flat_map (unp 7) l).\n")


def model_view(coq_val):
    """parsed `decode` result -> dict like run_impl's"""
    r = core.res_of(coq_val)
    if r[0] != "ok":
        return {"open": r[0]}
    _, first, ver, nt, link, shapes = r[1]
    out = {"open": None, "first": first == "true", "version": ver, "ntables": nt}
    lr = core.res_of(link)
    if lr[0] == "ok":
        out["dict"] = ["ok", canon_coq_tree(lr[1])]
        out["typed"] = coq_typed(lr[1])
    else:
        out["dict"] = [lr[0]]
    ps = []
    for s in shapes:
        if s == "PNone":
            ps.append(["none"])
        elif s == "PIsNode":
            ps.append(["node"])
        else:
            vr = core.res_of(s[1])
            ps.append(["leaf", canon_coq_value(vr[1]) if vr[0] == "ok" else ["exc"]])
    out["paths"] = ps
    out["link_ok"] = bool(shapes) or lr[0] == "ok" or True
    return out


def short(x, n=160):
    s = core.jdump(x)
    return s if len(s) <= n else s[:n] + "…"


def first_tree_diff(a, b, path=""):
    """first differing position of two sorted canonical trees"""
    if a[0] != b[0]:
        return f"{path or '/'}: {short(a, 60)} vs {short(b, 60)}"
    if a[0] != "N":
        return None if a == b else f"{path or '/'}: {short(a, 70)} vs {short(b, 70)}"
    ka, kb = [k for k, _ in a[1]], [k for k, _ in b[1]]
    if ka != kb:
        only_a = [bytes.fromhex(k).decode("utf-8", "replace") for k in ka if k not in kb][:3]
        only_b = [bytes.fromhex(k).decode("utf-8", "replace") for k in kb if k not in ka][:3]
        return f"{path or '/'}: keys differ (only left {only_a}, only right {only_b}, counts {len(ka)}/{len(kb)})"
    for (k, sa), (_, sb) in zip(a[1], b[1]):
        d = first_tree_diff(sa, sb, path + "/" + bytes.fromhex(k).decode("utf-8", "replace")[:20])
        if d:
            return d
    return None


def judge_common(case, impl_res, coq_val, sig, with_spec):
    fs = []
    if impl_res.get("outcome"):
        kind = impl_res["outcome"]
        if kind == "exc":
            return [Finding("impl_fault", f"driver failed: {impl_res}", sig + ":driver")]
        what = "objtable-cycle" if case.get("mutation") == "otab_cycle" else "open"
        return [Finding("impl_fault", f"implementation {kind} while decoding ({impl_res.get('detail', '')[:120]})",
                        f"{sig}:{what}:{kind}")]
    if impl_res.get("repeat"):
        fs.append(Finding("impl_vs_spec", "the decoded tree changes between as_dict() calls on the same HyperVFile",
                          sig + ":repeat"))
    m = model_view(coq_val)
    if m["open"] == "fuel" or m.get("dict") == ["fuel"]:
        fs.append(Finding("model_vs_spec", "model ran out of fuel", sig + ":fuel"))
        return fs
    # ---------- impl vs model
    if (impl_res["open"] is None) != (m["open"] is None):
        fs.append(Finding("impl_vs_model", f"open: implementation {impl_res['open']} / model {m['open']}",
                          sig + ":open-model"))
    elif impl_res["open"] is None:
        for f in ("first", "version", "ntables"):
            if impl_res[f] != m[f]:
                fs.append(Finding("impl_vs_model", f"{f}: implementation {impl_res[f]} / model {m[f]}", sig + ":" + f))
        di, dm = impl_res["dict"], m["dict"]
        if (di[0] == "ok") != (dm[0] == "ok"):
            fs.append(Finding("impl_vs_model", f"as_dict: implementation {short(di)} / model {short(dm)}",
                              sig + ":dict-outcome-model"))
        elif di[0] == "ok" and di[1] != dm[1]:
            d = first_tree_diff(sort_canon(di[1]), sort_canon(dm[1]))
            fs.append(Finding("impl_vs_model", "as_dict differs from the model: " + (d or "only the order of keys"),
                              sig + ":dict-model"))
        if m["paths"] and impl_res["paths"] != m["paths"]:
            for p, a, b in zip(case["paths"], impl_res["paths"], m["paths"]):
                if a != b:
                    fs.append(Finding("impl_vs_model", f"item access {p}: implementation {short(a)} / model {short(b)}",
                                      sig + ":path-model"))
                    break
    if not with_spec:
        return fs
    # ---------- impl vs spec
    exp_tree = sort_canon(canon_expected(["node", case["tree"]]))
    if impl_res["open"] is not None:
        fs.append(Finding("impl_vs_spec", f"a well-formed file is refused: {impl_res['open']}", sig + ":open:exc"))
    else:
        if impl_res["first"] != case["expect"]["first"]:
            fs.append(Finding("impl_vs_spec", f"active header: implementation uses header "
                              f"{1 if impl_res['first'] else 2}, the highest sequence number is in header "
                              f"{1 if case['expect']['first'] else 2}", sig + ":active-header"))
        if impl_res["ntables"] != case["expect"]["ntables"]:
            fs.append(Finding("impl_vs_spec", f"object tables loaded {impl_res['ntables']}, stored "
                              f"{case['expect']['ntables']}", sig + ":ntables"))
        di = impl_res["dict"]
        if di[0] != "ok":
            what = "root-leaf" if case.get("root_leaf") and di[1] == "TypeError" else "exc"
            fs.append(Finding("impl_vs_spec", f"as_dict() raised {di[1]} ({di[2]}) on a well-formed file",
                              f"{sig}:as_dict:{what}:{di[1]}"))
        else:
            d = first_tree_diff(sort_canon(di[1]), exp_tree)
            if d:
                fs.append(Finding("impl_vs_spec", "as_dict() differs from the stored tree at " + d, sig + ":dict"))
        for p, a in zip(case["paths"], impl_res["paths"]):
            e = expected_shape(case["tree"], p)
            if a != e:
                fs.append(Finding("impl_vs_spec", f"item access {p}: implementation {short(a)}, stored {short(e)}",
                                  sig + ":path"))
                break
    # ---------- model vs spec
    if m["open"] is not None:
        fs.append(Finding("model_vs_spec", "model refuses a well-formed file", sig + ":mvs-open"))
    else:
        if m["first"] != case["expect"]["first"] or m["ntables"] != case["expect"]["ntables"]:
            fs.append(Finding("model_vs_spec", "model header/object-table choice differs from the stored one",
                              sig + ":mvs-hdr"))
        if m["dict"][0] != "ok":
            fs.append(Finding("model_vs_spec", "model as_dict fails on a well-formed file", sig + ":mvs-dict-err"))
        else:
            d = first_tree_diff(sort_canon(m["dict"][1]), exp_tree)
            if d:
                fs.append(Finding("model_vs_spec", "model tree differs from the stored tree at " + d, sig + ":mvs-dict"))
            elif m["typed"] != expected_typed(["node", case["tree"]]):
                fs.append(Finding("model_vs_spec", "model value types differ from the stored types", sig + ":mvs-types"))
        for p, b in zip(case["paths"], m["paths"]):
            if b != expected_shape(case["tree"], p):
                fs.append(Finding("model_vs_spec", f"model item access {p} differs from the stored tree", sig + ":mvs-path"))
                break
    return fs


class TreeSuite(Suite):
    name = "tree"
    shard = 10
    per_case_timeout = 20.0
    preamble = PREAMBLE

    def generate(self, rng, tier):
        n = 2500 if tier == "thorough" else 170
        return [gen_case(rng, tier) for _ in range(n)]

    def impl(self, case):
        twin = copy.deepcopy(case)
        for b in twin["blobs"]:
            b["data"] = bytes(x ^ 0x5A for x in bytes.fromhex(b["data"])).hex()
        try:
            sib = open_sparse(twin)
        except Exception:  # noqa: BLE001
            sib = None
        return run_impl(open_sparse(case), case["paths"], sibling=sib)

    def coq_term(self, case):
        size, chunks = build_chunks(case)
        return f"decode {file_term(size, chunks)} {paths_term(case['paths'])}"

    def judge(self, case, impl_res, coq_val):
        return judge_common(case, impl_res, coq_val, "hyperv:tree", True)

    def nontrivial(self, case, impl_res, coq_val):
        d = case["dims"]
        if d["ntab"] >= 2 or d["n_blobs"] or d["n_stale"]:
            size, chunks = build_chunks(case)
            return core.sha(b"".join(struct.pack("<Q", o) + b for o, b in chunks))
        return None

    def dist(self, case):
        d = dict(case["dims"])
        d["n_entries"] = "0" if d["n_entries"] == 0 else "1-5" if d["n_entries"] <= 5 else "6-20" if d["n_entries"] <= 20 else ">20"
        d["ntab"] = str(d["ntab"]) if d["ntab"] <= 3 else "4+"
        d["n_blobs"] = min(d["n_blobs"], 3)
        d["n_stale"] = min(d["n_stale"], 3)
        d["align"] = case["align"]
        d["root_leaf"] = case["root_leaf"]
        kinds = set()

        def coll(ch):
            for _, t in ch:
                kinds.add(t[0])
                if t[0] == "node":
                    coll(t[1])
        coll(case["tree"])
        d["value_kinds"] = len(kinds - {"node"})
        return d

    def describe(self, case):
        return case


# ============================================================================ malformed / adversarial stream
MUTATIONS = ["trunc", "hdr_tie", "hdr_badsig", "hdr_badver", "rlog_badsig", "rlog_many", "otab_badsig", "otab_count",
             "otab_cycle", "ktab_badsig", "ktab_seq_tie", "entry_size0", "entry_small", "entry_big", "doff0", "doff_big",
             "bad_utf8", "bad_utf16", "type_unknown", "dangling_parent", "parent_free", "self_parent", "cycle2",
             "dup_key", "fop_unknown", "fop_big", "fop_scalar", "inline_len_big", "tail_short", "flip", "file_dup",
             "leaf_parent", "free_size0"]


def _live(case):
    """[(table, entry)] of non-free entries of every key table"""
    return [(t, e) for t in case["ktabs"] for e in t["entries"] if (e["type"] & 0xFF) != T_FREE]


def mutate(rng, base, name):
    c = copy.deepcopy(base)
    c["mutation"] = name
    c.pop("expect", None)
    live = _live(c)
    ok = True
    if name == "trunc":
        marks = [0x1000, 0x2000, 0x2008] + [t["off"] + d for t in c["ktabs"] for d in (0, 5, 10, 20, t["size"] - 1, t["size"])]
        marks += [b["off"] + len(b["data"]) // 2 - 1 for b in c["blobs"]] + [r["off"] + 20 for r in c["rlogs"]]
        marks += [t["off"] + 8 + 18 * len(t["entries"]) - 1 for t in c["otabs"]]
        c["fsize"] = max(0, min(c["fsize"], rng.pick(marks) + rng.pick([0, 0, 1, -1])))
    elif name == "hdr_tie":
        act = [h for h in c["hdrs"] if h is not None and h["sig"] == SIG_HDR and h["ver"] == 0x400][0]
        c["hdrs"] = [dict(act), dict(act)]
        c["hdrs"][rng.randrange(2)]["rlo"] = rng.pick([0, act["rlo"], c["fsize"] + 7])
    elif name in ("hdr_badsig", "hdr_badver"):
        i = max(range(2), key=lambda k: -1 if c["hdrs"][k] is None else c["hdrs"][k]["seq"])
        if name == "hdr_badsig":
            c["hdrs"][i]["sig"] ^= 1 << rng.randrange(32)
        else:
            c["hdrs"][i]["ver"] = rng.pick([0x300, 0x401, 0x3FF, 0, 0x10400])
    elif name == "rlog_badsig":
        rng.pick(c["rlogs"])["sig"] ^= 1 << rng.randrange(32)
    elif name == "rlog_many":
        r = rng.pick(c["rlogs"])
        r["present"] = r["n"]
        r["n"] = rng.pick([r["n"] + 1, 1000, 0xFFFFFFFF, (c["fsize"] - r["off"] - 34) // 28 + rng.pick([0, 1])])
        r["n"] = max(0, r["n"])
    elif name == "otab_badsig":
        rng.pick(c["otabs"])["sig"] ^= 1 << rng.randrange(32)
    elif name == "otab_count":
        t = rng.pick(c["otabs"])
        t["n"] = rng.pick([len(t["entries"]) + 1, len(t["entries"]) + 40, 0xFFFFFFFF, max(0, len(t["entries"]) - 1), 0])
    elif name == "otab_cycle":
        t = rng.pick(c["otabs"])
        tgt = rng.pick([t["off"], 0x2000, rng.pick(c["otabs"])["off"]])
        if rng.chance(0.5):
            # ... or an offset that is not on the file's alignment, just below a table (a reader that rounds offsets up
            # would land on that table again without recognising it)
            tgt = max(0x1100, (t["off"] if rng.chance(0.7) else tgt) - rng.pick([1, 8, 0x800, 0xEFF]))
        t["entries"].insert(rng.randint(0, len(t["entries"])), {"type": O_OTAB, "off": tgt, "size": 0x1000, "alloc": 1})
        # keep the table inside its region: drop an ignored trailing entry if there is one, else accept overlap
        if any(e["alloc"] == 0 for e in t["entries"]):
            t["entries"].remove([e for e in t["entries"] if e["alloc"] == 0][0])
        else:
            ok = t is c["otabs"][0] and False
    elif name == "ktab_badsig":
        rng.pick(c["ktabs"])["sig"] = rng.pick([0, 1, 3, 0x0200, 0xFFFF])
    elif name == "ktab_seq_tie":
        idx = rng.pick(c["ktabs"])["index"]
        same = [t for t in c["ktabs"] if t["index"] == idx]
        if len(same) < 2:
            ok = False
        for t in same:
            t["seq"] = same[0]["seq"]
    elif name in ("entry_size0", "entry_small", "entry_big", "doff0", "doff_big", "type_unknown", "self_parent",
                  "dangling_parent", "fop_scalar", "leaf_parent"):
        if not live:
            ok = False
        else:
            t, e = rng.pick(live)
            if name == "entry_size0":
                e["size"] = 0
            elif name == "entry_small":
                e["size"] = rng.randint(1, 21)
            elif name == "entry_big":
                e["size"] = rng.pick([t["size"] - e["off"] + 1, t["size"], 0xFFFFFFFF, e["size"] + 1])
            elif name == "doff0":
                e["doff"] = 0
            elif name == "doff_big":
                e["doff"] = rng.pick([255, e["doff"] + 1, max(0, e["size"] - 21), max(0, e["size"] - 20), e["doff"] - 1])
                e["doff"] = max(0, min(255, e["doff"]))
            elif name == "type_unknown":
                e["type"] = (e["type"] & 0xFF00) | rng.pick([0, 2, 10, 200, 255])
            elif name == "self_parent":
                e["pidx"], e["poff"] = t["index"], e["off"]
            elif name == "dangling_parent":
                if rng.chance(0.5):
                    e["pidx"] = rng.pick([x for x in range(1, 70000 if False else 65536)
                                          if x not in {k["index"] for k in c["ktabs"]}][:50])
                else:
                    e["pidx"] = e["pidx"] or t["index"]
                    e["poff"] = e["poff"] + rng.pick([1, -1, 21, 1 << 20])
                    e["poff"] = max(0, e["poff"])
            elif name == "fop_scalar":
                e["type"] |= 0x100
            else:
                leaves = [(tt, ee) for tt, ee in live if (ee["type"] & 0xFF) != T_NODE and ee is not e]
                if not leaves:
                    ok = False
                else:
                    tt, ee = rng.pick(leaves)
                    e["pidx"], e["poff"] = tt["index"], ee["off"]
    elif name == "cycle2":
        nodes = [(t, e) for t, e in live if (e["type"] & 0xFF) == T_NODE]
        if len(nodes) < 2:
            ok = False
        else:
            (t1, e1), (t2, e2) = rng.sample(nodes, 2)
            e1["pidx"], e1["poff"] = t2["index"], e2["off"]
            e2["pidx"], e2["poff"] = t1["index"], e1["off"]
    elif name == "free_size0":
        # a free slot of size 0: the walk over the table must still end (a zero size ends the table for every type)
        frees = [(t, e) for t in c["ktabs"] for e in t["entries"] if (e["type"] & 0xFF) == T_FREE]
        if not frees:
            ok = False
        else:
            tf, ef = rng.pick(frees)
            ef["size"] = 0
    elif name == "parent_free":
        frees = [(t, e) for t in c["ktabs"] for e in t["entries"] if (e["type"] & 0xFF) == T_FREE]
        if not frees or not live:
            ok = False
        else:
            tf, ef = rng.pick(frees)
            _, e = rng.pick(live)
            e["pidx"], e["poff"] = tf["index"], ef["off"]
    elif name == "bad_utf8":
        cand = [(t, e) for t, e in live if e["doff"] >= 2]
        if not cand:
            ok = False
        else:
            t, e = rng.pick(cand)
            body = bytearray.fromhex(e["body"])
            klen = e["doff"] - 1
            bad = rng.pick([b"\xff", b"\xc0\x80", b"\xed\xa0\x80", b"\xe2\x82", b"\xf4\x90\x80\x80", b"\x80", b"\xf0\x80\x80\x80",
                            b"\xc2", b"\xe0\x9f\xbf", b"\xf8\x88\x80\x80\x80"])
            bad = bad[:klen]
            pos = rng.pick([0, klen - len(bad)])
            body[pos:pos + len(bad)] = bad
            e["body"] = bytes(body).hex()
    elif name == "bad_utf16":
        cand = [(t, e) for t, e in live if (e["type"] & 0xFF) == T_STRING and not (e["type"] & 0x100)]
        if not cand:
            ok = False
        else:
            t, e = rng.pick(cand)
            body = bytearray.fromhex(e["body"])
            d = e["doff"]
            n = struct.unpack_from("<I", body, d)[0]
            kind = rng.pick(["odd", "lone_hi", "lone_lo", "swapped"])
            if kind == "odd" or n < 4:
                struct.pack_into("<I", body, d, n + 1 if n + 1 <= len(body) - d - 4 else max(1, n - 1))
            elif kind == "lone_hi":
                body[d + 4 + n - 2:d + 4 + n] = struct.pack("<H", 0xD800 + rng.randrange(0x400))
            elif kind == "lone_lo":
                body[d + 4:d + 6] = struct.pack("<H", 0xDC00 + rng.randrange(0x400))
            else:
                body[d + 4:d + 8] = struct.pack("<HH", 0xDC00, 0xD800)
            e["body"] = bytes(body).hex()
    elif name == "dup_key":
        done = False
        for _ in range(20):
            if len(live) < 2:
                break
            (t1, e1), (t2, e2) = rng.sample(live, 2)
            if (e1["pidx"], e1["poff"] if e1["pidx"] else 0) == (e2["pidx"], e2["poff"] if e2["pidx"] else 0) \
                    and e1["doff"] == e2["doff"] and e1["doff"] > 1:
                b1, b2 = bytearray.fromhex(e1["body"]), bytes.fromhex(e2["body"])
                b1[:e1["doff"] - 1] = b2[:e2["doff"] - 1]
                e1["body"] = bytes(b1).hex()
                done = True
                break
        ok = done
    elif name in ("fop_unknown", "fop_big"):
        cand = [(t, e) for t, e in live if e["type"] & 0x100 and (e["type"] & 0xFF) in (T_STRING, T_ARRAY)]
        if not cand:
            ok = False
        else:
            t, e = rng.pick(cand)
            body = bytearray.fromhex(e["body"])
            d = e["doff"]
            size, off = struct.unpack_from("<IQ", body, d)
            if name == "fop_unknown":
                off = rng.pick([off + 1, 0, off + c["align"], 1 << 63])
            else:
                size = rng.pick([size + c["align"] * 3 + 2, 0xFFFFFFFF, size + 2 * c["align"] + 1])
            struct.pack_into("<IQ", body, d, size, off)
            e["body"] = bytes(body).hex()
    elif name == "inline_len_big":
        cand = [(t, e) for t, e in live if (e["type"] & 0xFF) in (T_STRING, T_ARRAY) and not (e["type"] & 0x100)]
        if not cand:
            ok = False
        else:
            t, e = rng.pick(cand)
            body = bytearray.fromhex(e["body"])
            n = struct.unpack_from("<I", body, e["doff"])[0]
            struct.pack_into("<I", body, e["doff"], rng.pick([n + 2, n + 100, 0xFFFFFFFE, len(body)]))
            e["body"] = bytes(body).hex()
    elif name == "tail_short":
        t = rng.pick(c["ktabs"])
        end = max([10] + [e["off"] + e["size"] for e in t["entries"]])
        t["entries"] = [e for e in t["entries"] if e["off"] + e["size"] <= end]
        slack = rng.randint(1, 20)
        t["size"] = end + slack
        for o in c["otabs"]:
            for e in o["entries"]:
                if e["type"] == O_KTAB and e["off"] == t["off"] and e["alloc"]:
                    e["size"] = t["size"]
    elif name == "flip":
        size, chunks = build_chunks(c)
        chunks = [ch for ch in chunks if len(ch[1])]
        c["patches"] = []
        for _ in range(rng.randint(1, 3)):
            off, data = rng.pick(chunks)
            pos = rng.randrange(len(data))
            c["patches"].append({"off": off + pos, "data": bytes([data[pos] ^ (1 << rng.randrange(8))]).hex()})
    elif name == "file_dup":
        files = [(o, e) for o in c["otabs"] for e in o["entries"] if e["type"] == O_FILE and e["alloc"]]
        if not files:
            ok = False
        else:
            o, e = rng.pick(files)
            dup = dict(e, size=rng.pick([0, 1, max(0, e["size"] - c["align"]), e["size"] + c["align"]]))
            o2 = c["otabs"][0] if rng.chance(0.5) else o
            o2["entries"].insert(rng.randint(0, len(o2["entries"])), dup)
            o2["entries"] = o2["entries"]
            # overlapping the next region is accepted: later writes win in the writer
    for t in c["ktabs"]:
        t["seq"] &= 0xFFFF
        for e in t["entries"]:
            e["poff"] &= 0xFFFFFFFF
            e["pidx"] &= 0xFFFF
            e["size"] &= 0xFFFFFFFF
            e["doff"] &= 0xFF
            e["type"] &= 0xFFFF
    for o in c["otabs"]:
        if "n" in o:
            o["n"] &= 0xFFFFFFFF
        for e in o["entries"]:
            e["size"] &= 0xFFFFFFFF
            e["off"] &= 0xFFFFFFFFFFFFFFFF
    for r in c["rlogs"]:
        r["n"] &= 0xFFFFFFFF
    return c if ok else None


class MalSuite(Suite):
    name = "mal"
    shard = 10
    per_case_timeout = 6.0
    preamble = PREAMBLE

    def generate(self, rng, tier):
        n = 1800 if tier == "thorough" else 130
        out = []
        k = 0
        while len(out) < n:
            base = gen_case(rng, tier)
            if base["dims"]["high"]:
                # a corrupted 32-bit size on a multi-GiB sparse file makes the implementation allocate GiBs: C11's scope
                continue
            name = MUTATIONS[k % len(MUTATIONS)]
            k += 1
            if name == "otab_cycle" and tier != "thorough" and sum(1 for c in out if c["mutation"] == "otab_cycle") >= 5:
                continue
            m = mutate(rng, base, name)
            if m is not None:
                out.append(m)
        return out

    def impl(self, case):
        return run_impl(open_sparse(case), case["paths"])

    def coq_term(self, case):
        size, chunks = build_chunks(case)
        return f"decode {file_term(size, chunks)} {paths_term(case['paths'])}"

    def judge(self, case, impl_res, coq_val):
        return judge_common(case, impl_res, coq_val, "hyperv:mal", False)

    def nontrivial(self, case, impl_res, coq_val):
        if impl_res.get("outcome"):
            return None
        size, chunks = build_chunks(case)
        return core.sha(b"".join(struct.pack("<Q", o) + b for o, b in chunks))

    def dist(self, case):
        return {"mutation": case["mutation"]}

    def describe(self, case):
        return case


# ============================================================================ raw files (real samples, hex corpora)
def raw_chunks(data: bytes):
    return len(data), split_run(0, data)


class RawSuite(Suite):
    """cases: {"sample": "test.vmcx"} (read from <repo>/tests/data) or {"hex": "<file bytes>"}; optional "paths",
    optional "expect_version_value" (configuration/properties/version)."""
    name = "raw"
    shard = 1
    per_case_timeout = 6.0
    preamble = PREAMBLE

    def _data(self, case):
        if "hex" in case:
            return bytes.fromhex(case["hex"])
        with open(os.path.join(core.REPO, "tests", "data", case["sample"]), "rb") as fh:
            return fh.read()

    def generate(self, rng, tier):
        p = [["configuration"], ["configuration", "properties", "version"], ["configuration", "properties"],
             ["configuration", "nope"], ["configuration", "global_settings", "metrics", "devicetype", "guid"]]
        return [{"sample": "test.vmcx", "paths": p, "expect_version_value": 2304},
                {"sample": "test.VMRS", "paths": p, "expect_version_value": 2304}]

    def impl(self, case):
        data = self._data(case)
        return run_impl(core.SparseFile(len(data), {0: data}, fill="zero"), case.get("paths", []))

    def coq_term(self, case):
        size, chunks = raw_chunks(self._data(case))
        return f"decode {file_term(size, chunks)} {paths_term(case.get('paths', []))}"

    def judge(self, case, impl_res, coq_val):
        case = dict(case, paths=case.get("paths", []))
        fs = judge_common(case, impl_res, coq_val, "hyperv:raw", False)
        if "expect_version_value" in case and not impl_res.get("outcome"):
            want = ["leaf", ["i", case["expect_version_value"]]]
            if impl_res["open"] is not None or impl_res["paths"][1] != want:
                fs.append(Finding("impl_vs_spec", f"sample {case.get('sample')}: configuration/properties/version is not "
                                  f"{case['expect_version_value']}", "hyperv:raw:sample-version"))
            m = model_view(coq_val)
            if m["open"] is not None or m["paths"][1] != want:
                fs.append(Finding("model_vs_spec", f"sample {case.get('sample')}: model does not find the version",
                                  "hyperv:raw:mvs-sample"))
        return fs

    def nontrivial(self, case, impl_res, coq_val):
        return case.get("sample") or core.sha(case["hex"].encode())

    def dist(self, case):
        return {"kind": "sample" if "sample" in case else "hex"}

    def describe(self, case):
        return case


SUITES = {"tree": TreeSuite(), "mal": MalSuite(), "raw": RawSuite()}
