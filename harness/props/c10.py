"""C10 — Descriptor-driven multi-extent assembly and size accounting (VMDK descriptors, handle lists, Parallels storages)."""
from __future__ import annotations

import os
import shutil

from harness import core
from harness.core import Z, zlist
from harness.main import Finding, Suite
from harness.props import c02, c06
from harness.readers import call, judge_read

PROPERTY = "C10"
PROPS_FILE = "Props/C10.v"
MODEL_FILES = ["Model/Vmdk.v", "Model/VmdkDesc.v", "Model/Hdd.v", "Proofs/Layers.v"]
META = {
    "category": "proof",
    "text": "Coq theorems: the parent-aware assembly of a split snapshot disk is the assembly proved about when there is no parent (assemble_p_no_parent; with a parent the multi-extent model reads absent grains from the parent at the sector of the DISK, validated three-way); Parallels StorageStream: size = end of the last storage, a read across any number of storages is the concatenation at storage-relative offsets, and the whole .hdd (storages x per-storage snapshot chains, Model/Hdd.v) reads as specified; the model of DiskDescriptor.parse + a backtracking matcher for RE_EXTENT_DESCRIPTOR (alternatives "
            "read from the source), ExtentDescriptor, the extent wiring of VMDK.__init__ (type lists read from the source), "
            "the offset bookkeeping, bisect lookup and the walk of VMDK.read_sectors, and StorageStream: a disk assembled from "
            "extents reads as their concatenation, its size is the sum, every data-bearing extent type of the grammar is wired "
            "and in the grammar, reads crossing extent boundaries and ending at the end succeed; the 13 pinned regex cases hold "
            "of the matcher; tied to the code by generated tables and differential correspondence on descriptors written to a "
            "scratch directory (file names with spaces, quotes, non-ASCII).",
    "design_ref": "DESIGN.md §6 C10",
    "note": "Trusted: Coq kernel; hand-written models Model/VmdkDesc.v, Model/Vmdk.v (of the code with fixes/C02-*, C10-* applied); "
            "Python re / str.strip / split / partition / bisect_right / sorted are modelled, validated by correspondence only; "
            "\\d is modelled for ASCII, Arabic-Indic and fullwidth digits, \\s for the complete str.isspace set.",
    "technique": "Coq proof of model-refines-spec + generated tables + differential correspondence",
    "rule": "descriptors: 1..6 extents of kinds FLAT/VMFS/SPARSE/VMFSSPARSE/SESPARSE, raw sizes 1..5000 sectors, start sectors 0 or "
            "not, access modes, CRLF/blank/comment lines, names from a pool with spaces, inner quotes, backslashes, non-ASCII and "
            "emoji; also explicit handle lists; requests straddling every boundary and the tail. Non-trivial = some request spans "
            ">= 2 extents or >= 2 source kinds. parse suite: extent lines rendered from fields + the pinned and malformed lines.",
    "trusted_base": ["Model/VmdkDesc.v is hand-written (correspondence-checked, not proved against Python)",
                     "Python re semantics for the subset used by RE_EXTENT_DESCRIPTOR (hand-written backtracking matcher)"],
    "assumptions": ["extents named in a descriptor have at least one sector and a size that is a multiple of 512",
                    "file names neither start nor end with a double quote; trailing extent fields contain no double quote"],
}

SECTOR = 512
SCRATCH = "/work/c10_scratch"

NAMES = ["disk-s001.vmdk", "disk-flat.vmdk", "disk with spaces.vmdk", "a b  c.vmdk", "this is an example \"' diskëäô:)\\'`foo.vmdk",
         "🦊 🦊 🦊.vmdk", "inner\"quote.vmdk", "tab\there.vmdk", "x", "ünï cödé-f002.vmdk", "café 中文.vmdk",
         "semi;colon=equals.vmdk", "#hash.vmdk", "RW 5 FLAT.vmdk", "quote\" 12 tail.vmdk",
         # characters that str.splitlines() treats as line boundaries but split("\n") does not
         "line\u2028sep a b.vmdk", "nel\x85 x y z.vmdk", "vt\x0bff\x0c a b.vmdk", "fs\x1cgs\x1d b c.vmdk", "ps\u2029 one two.vmdk"]
TYPES_DATA = ["FLAT", "VMFS", "SPARSE", "VMFSSPARSE", "SESPARSE"]


def cps(s: str) -> str:
    return zlist([ord(c) for c in s])


# ----------------------------------------------------------------------------- generator: multi-extent disks
def gen_extent(rng, tier, idx):
    t = rng.weighted([("FLAT", 4), ("VMFS", 2), ("SPARSE", 3), ("VMFSSPARSE", 1), ("SESPARSE", 2)])
    e = {"type": t, "access": rng.weighted([("RW", 5), ("RDONLY", 1), ("NOACCESS", 1)])}
    if t in ("FLAT", "VMFS"):
        n = rng.weighted([(1, 1), (3, 1), (16, 1), (17, 2), (100, 2), (700, 1), (rng.randint(1, 5000), 1)])
        e["sectors"] = n
        e["start"] = rng.weighted([(0, 5), (None, 2), (rng.randint(1, 64), 2)]) if t == "FLAT" else \
            rng.weighted([(None, 3), (0, 2)])
        e["salt"] = rng.randrange(1 << 30)
        e["fsize"] = (n + (e["start"] or 0)) * SECTOR + rng.pick([0, 0, 512])
        if rng.chance(0.2):
            # guest data is opaque: a flat extent's first sectors may look like any container (its kind is what the
            # descriptor line says, never what the data looks like)
            e["head"] = rng.pick([b"KDMV\x01\0\0\0\x03\0\0\0", b"COWD\x01\0\0\0\x03\0\0\0", bytes.fromhex("bebafeca00000000"),
                                  b"# Disk DescriptorFile\nversion=1\n", b"conectix", b"vhdxfile", b"QFI\xfb\0\0\0\x03"]).hex()
    else:
        kind = {"SPARSE": "hosted", "VMFSSPARSE": "cowd", "SESPARSE": "sesparse"}[t]
        for _ in range(50):
            sc = c02.gen_sparse(rng, tier, kind)
            if not sc["huge"] and sc["fsize"] < 3_000_000:
                break
        sc["reqs"] = []
        e["sparse"] = sc
        e["sectors"] = sc["capacity"]
        e["start"] = None
    if rng.chance(0.15) and e["start"] is not None:
        e["tail"] = rng.pick(["part-uuid", "part-uuid device-id", "4d3c-uuid dev/1"])
    return e


def render_line(e):
    s = f'{e["access"]} {e["sectors"]} {e["type"]} "{e["name"]}"'
    if e.get("start") is not None:
        s += f' {e["start"]}'
    if e.get("tail"):
        s += " " + e["tail"]
    return s


def gen_multi(rng, tier):
    mode = rng.weighted([("descriptor", 5), ("handles", 1)])
    n = rng.weighted([(1, 1), (2, 3), (3, 3), (4, 2), (5, 1), (6, 1)])
    names = list(NAMES)
    rng.shuffle(names)
    exts = []
    for i in range(n):
        e = gen_extent(rng, tier, i)
        e["name"] = names[i]
        if mode == "handles" and e["type"] in ("FLAT", "VMFS"):
            e["start"] = None
            e.pop("tail", None)
            e.pop("head", None)          # bare handles carry no descriptor: there the data's magic is all there is
            e["fsize"] = e["sectors"] * SECTOR
        exts.append(e)
    c = {"mode": mode, "extents": exts, "salt": rng.randrange(1 << 30)}
    flats = [i for i, e in enumerate(exts) if e["type"] == "FLAT"]
    shared = None
    if mode == "descriptor" and len(flats) >= 2 and rng.chance(0.35):
        # two extents carved out of one flat file at different start sectors
        i, j = rng.sample(flats, 2)
        a, b = exts[i], exts[j]
        a["start"] = a["start"] or 0
        b["start"] = rng.weighted([(a["start"] + a["sectors"], 3), (a["start"] + a["sectors"] + rng.randint(1, 9), 2),
                                   (max(0, a["start"] - rng.randint(0, 5)), 1)])
        b["name"], b["salt"] = a["name"], a["salt"]
        a["fsize"] = b["fsize"] = max(a["start"] + a["sectors"], b["start"] + b["sectors"]) * SECTOR
        if "head" in a or "head" in b:
            a["head"] = b["head"] = a.get("head") or b.get("head")
        shared = (i, j)
    if mode == "descriptor" and any("sparse" in e for e in exts) and rng.chance(0.35):
        # a snapshot (delta) disk split over several extents: what an extent does not hold comes from the parent disk, at
        # the sector of the DISK (not of the extent)
        c["parent"] = {"salt": rng.randrange(1 << 30), "cid": "%08x" % rng.randrange(1, 0xFFFFFFFF)}
    if mode == "descriptor":
        eol = rng.pick(["\n", "\n", "\r\n"])
        lines = ["# Disk DescriptorFile", "version=1", "CID=" + "%08x" % rng.randrange(1 << 32),
                 "parentCID=" + (c["parent"]["cid"] if c.get("parent") else "ffffffff")] + \
                ([rng.pick(['parentFileNameHint="parent disk.vmdk"', 'parentFileNameHint = "parent disk.vmdk"'])] if c.get("parent") else []) + [
                 rng.pick(['createType="twoGbMaxExtentSparse"', 'createType = "vmfs"', 'createType="custom"']), "",
                 "# Extent description"]
        for e in exts:
            pad = rng.pick(["", "", " ", "\t"])
            lines.append(pad + render_line(e) + rng.pick(["", "", " "]))
            if rng.chance(0.1):
                lines.append(rng.pick(["", "# RW 5 FLAT \"ghost.vmdk\" 0", "   "]))
        lines += ["", "# The Disk Data Base", "#DDB", "", 'ddb.adapterType = "ide"', 'ddb.geometry.sectors = "63"']
        c["text"] = eol.join(lines) + eol
        c["desc_name"] = rng.pick(["disk.vmdk", "my disk.vmdk", "dïsk ☃.vmdk"])
    # requests: around every boundary and the tail
    total = sum(e["sectors"] for e in exts)
    bounds = []
    acc = 0
    for e in exts:
        acc += e["sectors"]
        bounds.append(acc)
    reqs = []
    for _ in range(8):
        k = rng.weighted([("sectors", 4), ("raw", 3), ("bytes", 4)])
        b = rng.pick(bounds)
        s = max(0, min(total - 1, b - rng.randint(0, 20)))
        if rng.chance(0.25):
            s = rng.randrange(0, total)
        cnt = max(1, min(total - s, rng.randint(1, 60), 700))
        if rng.chance(0.15):
            cnt = max(1, min(total - s, 700))
        if k == "sectors":
            reqs.append([k, s, cnt])
        elif k == "raw":
            if rng.chance(0.4):
                cnt = min(700, total - s + rng.randint(0, 40))
            reqs.append([k, s * SECTOR, max(1, cnt) * SECTOR])
        else:
            off = s * SECTOR + rng.randrange(0, SECTOR)
            nb = rng.weighted([(rng.randint(0, 700), 2), (cnt * SECTOR + rng.randint(0, 600), 4), (-1 if total - s < 700 else 4096, 1)])
            reqs.append([k, off, nb])
    if shared:
        # alternate between the two extents, each continuing where its own previous request ended
        lo = [0] + bounds
        for step in range(3):
            for i in shared:
                k = min(rng.randint(1, 3), exts[i]["sectors"])
                s = lo[i] + min(step * k, exts[i]["sectors"] - k)
                reqs.append(["sectors", s, k])
    c["reqs"] = reqs
    return c


def extent_file(e):
    """-> (SparseFile, infl map)"""
    if "sparse" in e:
        return c02.build_image(e["sparse"])
    return core.SparseFile(e["fsize"], {0: bytes.fromhex(e["head"])[:e["fsize"]]} if e.get("head") else {}, salt=e["salt"]), {}


def parent_file(case):
    total = sum(e["sectors"] for e in case["extents"])
    return core.SparseFile(total * SECTOR, {}, salt=case["parent"]["salt"])


def write_case_dir(case, d):
    """the descriptor, its extent files and (for a snapshot disk) the parent disk, written into directory d -> descriptor path"""
    for e in case["extents"]:
        fh, _ = extent_file(e)
        with open(os.path.join(d, e["name"]), "wb") as w:
            w.write(fh.content(0, fh.size))
    if case.get("parent"):
        pf = parent_file(case)
        with open(os.path.join(d, "parent disk-flat.vmdk"), "wb") as w:
            w.write(pf.content(0, pf.size))
        with open(os.path.join(d, "parent disk.vmdk"), "w") as w:
            w.write('# Disk DescriptorFile\nversion=1\nCID=%s\nparentCID=ffffffff\ncreateType="monolithicFlat"\n'
                    'RW %d FLAT "parent disk-flat.vmdk" 0\n' % (case["parent"]["cid"], pf.size // SECTOR))
    p = os.path.join(d, case["desc_name"])
    with open(p, "wb") as w:
        w.write(case["text"].encode())
    return p


def mat_with(case, flist):
    """materialiser of an xplan ((extent index, segment) pairs) over the extent files flist"""
    pfile = parent_file(case) if case.get("parent") else None

    def mat(p):
        out = []
        for it in p:
            _, i, seg = it
            fh, infl = flist[i]
            out.append(core.materialise([tuple(seg)], file=fh, infl=lambda d, k, n, infl=infl: infl[d][0][k:k + n],
                                        parent=(lambda o, n: pfile.content(o, n).ljust(n, b"\0")) if pfile else None))
        return b"".join(out)
    return mat


def files_and_intent_terms(case):
    """-> (let-bindings f0.., files list term, intent list term) of a multi-extent case"""
    exts = case["extents"]
    fterms = []
    for e in exts:
        if "sparse" in e:
            fh, _ = c02.build_image(e["sparse"])
            fterms.append(c02.file_term(e["sparse"], fh))
        else:
            fterms.append(f"{{| f_size := {Z(e['fsize'])}; f_hdr := fun _ => []; f_u32 := look []; f_u64 := look [] |}}")
    lets = "".join(f"let f{i} := {t} in " for i, t in enumerate(fterms))
    intent = "; ".join(f"({1 if 'sparse' in e else 0}, f{i}, {Z(e['sectors'] * SECTOR)}, {Z(e.get('start') or 0)})"
                       for i, e in enumerate(exts))
    files = "; ".join(f"({cps(e['name'])}, f{i})" for i, e in enumerate(exts))
    return lets, files, intent


def spec_range(total_sectors, kind, a, b):
    size = total_sectors * SECTOR
    if kind == "sectors":
        return a, b, 0, b * SECTOR
    if kind == "raw":
        want = max(0, min(b, size - a))
        return a // SECTOR, (want + SECTOR - 1) // SECTOR, 0, want
    if a >= size:
        return 0, 0, 0, 0
    n = size - a if b < 0 else min(b, size - a)
    s0 = a // SECTOR
    s1 = (a + n + SECTOR - 1) // SECTOR
    return s0, s1 - s0, a - s0 * SECTOR, n


class MultiSuite(Suite):
    name = "multi"
    shard = 8
    preamble = (c02.VmdkSuite.preamble.replace("Model.Vmdk.", "Model.Vmdk Model.VmdkDesc.") +
                "Definition wk (k : wkind) := match k with WSparse => 1 | WRaw => 0 end.\n"
                "Definition wired_out (d : descriptor) := map (fun w => let '(k, fn, n, st) := w in (wk k, fn, n, st)) (wired d).\n"
                "Definition intent_x (hp : bool) (it : Z * vfile * Z * Z) : res extent := let '(k, f, size, st) := it in "
                "if k =? 1 then (do sp <- open_sparse f; Ok (XSparse f sp hp)) else Ok (XRaw size st).\n"
                "Definition run_case (hp : bool) (files : list (str * vfile)) (text : option str) (intent0 : list (Z * vfile * Z * Z)) "
                "(reqs : list (Z * Z * Z * Z * Z)) :=\n"
                "  let intent_x := intent_x hp in let intent := intent0 in\n"
                "  let vm := match text with Some t => assemble_p files t | None => (do xs <- all_ok (map intent_x intent); Ok (mk_vmdk xs)) end in\n"
                "  let dout := match text with Some t => let d := parse_descriptor t in (d_sectors d, wired_out d) | None => (0, []) end in\n"
                "  match all_ok (map intent_x intent) with\n"
                "  | Ok xs => let vi := mk_vmdk xs in\n"
                "    (Ok (v_size vi, match vm with Ok v => Ok (v_size v, v_sector_count v) | Err => Err | Fuel => Fuel end, dout),\n"
                "     map (fun r => let '(k, a, b, so, cnt) := r in\n"
                "       ((if k =? 0 then (do v <- vm; vmdk_read_sectors v a b) else if k =? 1 then (do v <- vm; vmdk_read v a b) else Err),\n"
                "        xspec_plan (v_disks vi) so cnt)) reqs)\n"
                "  | Err => (Err, []) | Fuel => (Fuel, []) end.\n")

    def generate(self, rng, tier):
        n = 700 if tier == "thorough" else 60
        return [gen_multi(rng, tier) for _ in range(n)]

    # -- implementation
    def impl(self, case):
        from dissect.hypervisor.disk.vmdk import VMDK
        out = {"open": None, "reqs": []}
        d = os.path.join(SCRATCH, f"{os.getpid()}")
        shutil.rmtree(d, ignore_errors=True)
        os.makedirs(d)
        try:
            try:
                if case["mode"] == "descriptor":
                    from pathlib import Path
                    v = VMDK(Path(write_case_dir(case, d)))
                else:
                    v = VMDK([extent_file(e)[0] for e in case["extents"]])
            except Exception as e:  # noqa: BLE001
                import traceback
                where = ""
                for fr in reversed(traceback.extract_tb(e.__traceback__)):
                    if "hypervisor" in fr.filename:
                        where = f"{fr.name}:{fr.lineno}"
                        break
                out["open"] = {"outcome": "exc", "exc": type(e).__name__, "msg": str(e)[:200], "where": where}
                return out
            out["size"] = int(v.size)
            out["sector_count"] = int(v.sector_count)
            out["disks"] = [[type(x).__name__, int(x.size), int(x.sector_count)] for x in v.disks]
            if v.descriptor is not None:
                out["desc_sectors"] = int(v.descriptor.sectors)
                out["desc_types"] = [x.type for x in v.descriptor.extents]
            for kind, a, b in case["reqs"]:
                if kind == "sectors":
                    out["reqs"].append(call(v.read_sectors, a, b))
                elif kind == "raw":
                    out["reqs"].append(call(v._read, a, b))
                else:
                    def f(a=a, b=b):
                        v.seek(a)
                        r = v.read(b)
                        return r if v.tell() == a + len(r) else {"outcome": "exc", "exc": "PositionError",
                                                                 "msg": f"tell {v.tell()} after reading {len(r)} at {a}"}
                    out["reqs"].append(call(f))
            for x in v.disks:
                try:
                    x.fh.close()
                except Exception:  # noqa: BLE001
                    pass
            return out
        finally:
            shutil.rmtree(d, ignore_errors=True)

    # -- Coq
    def coq_term(self, case):
        exts = case["extents"]
        total = sum(e["sectors"] for e in exts)
        fterms = []
        for e in exts:
            if "sparse" in e:
                fh, _ = c02.build_image(e["sparse"])
                fterms.append(c02.file_term(e["sparse"], fh))
            else:
                fterms.append(f"{{| f_size := {Z(e['fsize'])}; f_hdr := fun _ => []; f_u32 := look []; f_u64 := look [] |}}")
        lets = "".join(f"let f{i} := {t} in " for i, t in enumerate(fterms))
        intent = "; ".join(f"({1 if 'sparse' in e else 0}, f{i}, {Z(e['sectors'] * SECTOR)}, {Z(e.get('start') or 0)})"
                           for i, e in enumerate(exts))
        reqs = []
        for kind, a, b in case["reqs"]:
            s0, cnt, _, _ = spec_range(total, kind, a, b)
            code = {"sectors": 0, "raw": 1, "bytes": 2}[kind]
            reqs.append(f"({code}, {Z(a)}, {Z(b)}, {Z(s0 * SECTOR)}, {Z(cnt)})")
        if case["mode"] == "descriptor":
            files = "; ".join(f"({cps(e['name'])}, f{i})" for i, e in enumerate(exts))
            text = f"(Some {cps(case['text'])})"
        else:
            files = ""
            text = "None"
        hp = "true" if case.get("parent") else "false"
        return f"{lets}run_case {hp} [{files}] {text} [{intent}] [" + "; ".join(reqs) + "]"

    # -- judge
    def judge(self, case, impl_res, coq_val):
        fs = []
        exts = case["extents"]
        total = sum(e["sectors"] for e in exts)
        mode = case["mode"]
        if impl_res.get("outcome"):
            return [Finding("impl_fault", f"implementation {impl_res['outcome']}: {impl_res.get('detail', '')}",
                            f"vmdk:{mode}:open:" + impl_res["outcome"])]
        _, head, items = coq_val
        hres = core.res_of(head)
        if hres[0] != "ok":
            return [Finding("coq_error", "the intended extents do not open in the model (generator produced a bad image)")]
        _, spec_size, model_v, (_, d_sectors, wired) = hres[1]
        mres = core.res_of(model_v)
        if impl_res["open"] is not None:
            o = impl_res["open"]
            fs.append(Finding("impl_vs_spec", f"opening a well-formed {mode} failed: {o['exc']} at {o['where']} ({o['msg'][:80]})",
                              f"vmdk:{mode}:open:exc:{o['exc']}"))
            if mres[0] == "ok":
                fs.append(Finding("impl_vs_model", "model assembles the disk, implementation raises", f"vmdk:{mode}:open:model"))
            return fs
        # which extents did the implementation keep?
        files = [extent_file(e) for e in exts]
        if mode == "descriptor":
            kept_model = ["".join(chr(c) for c in w[2]) for w in wired]
            dropped = [e for e in exts if e["name"] not in kept_model]
            if len(impl_res["disks"]) != len(exts):
                types = sorted({e["type"] for e in exts} - set(impl_res.get("desc_types", []))) or \
                    sorted({e["type"] for e in exts})
                fs.append(Finding("impl_vs_spec", f"{len(exts)} data-bearing extents named, {len(impl_res['disks'])} disks assembled "
                                  f"(types not parsed/wired: {types})", "vmdk:descriptor:dropped:" + ",".join(types)))
            if len(kept_model) != len(impl_res["disks"]):
                fs.append(Finding("impl_vs_model", f"model wires {len(kept_model)} extents, implementation {len(impl_res['disks'])}",
                                  "vmdk:descriptor:wiring:model"))
            if dropped and len(impl_res["disks"]) == len(exts):
                fs.append(Finding("model_vs_spec", f"model drops {[e['name'] for e in dropped]}", "vmdk:descriptor:wiring:mvs"))
            if impl_res.get("desc_sectors") != d_sectors:
                fs.append(Finding("impl_vs_model", f"descriptor.sectors {impl_res.get('desc_sectors')} vs model {d_sectors}",
                                  "vmdk:descriptor:sectors:model"))
            by_name = {e["name"]: f for e, f in zip(exts, files)}
            model_files = [by_name.get(n) for n in kept_model]
        else:
            model_files = files
        if impl_res["size"] != total * SECTOR or impl_res["size"] != spec_size:
            fs.append(Finding("impl_vs_spec", f"size {impl_res['size']} != sum of the extents {total * SECTOR}", f"vmdk:{mode}:size"))
        if mres[0] == "ok" and (mres[1][1] != impl_res["size"] or mres[1][2] != impl_res["sector_count"]):
            fs.append(Finding("impl_vs_model", f"model size/sectors {mres[1][1:]} vs implementation "
                              f"{impl_res['size']}/{impl_res['sector_count']}", f"vmdk:{mode}:size:model"))

        mat_spec = mat_with(case, files)
        mat_model = mat_with(case, model_files)
        for (kind, a, b), r, cv in zip(case["reqs"], impl_res["reqs"], items):
            _, model_v, spec_v = cv
            s0, cnt, skip, want = spec_range(total, kind, a, b)
            label = f"{kind}({a},{b})"
            sig = f"vmdk:{mode}:{kind}"
            spec_bytes = mat_spec(spec_v)
            if kind == "bytes":
                exp = spec_bytes[skip:skip + want]
                fs += judge_read(label, r, None, [], want, lambda p, exp=exp: exp, exact_len=True, sig=sig)
            else:
                mr = core.res_of(model_v)
                # judge_read materialises both plans with one function: pre-materialise instead
                mbytes = mat_model(mr[1]) if mr[0] == "ok" else None
                fs += judge_read(label, r, ("ok", [("B", mbytes)]) if mr[0] == "ok" else mr, [("B", spec_bytes)], want,
                                 lambda p: b"".join(x[1] for x in p), exact_len=False, sig=sig)
        return fs

    def nontrivial(self, case, impl_res, coq_val):
        for cv in (coq_val[2] if coq_val else []):
            plan = cv[2]
            if len({it[1] for it in plan}) >= 2 or len({it[2][0] for it in plan}) >= 2:
                return core.sha(core.jdump(case).encode())
        return None

    def dist(self, case):
        exts = case["extents"]
        return {"mode": case["mode"], "n_extents": len(exts), "types": ",".join(sorted({e["type"] for e in exts})),
                "nonzero_start": any((e.get("start") or 0) > 0 for e in exts),
                "odd_names": sum(1 for e in exts if any(ord(ch) > 127 or ch in ' "\\' for ch in e["name"])),
                "tail_fields": any(e.get("tail") for e in exts), "parent": bool(case.get("parent"))}


# ----------------------------------------------------------------------------- parse-only suite
PINNED = [
    'RW 123456789 SPARSE "disk.vmdk"', 'RW 123456789 FLAT "disk-flat.vmdk" 0', "RDONLY 0 ZERO",
    'NOACCESS 123456789 SPARSE "disk-sparse.vmdk" 123 partition-uuid device-id', "RW 1234567890", 'RDONLY "file.vmdk"',
    "NOACCESS", 'RW 1234567890 SPARSE "disk with spaces.vmdk"', 'RW 1234567890 SPARSE "disk with spaces.vmdk" 123',
    'RW 1234567890 SPARSE "disk with spaces.vmdk" 123 part-uuid',
    'RW 1234567890 SPARSE "disk with spaces.vmdk" 123 part-uuid device-id',
    'RW 16777216 SPARSE "this is an example "\\\' diskëäô:)\\\\\\\'`\\foo.vmdk" 123', 'RW 13371337 SPARSE "🦊 🦊 🦊.vmdk"',
]
ALL_TYPES = ["SPARSE", "ZERO", "FLAT", "VMFS", "VMFSSPARSE", "VMFSRDM", "VMFSRAW", "SESPARSE"]


def gen_parse(rng, tier):
    lines = []
    intent = []
    n = rng.randint(1, 6)
    for _ in range(n):
        k = rng.weighted([("good", 6), ("pinned", 2), ("mutant", 3), ("setting", 2)])
        if k == "good":
            e = {"access": rng.pick(["RW", "RDONLY", "NOACCESS"]), "sectors": rng.pick([0, 1, 7, 4192256, 2 ** 40 + 5]),
                 "type": rng.pick(ALL_TYPES), "name": rng.pick(NAMES)}
            e["start"] = rng.pick([None, 0, 123])
            if e["start"] is not None and rng.chance(0.4):
                e["tail"] = rng.pick(["part-uuid", "part-uuid device-id", "ü-uuid d"])
            sectors_txt = str(e["sectors"])
            if rng.chance(0.1):
                sectors_txt = "".join(chr(0x660 + int(ch)) for ch in sectors_txt)      # Arabic-Indic digits
            line = render_line(e | {"sectors": sectors_txt})
            sep = rng.pick([None, None, "\t", " ", " "])
            if sep:
                line = line.replace(" ", sep, 1) if rng.chance(0.5) else line
            lines.append(rng.pick(["", " ", "\t"]) + line + rng.pick(["", "  ", "\r"]))
            intent.append(e if line.startswith(("RW ", "RDONLY ", "NOACCESS ")) else None)
        elif k == "pinned":
            lines.append(rng.pick(PINNED))
            intent.append(None)
        elif k == "mutant":
            base = rng.pick(PINNED[:4] + PINNED[7:])
            m = rng.pick(["drop-quote", "two-spaces", "lower", "extra", "no-space", "trail-quote", "empty-name", "dq"])
            if m == "drop-quote":
                base = base.replace('"', "", 1)
            elif m == "two-spaces":
                base = base.replace(" ", "  ", 1)
            elif m == "lower":
                base = base.replace("SPARSE", "sparse")
            elif m == "extra":
                base += " one two"
            elif m == "no-space":
                base = base.replace(' "', '"', 1)
            elif m == "trail-quote":
                base += ' uu"id'
            elif m == "empty-name":
                base = 'RW 5 FLAT "" 0'
            elif m == "dq":
                base = 'RW 5 FLAT """ 0'
            lines.append(base)
            intent.append(None)
        else:
            lines.append(rng.pick(['createType="monolithicFlat"', "CID = ffff fffe ", 'ddb.adapterType = "ide"', "novalue",
                                   "a=b=c", ' ddb.x="  y " ', "=", "RWX 5 FLAT", "\"quoted\"=\" v \"", "CID=2"]))
            intent.append(None)
    return {"text": "\n".join(lines), "intent": intent}


class ParseSuite(Suite):
    name = "parse"
    shard = 40
    preamble = ("From Coq Require Import ZArith List.\nImport ListNotations.\nOpen Scope Z_scope.\n"
                "From DH Require Import Base.Plan Base.Table Model.Vmdk Model.VmdkDesc.\n"
                "Definition oz (o : option Z) := match o with Some v => [v] | None => [] end.\n"
                "Definition os (o : option str) := match o with Some v => [v] | None => [] end.\n"
                "Definition ext_out (e : extent_desc) := (e_access e, e_sectors e, e_type e, os (e_filename e), oz (e_start e), "
                "os (e_partition e), os (e_device e)).\n"
                "Definition desc_out (d : descriptor) := (map ext_out (d_extents d), d_attr d, d_ddb d, d_sectors d).\n")

    def generate(self, rng, tier):
        n = 3000 if tier == "thorough" else 250
        cases = [{"text": "\n".join(PINNED), "intent": [None] * len(PINNED)}]
        return cases + [gen_parse(rng, tier) for _ in range(n)]

    def impl(self, case):
        from dissect.hypervisor.disk.vmdk import DiskDescriptor

        def cp(s):
            return None if s is None else [ord(c) for c in s]

        d = DiskDescriptor.parse(case["text"])
        return {"extents": [[cp(e.access_mode), int(e.sectors), cp(e.type), cp(e.filename),
                             None if e.start_sector is None else int(e.start_sector), cp(e.partition_uuid),
                             cp(e.device_identifier)] for e in d.extents],
                "attr": sorted([cp(k), cp(v)] for k, v in d.attr.items()),
                "ddb": sorted([cp(k), cp(v)] for k, v in d.ddb.items()), "sectors": int(d.sectors)}

    def coq_term(self, case):
        return f"desc_out (parse_descriptor {cps(case['text'])})"

    def judge(self, case, impl_res, coq_val):
        fs = []
        if impl_res.get("outcome"):
            kind = "impl_fault" if impl_res["outcome"] != "exc" else "impl_vs_model"
            return [Finding(kind, f"DiskDescriptor.parse {impl_res['outcome']}: {impl_res.get('exc')} {impl_res.get('msg', '')[:100]}",
                            "vmdk:parse:" + impl_res["outcome"])]
        _, mext, mattr, mddb, msectors = coq_val

        def opt(l):
            return l[0] if l else None

        mex = [[e[1], e[2], e[3], opt(e[4]), opt(e[5]), opt(e[6]), opt(e[7])] for e in mext]
        if mex != impl_res["extents"]:
            fs.append(Finding("impl_vs_model", f"extents differ: impl {str(impl_res['extents'])[:300]} model {str(mex)[:300]}",
                              "vmdk:parse:extents:model"))
        if sorted([list(k), list(v)] for _, k, v in mattr) != impl_res["attr"] or \
                sorted([list(k), list(v)] for _, k, v in mddb) != impl_res["ddb"]:
            fs.append(Finding("impl_vs_model", "settings/ddb dictionaries differ", "vmdk:parse:dict:model"))
        if msectors != impl_res["sectors"]:
            fs.append(Finding("impl_vs_model", f"sectors {impl_res['sectors']} vs model {msectors}", "vmdk:parse:sectors:model"))
        # specification: every rendered well-formed extent line comes back with its fields
        want = [e for e in case["intent"] if e is not None]
        got = [e for e in impl_res["extents"]]
        # only judge when all extent-like lines of the case were rendered from fields
        if want and len(want) == sum(1 for ln in case["text"].split("\n")
                                     if ln.strip().startswith(("RW ", "RDONLY ", "NOACCESS "))):
            exp = []
            for e in want:
                tail = (e.get("tail") or "").split(" ") if e.get("tail") else []
                exp.append([[ord(c) for c in e["access"]], e["sectors"], [ord(c) for c in e["type"]],
                            [ord(c) for c in e["name"]], e["start"],
                            [ord(c) for c in tail[0]] if len(tail) > 0 else None,
                            [ord(c) for c in tail[1]] if len(tail) > 1 else None])
            if exp != got:
                missing = sorted({"".join(chr(c) for c in x[2]) for x in exp} - {"".join(chr(c) for c in x[2]) for x in got})
                fs.append(Finding("impl_vs_spec", f"rendered extent lines do not parse back: expected {len(exp)} extents, got "
                                  f"{len(got)} (types lost: {missing}); first expected {str(exp[0])[:120]}",
                                  "vmdk:parse:roundtrip:" + ",".join(missing)))
        return fs

    def nontrivial(self, case, impl_res, coq_val):
        if isinstance(impl_res, dict) and impl_res.get("extents"):
            return core.sha(case["text"].encode())
        return None

    def dist(self, case):
        return {"lines": len(case["text"].split("\n")), "rendered": sum(1 for e in case["intent"] if e)}


# ----------------------------------------------------------------------------- Parallels StorageStream
def gen_storage(rng, tier):
    n = rng.randint(1, 6)
    sizes = [rng.weighted([(1, 1), (3, 1), (16, 1), (17, 2), (100, 2), (700, 1), (rng.randint(1, 5000), 1)]) for _ in range(n)]
    starts = []
    acc = 0
    for s in sizes:
        starts.append(acc)
        acc += s
    order = list(range(n))
    rng.shuffle(order)                        # StorageStream sorts by start
    total = acc
    reqs = []
    for _ in range(8):
        k = rng.weighted([("raw", 4), ("bytes", 5)])
        b = rng.pick([st + sz for st, sz in zip(starts, sizes)])
        s = max(0, min(total - 1, b - rng.randint(0, 20)))
        cnt = max(1, min(total - s, rng.randint(1, 60)))
        if k == "raw":
            if rng.chance(0.4):
                cnt = total - s + rng.randint(0, 40)
            reqs.append([k, s * SECTOR, min(cnt, 700) * SECTOR])
        else:
            reqs.append([k, s * SECTOR + rng.randrange(0, SECTOR),
                         rng.weighted([(rng.randint(0, 700), 2), (cnt * SECTOR + rng.randint(0, 600), 4), (-1 if total - s < 700 else 99, 1)])])
    return {"sizes": sizes, "starts": starts, "order": order, "salts": [rng.randrange(1 << 30) for _ in range(n)], "reqs": reqs}


class StorageSuite(Suite):
    name = "storage"
    shard = 40
    preamble = (MultiSuite.preamble +
                "Definition sspec (ss : list (Z * Z)) (off cnt : Z) : xplan := fold_right (fun k acc => "
                "let '(i, s) := storage_src ss 0 (off + k * 512) in xpush i (seg_of_src s 512) acc) [] (zseq 0 cnt).\n")

    def generate(self, rng, tier):
        n = 1500 if tier == "thorough" else 120
        return [gen_storage(rng, tier) for _ in range(n)]

    def _files(self, case):
        # an image may be longer than the range its storage declares (slack behind End belongs to nobody)
        return [core.SparseFile((sz + (sa % 4) * 5) * SECTOR, {}, salt=sa) for sz, sa in zip(case["sizes"], case["salts"])]

    def impl(self, case):
        from types import SimpleNamespace

        from dissect.hypervisor.disk.hdd import StorageStream
        files = self._files(case)
        streams = [(SimpleNamespace(start=case["starts"][i], end=case["starts"][i] + case["sizes"][i]), files[i])
                   for i in case["order"]]
        st = StorageStream(streams)
        out = {"size": int(st.size), "reqs": []}
        for kind, a, b in case["reqs"]:
            if kind == "raw":
                out["reqs"].append(call(st._read, a, b))
            else:
                def f(a=a, b=b):
                    st.seek(a)
                    return st.read(b)
                out["reqs"].append(call(f))
        return out

    def coq_term(self, case):
        ss = "[" + "; ".join(f"({Z(s)}, {Z(s + n)})" for s, n in zip(case["starts"], case["sizes"])) + "]"
        total = sum(case["sizes"])
        items = []
        for kind, a, b in case["reqs"]:
            s0, cnt, _, _ = spec_range(total, kind, a, b)
            spec = f"sspec ss {Z(s0 * SECTOR)} {Z(cnt)}"
            model = f"storage_read ss {Z(a)} {Z(b)}" if kind == "raw" else "(@nil (Z * seg))"
            items.append(f"({model}, {spec})")
        return f"let ss := {ss} in (storage_size ss, [" + "; ".join(items) + "])"

    def judge(self, case, impl_res, coq_val):
        fs = []
        if impl_res.get("outcome"):
            return [Finding("impl_fault" if impl_res["outcome"] != "exc" else "impl_vs_spec",
                            f"StorageStream {impl_res['outcome']}: {impl_res.get('exc')} {impl_res.get('msg', '')[:100]}",
                            "hdd:storage:" + impl_res["outcome"])]
        _, msize, items = coq_val
        total = sum(case["sizes"])
        files = self._files(case)
        if impl_res["size"] != total * SECTOR:
            fs.append(Finding("impl_vs_spec", f"size {impl_res['size']} != sum {total * SECTOR}", "hdd:storage:size"))
        if msize != impl_res["size"]:
            fs.append(Finding("impl_vs_model", f"model size {msize}", "hdd:storage:size:model"))

        def mat(p):
            return b"".join(core.materialise([tuple(it[2])], file=files[it[1]]) for it in p)

        for (kind, a, b), r, cv in zip(case["reqs"], impl_res["reqs"], items):
            _, model_v, spec_v = cv
            s0, cnt, skip, want = spec_range(total, kind, a, b)
            label = f"{kind}({a},{b})"
            sb = mat(spec_v)
            if kind == "bytes":
                exp = sb[skip:skip + want]
                fs += judge_read(label, r, None, [], want, lambda p, exp=exp: exp, exact_len=True, sig="hdd:storage:bytes")
            else:
                fs += judge_read(label, r, ("ok", [("B", mat(model_v))]), [("B", sb)], want,
                                 lambda p: b"".join(x[1] for x in p), exact_len=False, sig="hdd:storage:raw")
        return fs

    def nontrivial(self, case, impl_res, coq_val):
        for cv in (coq_val[2] if coq_val else []):
            if len({it[1] for it in cv[2]}) >= 2:
                return core.sha(core.jdump(case).encode())
        return None

    def dist(self, case):
        return {"n": len(case["sizes"]), "sorted": case["order"] == sorted(case["order"])}


# hdd_split: HDD.open() over 2..4 storages, each with its own snapshot chain (assembly + independence of the storages)
class LongDescriptor(Suite):
    """Descriptors of any length: several hundred extent lines (a disk split into 2 GiB pieces has one per piece; raw device
    mappings list partitions), long file names, long comment or data-base sections in front of or between the extent
    lines.  Specification only (a python oracle of the concatenation): the model's text literal would be 100 KB."""
    name = "long_desc"
    shard = 4
    per_case_timeout = 120.0

    def generate(self, rng, tier):
        out = []
        for k in range(8 if tier == "thorough" else 3):
            shape = ["many", "padded-front", "padded-middle", "long-names"][k % 4] if tier == "thorough" else \
                rng.pick(["many", "padded-front", "padded-middle", "long-names"])
            n = rng.randint(300, 1500) if shape == "many" else rng.randint(3, 40)
            name = ("piece " + "x" * rng.randint(60, 200) + ".vmdk") if shape == "long-names" else "d-flat.vmdk"
            if shape == "long-names":
                n = rng.randint(300, 700)
            exts, start = [], 0
            for _ in range(n):
                k2 = rng.randint(1, 4)
                gap = rng.pick([0, 0, 1, 5])
                exts.append([k2, start + gap])
                start += gap + k2
            pad = rng.randint(66000, 140000) if shape.startswith("padded") else 0
            out.append({"shape": shape, "name": name, "extents": exts, "pad": pad, "fsize": start * SECTOR,
                        "salt": rng.randrange(1 << 30), "eol": rng.pick(["\n", "\r\n"])})
        # a few large extents read with ONE call (40-70 MiB: beyond any per-call cap a reader might think safe)
        for _ in range(2 if tier == "thorough" else 1):
            exts, start = [], 0
            for _ in range(rng.randint(2, 4)):
                k2 = rng.randint(20000, 36000)
                exts.append([k2, start])
                start += k2
            out.append({"shape": "big-read", "name": "big-flat.vmdk", "extents": exts, "pad": 0, "fsize": start * SECTOR,
                        "salt": rng.randrange(1 << 30), "eol": "\n"})
        return out

    def text(self, case):
        padding = []
        while sum(len(x) + 1 for x in padding) < case["pad"]:
            padding.append("# " + "-" * 70)
        head = ["# Disk DescriptorFile", "version=1", "CID=fffffffe", "parentCID=ffffffff", 'createType="custom"', ""]
        lines = ['RW %d FLAT "%s" %d' % (k, case["name"], st) for k, st in case["extents"]]
        if case["shape"] == "padded-front":
            body = head + padding + lines
        elif case["shape"] == "padded-middle":
            h = len(lines) // 2
            body = head + lines[:h] + padding + lines[h:]
        else:
            body = head + lines
        body += ["", "# The Disk Data Base", "#DDB", 'ddb.adapterType = "ide"']
        return case["eol"].join(body) + case["eol"]

    def impl(self, case):
        from pathlib import Path
        from dissect.hypervisor.disk.vmdk import VMDK
        d = os.path.join(SCRATCH, f"{os.getpid()}")
        shutil.rmtree(d, ignore_errors=True)
        os.makedirs(d)
        try:
            fh = core.SparseFile(case["fsize"], {}, salt=case["salt"])
            with open(os.path.join(d, case["name"]), "wb") as w:
                w.write(fh.content(0, fh.size))
            p = os.path.join(d, "disk.vmdk")
            with open(p, "wb") as w:
                w.write(self.text(case).encode())
            try:
                v = VMDK(Path(p))
            except Exception as e:  # noqa: BLE001
                return {"open": f"{type(e).__name__}: {str(e)[:100]}"}
            out = {"open": None, "size": int(v.size), "disks": len(v.disks), "text_len": len(self.text(case).encode())}
            exp = b"".join(fh.content(st * SECTOR, k * SECTOR) for k, st in case["extents"])
            v.seek(0)
            got = v.read()
            out["whole"] = None if got == exp else [core.first_diff(got, exp), len(got), len(exp)]
            tail = v.read_sectors(len(exp) // SECTOR - 1, 1) if exp else b""
            out["tail"] = tail == exp[-SECTOR:]
            for x in v.disks:
                try:
                    x.fh.close()
                except Exception:  # noqa: BLE001
                    pass
            return out
        finally:
            shutil.rmtree(d, ignore_errors=True)

    def judge(self, case, impl_res, coq_val):
        n = len(case["extents"])
        total = sum(k for k, _ in case["extents"]) * SECTOR
        label = f"{case['shape']} descriptor with {n} extents"
        if impl_res.get("outcome"):
            return [Finding("impl_fault", f"{label}: implementation {impl_res['outcome']}", "vmdk:long:" + impl_res["outcome"])]
        if impl_res["open"] is not None:
            return [Finding("impl_vs_spec", f"{label}: open failed: {impl_res['open']}", "vmdk:long:open")]
        fs = []
        if impl_res["disks"] != n or impl_res["size"] != total:
            fs.append(Finding("impl_vs_spec", f"{label} ({impl_res['text_len']} bytes of text): {impl_res['disks']} disks assembled, "
                              f"size {impl_res['size']} (the extents sum to {total})", "vmdk:long:dropped"))
        elif impl_res["whole"] is not None or not impl_res["tail"]:
            fs.append(Finding("impl_vs_spec", f"{label}: reading the whole disk differs from the concatenation of the extents "
                              f"({impl_res['whole']})", "vmdk:long:bytes"))
        return fs

    def nontrivial(self, case, impl_res, coq_val):
        return core.sha(core.jdump(case).encode())

    def dist(self, case):
        return {"shape": case["shape"], "extents": len(case["extents"]) // 100 * 100}



SUITES = {"multi": MultiSuite(), "long_desc": LongDescriptor(), "parse": ParseSuite(), "storage": StorageSuite(), "hdd_split": c06.HddSplit()}
