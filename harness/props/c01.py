"""C01 — QCOW2: every byte range reads as the guest-visible content."""
from __future__ import annotations

import struct
import zlib

from harness import core
from harness.core import Z, zpairs
from harness.main import Finding, Suite
from harness.readers import call, judge_read, keep_alive

PROPERTY = "C01"
PROPS_FILE = "Props/C01.v"
MODEL_FILES = ["Spec/Qcow2.v", "Model/Qcow2.v"]
META = {
    "category": "proof",
    "text": "Coq theorems: the QCOW2 reader model (_yield_runs, count_contiguous_subclusters, _read, _read_compressed, "
            "L2Table.entry/bitmap; index arithmetic, cluster/sub-cluster classification, range types, ctz, derived "
            "geometry and version-2 defaults TRANSLATED from qcow2.py/c_qcow2.py into Gen/Qcow2Fun.v) returns exactly the "
            "guest bytes of the QCOW2 specification (Spec/Qcow2.v, written independently of the code) for every "
            "conformant image, cluster size 2^9..2^21, standard and extended L2, data file, backing file, compressed "
            "clusters, any placement, and every request; the loop terminates for arbitrary tables; the stream back-end "
            "contract holds for aligned requests running past the end.  The model is tied to the code by the translator "
            "and by differential correspondence on generated images (impl vs model vs spec, byte for byte).",
    "design_ref": "DESIGN.md §6 C01",
    "note": "Trusted: Coq kernel; tools/translate_qcow2.py (PyPure -> Gallina); the hand-written loops of Model/Qcow2.v "
            "(correspondence-checked); zlib as an oracle (the theorem is over symbolic Infl sources); cstruct / "
            "AlignedStream / lru_cache behaviour as exercised.",
    "technique": "Coq proof of model-refines-spec over translated helper functions + differential correspondence",
    "rule": "images: cluster_bits 9..21, version 2/3, header_length 72/104/112 (version-2 headers followed by zeros, a "
            "header extension or garbage), standard/extended L2, data file, backing none/short/long/opted-out, per-cluster "
            "type unallocated/zero-plain/zero-alloc/normal/compressed, sub-cluster bitmaps all/none/prefix/suffix/"
            "alternating/random/single-bit, placement ascending/descending/random/gaps/beyond 2^32/beyond 2^44 for "
            "tables and clusters, guest clusters around L2-table boundaries; requests: raw _read (incl. past the end) and "
            "stream seek+read, inside a sub-cluster / crossing sub-cluster, cluster, L2 boundaries / tail / whole. "
            "Non-trivial = some request yields >= 2 segments or >= 2 source kinds; distinct by full case.",
    "trusted_base": ["Model/Qcow2.v loops are hand-written (correspondence-checked, not proved against Python)",
                     "tools/translate_qcow2.py reading of the PyPure subset",
                     "zlib raw inflate (oracle; harness checks plaintext against the generator's own data)"],
    "assumptions": ["file handles behave as io.RawIOBase files (SparseFile stand-in)",
                    "a compressed cluster's stream inflates to at least cluster_size bytes (conformance)"],
}

COPIED = 1 << 63
COMPRESSED = 1 << 62
MAGIC = 0x514649FB


# ----------------------------------------------------------------------------- content helpers
def plain_cluster(seed: int, cs: int, hard: bool = False) -> bytes:
    """compressible but position-dependent plaintext of one cluster (hard: barely compressible — the deflate stream is
    almost a cluster long and can need one sector more than cluster_size / 512)"""
    if hard:
        import random
        pad = min(24 + seed % 700, cs // 8)
        return random.Random(seed * 7919 + cs).randbytes(cs - pad) + bytes(pad)
    base = bytes(((k // 3) * 5 + seed) & 0xFF for k in range(96))
    buf = bytearray((base * (cs // 96 + 1))[:cs])
    for b in range(0, cs, 512):
        buf[b:b + 6] = struct.pack(">HI", seed & 0xFFFF, b // 512)
    return bytes(buf)


def deflate_raw(data: bytes) -> bytes:
    c = zlib.compressobj(6, zlib.DEFLATED, -12)
    return c.compress(data) + c.flush()


def geometry(case):
    cb = case["cluster_bits"]
    cs = 1 << cb
    ext = case["ext"]
    es = 16 if ext else 8
    l2n = cs // es
    return cb, cs, ext, es, l2n


# ----------------------------------------------------------------------------- layout: intent -> raw tables and chunks
def layout(case):
    """-> dict(l1=[...], l2={off: {word: value}}, chunks={off: bytes}, hdr=dict of stored header fields)"""
    cb, cs, ext, es, l2n = geometry(case)
    l1 = [0] * case["l1_size"]
    l2 = {}
    chunks = {}
    for k, off in case["l2tabs"].items():
        l1[int(k)] = off | (COPIED if case.get("l1_copied") else 0)
        l2[off] = {}
    for g, c in case["clusters"].items():
        g = int(g)
        toff = case["l2tabs"][str(g // l2n)]
        idx = g % l2n
        t = c["t"]
        bm = None
        if t == "comp":
            plain = plain_cluster(c["seed"], cs, c.get("hard", False))
            comp = deflate_raw(plain)
            coff = c["coffset"]
            nb = (coff + len(comp) - 1) // 512 - coff // 512 + 1
            if nb > 1 << (cb - 8) or len(comp) >= cs:
                raise ValueError("generator: compressed cluster does not fit its descriptor")
            e = COMPRESSED | coff | ((nb - 1) << (70 - cb))
            chunks[coff] = comp
            bm = 0
        elif ext:
            e = c["host"] | (COPIED if c.get("copied") else 0)
            bm = c["alloc"] | (c["zero"] << 32)
        elif t == "normal":
            e = c["host"] | (COPIED if c.get("copied") else 0)
        elif t == "zero_plain":
            e = 1
        elif t == "zero_alloc":
            e = c["host"] | 1 | (COPIED if c.get("copied") else 0)
        else:
            raise ValueError(t)
        if ext:
            l2[toff][2 * idx] = e
            l2[toff][2 * idx + 1] = bm
        else:
            l2[toff][idx] = e
    # header cluster
    version = case["version"]
    feats = (4 if case["datafile"] else 0) | (16 if ext else 0)
    bk = case["backing"]
    name = b"backing.img"
    bfo, bfs = (0, 0)
    hdr_cluster = bytearray(cs)
    if bk is not None:
        bfo = case["backing_name_off"]
        bfs = len(name)
        hdr_cluster[bfo:bfo + bfs] = name
    h72 = struct.pack(">IIQIIQIIQQIIQ", MAGIC, version, bfo, bfs, cb, case["size"], 0, case["l1_size"], case["l1_offset"],
                      case["rc_offset"], 1, 0, 0)
    assert len(h72) == 72
    hdr_cluster[0:72] = h72
    if version == 3:
        hl = case["header_length"]
        v3 = struct.pack(">QQQII", feats, 0, 0, 4, hl)
        hdr_cluster[72:104] = v3
        pos = 104
        if hl == 112:
            hdr_cluster[104:112] = b"\x00" * 8       # compression_type = 0 (zlib) + padding
            pos = 112
        # header extensions from `pos`
        tail = bytes.fromhex(case.get("ext_area", ""))
        hdr_cluster[pos:pos + len(tail)] = tail
    else:
        tail = bytes.fromhex(case.get("v2_tail", ""))
        hdr_cluster[72:72 + len(tail)] = tail
    chunks[0] = bytes(hdr_cluster)
    chunks[case["l1_offset"]] = b"".join(struct.pack(">Q", v) for v in l1)
    for off, words in l2.items():
        buf = bytearray(cs)
        for w, v in words.items():
            buf[8 * w:8 * w + 8] = struct.pack(">Q", v)
        chunks[off] = bytes(buf)
    raw72 = bytes(hdr_cluster[72:112])
    inc, comp_f, auto, ro, hl_raw = struct.unpack(">QQQII", raw72[:32])
    hdr = dict(magic=MAGIC, version=version, backing_file_offset=bfo, backing_file_size=bfs, cluster_bits=cb,
               size=case["size"], crypt_method=0, l1_size=case["l1_size"], l1_table_offset=case["l1_offset"],
               refcount_table_offset=case["rc_offset"], refcount_table_clusters=1, nb_snapshots=0, snapshots_offset=0,
               incompatible_features=inc, compatible_features=comp_f, autoclear_features=auto, refcount_order=ro,
               header_length=hl_raw, compression_type=raw72[32])
    return dict(l1=l1, l2=l2, chunks=chunks, hdr=hdr)


def build_files(case, lay=None):
    lay = lay or layout(case)
    fh = core.SparseFile(case["file_size"], lay["chunks"], salt=case["salt"])
    data = core.SparseFile(case["data_size"], {}, salt=case["salt"] ^ 0x5A5A5A) if case["datafile"] else None
    bk = case["backing"]
    backing = None
    if bk is not None and bk.get("size") is not None:
        backing = core.SparseFile(bk["size"], {}, salt=case["salt"] ^ 0x3C3C3C)
    return fh, data, backing


# ----------------------------------------------------------------------------- intent oracle (python, independent of Coq)
def intent_bytes(case, off, n, files):
    """expected guest bytes [off, off+n) computed directly from the generator's intent"""
    cb, cs, ext, es, l2n = geometry(case)
    fh, data, backing = files
    store = data if case["datafile"] else fh
    scs = cs // 32
    out = []

    def unalloc(o, k):
        if backing is not None:
            return backing.content(o, k).ljust(k, b"\x00")
        return b"\x00" * k

    pos, end = off, off + n
    while pos < end:
        g = pos // cs
        within = pos % cs
        c = case["clusters"].get(str(g))
        step = cs if not (ext and c and c["t"] != "comp") else scs
        k = min(end - pos, step - (pos % step))
        if c is None:
            out.append(unalloc(pos, k))
        elif c["t"] == "comp":
            out.append(plain_cluster(c["seed"], cs, c.get("hard", False))[within:within + k])
        elif ext:
            s = within // scs
            if (c["zero"] >> s) & 1:
                out.append(b"\x00" * k)
            elif (c["alloc"] >> s) & 1:
                out.append(store.content(c["host"] + within, k))
            else:
                out.append(unalloc(pos, k))
        elif c["t"] == "normal":
            out.append(store.content(c["host"] + within, k))
        else:
            out.append(b"\x00" * k)
        pos += k
    return b"".join(out)


# ----------------------------------------------------------------------------- generator
BITMAP_PATTERNS = ["all", "none", "prefix", "suffix", "alt", "rand", "single0", "single15", "single16", "single31",
                   "rand2"]


def gen_bitmap(rng, pat):
    if pat == "all":
        return 0xFFFFFFFF
    if pat == "none":
        return 0
    if pat == "prefix":
        return (1 << rng.randint(1, 31)) - 1
    if pat == "suffix":
        return 0xFFFFFFFF & ~((1 << rng.randint(1, 31)) - 1)
    if pat == "alt":
        return rng.pick([0x55555555, 0xAAAAAAAA, 0x0F0F0F0F, 0xFF00FF00])
    if pat.startswith("single"):
        return 1 << int(pat[6:])
    return rng.getrandbits(32) & (rng.getrandbits(32) if pat == "rand2" else 0xFFFFFFFF)


class Alloc:
    """host cluster allocator: a low bump region plus optional far regions"""

    def __init__(self, cs, start):
        self.cs = cs
        self.low = start
        self.end = start * cs
        self.far = {}

    def take(self, n=1, where="low", gap=0):
        if where == "low":
            self.low += gap
            o = self.low * self.cs
            self.low += n
        else:
            base = self.far.setdefault(where, {"4g": (1 << 32) - 2 * self.cs, "4g+": (1 << 32) + 5 * self.cs,
                                               "16t": (1 << 44) + 3 * self.cs,
                                               "32p": (1 << 55) - 2 * self.cs}[where] // self.cs)
            base += gap
            o = base * self.cs
            self.far[where] = base + n
        self.end = max(self.end, o + n * self.cs)
        return o


def needs_wide_csize(case):
    """some compressed cluster's stream spans cluster_size / 512 + 1 sectors (the sector-count field needs its top bit)"""
    cs = 1 << case["cluster_bits"]
    for c in case["clusters"].values():
        if c["t"] == "comp":
            clen = len(deflate_raw(plain_cluster(c["seed"], cs, c.get("hard", False))))
            if (c["coffset"] + clen - 1) // 512 - c["coffset"] // 512 + 1 > cs // 512:
                return True
    return False


def shape_ext_runs(c, rng):
    """an extended-L2 image gets three guest-consecutive, host-consecutive clusters A, B, C whose sub-cluster runs meet at the
    cluster boundaries: A ends in a run of some state, B starts with a PARTIAL run of that state, C starts with that state
    again; requests start inside A's last run.  (What a run counter decides at the first cluster must hold at every later one.)
    -> True when the case was shaped"""
    cb, cs, ext, es, l2n = geometry(c)
    if not ext or c["datafile"]:
        return False
    ncl = (c["size"] + cs - 1) // cs
    cand = [g for g in range(0, ncl - 2) if all(str((g + d) // l2n) in c["l2tabs"] for d in range(3))]
    if not cand:
        return False
    g = rng.pick(cand)
    scs = cs // 32
    host0 = (max(c["file_size"], 1) + cs - 1) // cs * cs + cs
    state = rng.pick(["alloc", "zero"])
    p = rng.randint(1, 31)                     # B: sub-clusters 0..p-1 in the state, the rest in another one
    k = rng.randint(max(1, 32 - p), 31)        # the request starts at sub-cluster k of A
    full, pre = 0xFFFFFFFF, (1 << p) - 1
    other = rng.pick(["zero", "unalloc"]) if state == "alloc" else rng.pick(["alloc", "unalloc"])

    def bits(main, rest):
        alloc = (main if state == "alloc" else 0) | (rest if other == "alloc" else 0)
        zero = (main if state == "zero" else 0) | (rest if other == "zero" else 0)
        return alloc, zero
    for d, (main, rest) in enumerate([(full, 0), (pre, full & ~pre), (full if rng.chance(0.5) else pre | 1, 0)]):
        a, z = bits(main, rest)
        c["clusters"][str(g + d)] = {"t": "ext", "host": host0 + d * cs, "alloc": a, "zero": z, "copied": True}
    c["file_size"] = host0 + 4 * cs
    size = c["size"]
    for _ in range(3):
        off = g * cs + k * scs + rng.pick([0, 0, rng.randrange(0, scs)])
        n = min(size - off, (32 - k) * scs + 32 * scs + rng.randint(1, 32) * scs)
        if n > 0:
            c["reqs"].append([rng.pick(["raw", "bytes"]), off, n, "ext_runs"])
        k = rng.randint(max(1, 32 - p), 31)
    return True


def gen_ext_runs_case(rng, tier):
    for _ in range(4000):
        c = gen_case(rng, tier)
        if c["ext"] and c["backing"] is None and shape_ext_runs(c, rng):
            return c
    return gen_case(rng, tier)


def has_datafile_cluster0(case):
    """an external data file whose offset 0 holds a guest cluster (L2 entry: COPIED with host offset 0) that is directly
    followed, in guest order, by a cluster stored somewhere else"""
    if not case["datafile"]:
        return False
    cs = 1 << case["cluster_bits"]
    for g, c in case["clusters"].items():
        if c.get("t") == "normal" and c.get("host") == 0 and c.get("copied"):
            nxt = case["clusters"].get(str(int(g) + 1))
            if nxt and nxt.get("t") == "normal" and nxt.get("host") not in (None, 0, cs):
                return True
    return False


def gen_case_where(rng, tier, pred, bigbuf=False, tries=4000):
    """a generated case that satisfies pred (the last one tried if none does)"""
    c = None
    for _ in range(tries):
        c = gen_case(rng, tier, bigbuf)
        if pred(c):
            break
    return c


def gen_case(rng, tier, bigbuf=False):
    if bigbuf:
        cb = rng.weighted([(9, 6), (10, 2), (11, 1)])
    else:
        cb = rng.weighted([(9, 5), (10, 3), (11, 2), (12, 3), (13, 1), (14, 5), (15, 3), (16, 3), (17, 1), (18, 1), (20, 1),
                           (21, 1)])
    cs = 1 << cb
    ext = cb >= 14 and rng.chance(0.6)
    datafile = rng.chance(0.2)
    version = 3 if (ext or datafile) else rng.pick([2, 2, 3])
    es = 16 if ext else 8
    l2n = cs // es
    c = {"cluster_bits": cb, "ext": ext, "datafile": datafile, "version": version, "salt": rng.randrange(1 << 30)}
    if version == 3:
        c["header_length"] = rng.pick([104, 112])
        # extension area: end marker, or a feature-table / unknown extension followed by the end marker
        ea = rng.weighted([("", 3), ("ft", 2), ("unk", 1)])
        if ea == "ft":
            c["ext_area"] = (struct.pack(">II", 0x6803F857, 48) + bytes(48) + bytes(8)).hex()
        elif ea == "unk":
            c["ext_area"] = (struct.pack(">II", 0x12345678, 5) + b"hello\0\0\0" + bytes(8)).hex()
    else:
        kind = rng.weighted([("zeros", 2), ("bfmt", 3), ("unknown", 2), ("ones", 1)])
        if kind == "bfmt":     # a backing-format header extension directly after the 72-byte header
            c["v2_tail"] = (struct.pack(">II", 0xE2792ACA, 5) + b"qcow2\0\0\0" + bytes(8)).hex()
        elif kind == "unknown":  # an unknown (ignorable) extension with random payload
            ln = rng.pick([8, 16, 24])
            c["v2_tail"] = (struct.pack(">II", 0x10000000 | rng.randrange(1 << 28), ln)
                            + bytes(rng.randrange(256) for _ in range(ln)) + bytes(8)).hex()
        elif kind == "ones":
            c["v2_tail"] = (struct.pack(">II", 0x7FFFFFFF, 24) + b"\xff" * 24 + bytes(8)).hex()
        c["v2_kind"] = kind
    # virtual disk: guest clusters of interest
    big = cb >= 17
    if bigbuf:
        ntabs = rng.randint(1, 3)
        nclusters = ntabs * l2n - rng.weighted([(0, 3), (rng.randrange(0, l2n), 1)])
    elif big:
        nclusters = rng.randint(1, 5)
    elif ext:
        nclusters = rng.weighted([(rng.randint(1, 12), 3), (l2n + rng.randint(1, 6), 2)])
    else:
        nclusters = rng.weighted([(rng.randint(1, 12), 2), (rng.randint(l2n - 2, 2 * l2n + 5), 3),
                                  (rng.randint(2 * l2n, 4 * l2n), 1)])
    nclusters = max(1, nclusters)
    cut = rng.weighted([(0, 3), (rng.randrange(0, cs), 3), (512 * rng.randrange(0, cs // 512), 1)])
    size = nclusters * cs - cut
    if size <= 0:
        size = nclusters * cs
    c["size"] = size
    ntab = (nclusters + l2n - 1) // l2n
    c["l1_size"] = ntab + rng.pick([0, 0, 0, 1, 3])
    # which guest clusters get an entry
    interesting = set()
    for base in [0, nclusters - 1] + [k * l2n for k in range(1, ntab)]:
        for d in range(-3, 4):
            if 0 <= base + d < nclusters:
                interesting.add(base + d)
    dens = rng.weighted([(1.0, 3), (0.7, 4), (0.3, 2), (0.0, 1)])
    chosen = sorted(g for g in interesting if rng.chance(dens))
    if len(chosen) > (8 if big else 40):
        chosen = sorted(rng.sample(chosen, 8 if big else 40))
    hole = None
    if ntab >= 2 and rng.chance(0.3):
        # an L1 hole (no table for a whole L2 range) directly in front of a range that starts with data
        hole = rng.randrange(0, ntab - 1)
        chosen = [g for g in chosen if g // l2n != hole]
        for g in ((hole + 1) * l2n, (hole + 1) * l2n + 1):
            if g < nclusters and g not in chosen:
                chosen.append(g)
        chosen.sort()
    # placement
    place = rng.weighted([("asc", 3), ("desc", 2), ("random", 3), ("gaps", 2), ("4g", 1), ("4g+", 1), ("16t", 1), ("32p", 1)])
    meta_place = rng.weighted([("low", 5), ("4g+", 1), ("16t", 1)])
    al = Alloc(cs, 1)
    dal = Alloc(cs, 1)         # allocator of the external data file
    c["rc_offset"] = al.take(1)
    c["l1_offset"] = al.take((c["l1_size"] * 8 + cs - 1) // cs, where=meta_place)
    tabs_needed = sorted({g // l2n for g in chosen})
    # some L1 entries with a table but no clusters, some absent
    for k in range(ntab):
        if k not in tabs_needed and k != hole and rng.chance(0.3):
            tabs_needed.append(k)
    order = list(tabs_needed)
    rng.shuffle(order)
    c["l2tabs"] = {}
    for k in order:
        c["l2tabs"][str(k)] = al.take(1, where=rng.weighted([("low", 4), (meta_place, 2)]))
    c["l1_copied"] = rng.chance(0.5)
    order = list(chosen)
    if place == "desc":
        order.reverse()
    elif place in ("random", "gaps"):
        rng.shuffle(order)
    where = place if place in ("4g", "4g+", "16t", "32p") else "low"     # 32p: around 2^55 (host offsets have 56 bits)
    pack = rng.chance(0.5)       # compressed clusters written back to back at byte granularity, as qemu-img convert -c does
    pack_at = None
    types_std = [("normal", 6), ("zero_plain", 1), ("zero_alloc", 1), ("comp", 2)]
    clusters = {}
    a = dal if datafile else al
    profile = rng.weighted([("mixed", 5), ("all_normal", 2), ("runs", 3)])
    last_t = None
    for g in order:
        gap = rng.randrange(0, 4) if place == "gaps" else 0
        if profile == "all_normal":
            t = "normal"
        elif profile == "runs" and last_t is not None and rng.chance(0.7):
            t = last_t
        else:
            t = rng.weighted(types_std)
        if datafile and t == "comp":
            t = "normal"
        last_t = t
        e = {"t": t}
        if t == "comp":
            e["seed"] = rng.randrange(1 << 16)
            # compressed data lives in the image file at any byte offset (often straddling 512-byte sectors)
            if rng.chance(0.25):
                e["hard"] = True
            clen = len(deflate_raw(plain_cluster(e["seed"], cs, e.get("hard", False))))
            if clen >= cs:
                e.pop("hard", None)
                clen = len(deflate_raw(plain_cluster(e["seed"], cs)))
            # the descriptor has cluster_bits - 8 bits for the sector count: the stream must fit
            room = 512 * (1 << (cb - 8)) - clen
            if pack and pack_at is not None and pack_at[0] + clen <= pack_at[1] and pack_at[0] % 512 <= room:
                e["coffset"] = pack_at[0]
                pack_at = (pack_at[0] + clen, pack_at[1])
            else:
                cwhere = {"4g": "4g+", "32p": "16t"}.get(where, where)          # (compressed offsets have fewer bits)
                base = al.take(2, where=cwhere, gap=gap)
                r = rng.weighted([(0, 1), (rng.randrange(0, 512), 2), (rng.randrange(0, max(1, cs // 4)), 2)])
                e["coffset"] = base + (r if r % 512 <= room else r - r % 512 + rng.randrange(0, room + 1))
                pack_at = (e["coffset"] + clen, base + 2 * cs)
        elif ext:
            e["t"] = "ext"
            hostless = rng.chance(0.15)
            zero = gen_bitmap(rng, rng.pick(BITMAP_PATTERNS))
            if hostless:
                e["host"] = 0
                e["alloc"] = 0
                e["zero"] = zero
                if datafile and rng.chance(0.5):
                    # data file: cluster stored at offset 0 of the data file, flagged by COPIED alone
                    e["copied"] = True
                    e["alloc"] = gen_bitmap(rng, rng.pick(BITMAP_PATTERNS)) & ~zero & 0xFFFFFFFF
            else:
                e["host"] = a.take(1, where=where, gap=gap)
                alloc = gen_bitmap(rng, rng.pick(BITMAP_PATTERNS))
                if rng.chance(0.5):
                    zero &= ~alloc
                else:
                    alloc &= ~zero
                e["alloc"] = alloc & 0xFFFFFFFF
                e["zero"] = zero & 0xFFFFFFFF
                e["copied"] = rng.chance(0.5)
        elif t in ("normal", "zero_alloc"):
            e["host"] = a.take(1, where=where, gap=gap)
            e["copied"] = rng.chance(0.5)
            if datafile and t == "normal" and rng.chance(0.1):
                e["host"] = 0
                e["copied"] = True
        clusters[str(g)] = e
    c["clusters"] = clusters
    c["place"] = place
    c["meta_place"] = meta_place
    c["profile"] = profile
    c["file_size"] = al.end + rng.pick([0, 0, 512, cs])
    c["data_size"] = max(dal.end, cs) + rng.pick([0, cs])
    # backing
    bkind = rng.weighted([("none", 4), ("long", 2), ("short", 3), ("optout", 1)])
    if bkind == "none":
        c["backing"] = None
    else:
        c["backing_name_off"] = rng.pick([200, 256, 300, 504 - 11])
        if bkind == "optout":
            c["backing"] = {"size": None}
        elif bkind == "long":
            c["backing"] = {"size": size + rng.pick([0, 0, cs, 12345])}
        else:
            c["backing"] = {"size": rng.weighted([(0, 1), (rng.randrange(0, size + 1), 4), (max(0, size - 1), 1)])}
    c["bkind"] = bkind
    # requests
    scs = cs // 32 if ext else cs
    reqs = []
    anchors = sorted({int(g) * cs for g in clusters} | {0, max(0, size - 1)} | {k * l2n * cs for k in range(1, ntab)})
    anchors = [x for x in anchors if x < size]
    maxlen = (1 << 22) if tier == 'thorough' else (1 << 20)
    for _ in range(6):
        kind = rng.weighted([("raw", 5), ("bytes", 4), ("rawtail", 1)])
        shape = rng.weighted([("in_sc", 2), ("x_sc", 3), ("x_cluster", 4), ("x_l2", 2), ("tail", 2), ("whole", 1),
                              ("first", 1), ("last", 1)])
        base = rng.pick(anchors)
        if shape == "in_sc":
            off = base + rng.randrange(0, cs)
            n = rng.randint(1, max(1, scs - off % scs))
        elif shape == "x_sc":
            off = base + rng.randrange(0, cs)
            n = rng.randint(1, 3 * scs + 7)
        elif shape == "x_cluster":
            off = max(0, base - rng.randrange(0, 2 * cs))
            n = rng.randint(cs // 2, 4 * cs)
        elif shape == "x_l2":
            b = l2n * cs * rng.randint(1, max(1, ntab))
            off = max(0, b - rng.randrange(1, 3 * cs))
            n = rng.randint(1, 6 * cs)
        elif shape == "tail":
            off = max(0, size - rng.randrange(1, 3 * cs))
            n = size - off + (rng.randrange(0, 3 * cs) if kind != "raw" else 0)
        elif shape == "whole":
            off, n = 0, size
        elif shape == "first":
            off, n = 0, 1
        else:
            off, n = size - 1, 1
        off = min(off, size - 1)
        if kind == "raw":
            n = max(1, min(n, size - off, maxlen))
        elif kind == "rawtail":
            # the stream back end: aligned offset, length possibly running past the end
            off -= off % 512
            n = max(512, (min(n, maxlen) + 511) // 512 * 512)
            if rng.chance(0.5):
                n = max(512, ((size - off) + rng.randrange(0, 3 * cs) + 511) // 512 * 512)
                n = min(n, maxlen)
        else:
            n = min(n, maxlen)
            if rng.chance(0.1) and size - off <= maxlen:
                n = -1
        reqs.append([kind, off, n, shape])
    # directed: one request over the whole disk (every run boundary in one call), and requests that start inside an
    # L1 hole and run into the next L2 range that has a table
    if size <= maxlen:
        reqs.append(["raw", 0, size, "whole"])
    for k in range(1, ntab):
        if str(k - 1) not in c["l2tabs"] and str(k) in c["l2tabs"]:
            b = k * l2n * cs
            if 0 < b < size:
                off = max(0, b - rng.randrange(1, 2 * cs))
                reqs.append(["raw", off, max(1, min(size - off, b - off + rng.randint(1, 3 * cs), maxlen)), "x_l1hole"])
    c["reqs"] = reqs
    return c


# ----------------------------------------------------------------------------- Coq rendering
def coq_image(case, lay):
    h = lay["hdr"]
    hdr = "{| " + "; ".join(f"h_{k} := {Z(v)}" for k, v in h.items()) + " |}"
    cb, cs, ext, es, l2n = geometry(case)
    l1 = [(i, v) for i, v in enumerate(lay["l1"]) if v]
    tabs = []
    for off, words in lay["l2"].items():
        ws = [(w, v) for w, v in sorted(words.items()) if v]
        tabs.append(f"({Z(off)}, tbl {zpairs(ws)} 0 {Z(cs // 8)})")
    backing = case["backing"] is not None and case["backing"].get("size") is not None
    return (f"{{| i_hdr := {hdr}; i_backing := {core.cbool(backing)}; "
            f"i_l1 := tbl {zpairs(l1)} 0 {Z(case['l1_size'])}; i_l2 := tbl2 [{'; '.join(tabs)}] |}}")


def want_range(case, kind, off, n):
    """(start, want_len) of the bytes the specification defines for a request"""
    size = case["size"]
    if kind in ("raw", "rawtail"):
        return off, max(0, min(n, size - off))
    if off >= size:
        return off, 0
    return off, (size - off if n < 0 else min(n, size - off))


class Qcow2Suite(Suite):
    name = "qcow2"
    shard = 20
    per_case_timeout = 30.0
    preamble = ("From Coq Require Import ZArith List.\nImport ListNotations.\nOpen Scope Z_scope.\n"
                "From DH Require Import Base.Plan Base.Table Gen.Qcow2Fun Model.Qcow2.\n")
    bigbuf = False
    request_cpu_s = 1.0

    def generate(self, rng, tier):
        if self.bigbuf:
            n = 300 if tier == "thorough" else 40
        else:
            n = 3000 if tier == "thorough" else 220
        from harness.readers import with_twins
        directed = [gen_case_where(rng, tier, needs_wide_csize, self.bigbuf),
                    gen_case_where(rng, tier, has_datafile_cluster0, self.bigbuf, tries=20000)]
        if not self.bigbuf:
            directed += [gen_ext_runs_case(rng, tier) for _ in range(12 if tier == "thorough" else 3)]
        return with_twins(directed + [gen_case(rng, tier, self.bigbuf) for _ in range(n)], rng)

    # -- implementation side (worker process)
    def impl(self, case):
        import signal

        from dissect.hypervisor.disk import qcow2 as Q
        lay = layout(case)
        fh, data, backing = build_files(case, lay)
        out = {"open": None, "reqs": []}
        bk = case["backing"]
        barg = None
        if bk is not None:
            barg = backing if bk.get("size") is not None else Q.ALLOW_NO_BACKING_FILE

        class Hang(BaseException):
            pass

        def on_cpu(signum, frame):
            raise Hang()

        signal.signal(signal.SIGVTALRM, on_cpu)

        def guarded(fn, *a):
            signal.setitimer(signal.ITIMER_VIRTUAL, self.request_cpu_s)
            try:
                return call(fn, *a)
            except Hang:
                return {"outcome": "hang", "detail": f"no result after {self.request_cpu_s}s of CPU time"}
            finally:
                signal.setitimer(signal.ITIMER_VIRTUAL, 0)

        def do_open():
            return keep_alive(Q.QCow2(fh, data_file=data, backing_file=barg))

        q = guarded(do_open)
        if isinstance(q, dict):
            out["open"] = q
            return out
        out["size"] = int(q.size)
        out["params"] = [q.cluster_size, q.subclusters_per_cluster, q.subcluster_size, q.subcluster_bits, q.l2_bits,
                         q.l2_size, int(q.compression_type), q.csize_shift, q.csize_mask, q.cluster_offset_mask,
                         int(q.has_subclusters), int(q.has_data_file), int(q.header.header_length), int(q.size)]
        out["has_backing"] = bool(q.has_backing_file)
        out["unknown_ext"] = len(q.unknown_extensions)
        dead = False
        for k, (kind, a, b, _shape) in enumerate(case["reqs"]):
            if k % 2 == 1:
                for fo in (fh, data, backing):           # the handles are the caller's: they may have been used meanwhile
                    if fo is not None:
                        fo.seek((a * 7 + k * 4099) % max(1, fo.size))
            if dead:
                out["reqs"].append({"outcome": "skipped"})
                continue
            if kind in ("raw", "rawtail"):
                fh.reset_counters()
                r = guarded(q._read, a, b)
            else:
                def f():
                    q.seek(a)
                    r = q.read(b)
                    return r if q.tell() == a + len(r) else {"outcome": "exc", "exc": "PositionError",
                                                             "msg": f"tell {q.tell()} after reading {len(r)} at {a}"}
                r = guarded(f)
            if isinstance(r, dict) and r.get("outcome") == "hang":
                dead = True          # the object may be in an arbitrary state
            out["reqs"].append(r)
        if fh.violations or (data is not None and data.violations) or (backing is not None and backing.violations):
            out["mutations"] = True
        return out

    # -- Coq side
    def spec_window(self, case, kind, off, n):
        cb, cs, ext, es, l2n = geometry(case)
        g = cs // 32 if ext else cs
        g = min(g, 4096)
        start, want = want_range(case, kind, off, n)
        s0 = start - start % g
        cnt = (start + want - s0 + g - 1) // g if want > 0 else 0
        return g, s0, cnt, start - s0, want

    def coq_term(self, case):
        lay = layout(case)
        items = []
        for kind, a, b, _shape in case["reqs"]:
            g, s0, cnt, _skip, _want = self.spec_window(case, kind, a, b)
            spec = f"spec_plan (guest_src im) {Z(g)} {Z(s0)} {Z(cnt)}"
            if kind in ("raw", "rawtail"):
                model = f"qcow2_read im (fuel_for im {Z(b)}) {Z(a)} {Z(b)}"
            else:
                model = "(@Err (list seg))"
            items.append(f"({model}, {spec})")
        return f"let im := {coq_image(case, lay)} in (open_params im, [" + "; ".join(items) + "])"

    # -- judge
    def expected_params(self, case):
        cb, cs, ext, es, l2n = geometry(case)
        spc = 32 if ext else 1
        scs = cs // spc
        hl = case.get("header_length", 72) if case["version"] == 3 else 72
        return [cs, spc, scs, scs.bit_length() - 1, l2n.bit_length() - 1, l2n, 0, 70 - cb, (1 << (cb - 8)) - 1,
                (1 << (70 - cb)) - 1, int(ext), int(case["datafile"]), hl, case["size"]]

    def judge(self, case, impl_res, coq_val):
        fs = []
        sigp = "qcow2:" + ("bigbuf:" if self.bigbuf else "") + ("ext" if case["ext"] else "std") + f":v{case['version']}"
        if impl_res.get("outcome"):
            return [Finding("impl_fault", f"implementation {impl_res['outcome']}: {impl_res.get('detail', impl_res)}",
                            sigp + ":case:" + impl_res["outcome"])]
        if impl_res["open"] is not None:
            o = impl_res["open"]
            kind = "impl_fault" if o.get("outcome") == "hang" else "impl_vs_spec"
            return [Finding(kind, f"open failed on a conformant image: {o}", sigp + ":open:" + str(o.get("exc", o.get("outcome"))))]
        _, params_v, reqs_v = coq_val
        exp = self.expected_params(case)
        if impl_res["params"] != exp:
            fs.append(Finding("impl_vs_spec", f"opened parameters {impl_res['params']} differ from the specification's "
                              f"{exp} (cluster_size, subclusters, sc_size, sc_bits, l2_bits, l2_size, compression, "
                              f"csize_shift, csize_mask, offset_mask, extended, data_file, header_length, size)",
                              sigp + ":open:params"))
        if list(params_v) != impl_res["params"]:
            fs.append(Finding("impl_vs_model", f"opened parameters: implementation {impl_res['params']} model {list(params_v)}",
                              sigp + ":open:model-params"))
        if list(params_v) != exp:
            fs.append(Finding("model_vs_spec", f"opened parameters: model {list(params_v)} specification {exp}",
                              sigp + ":open:mvs-params"))
        if impl_res.get("mutations"):
            fs.append(Finding("impl_vs_spec", "a backing handle was asked to write/truncate", sigp + ":mutation"))
        lay = layout(case)
        files = build_files(case, lay)
        fh, data, backing = files
        cb, cs, ext, es, l2n = geometry(case)

        def parent(o, n):
            if backing is None:
                return b"\x00" * n
            return backing.content(o, n).ljust(n, b"\x00")

        def infl(d, k, n):
            x = 70 - cb
            coff = d & ((1 << x) - 1)
            csize = (((d >> x) & ((1 << (cb - 8)) - 1)) + 1) * 512 - (coff & 511)
            buf = fh.content(coff, csize)
            plain = zlib.decompressobj(-12).decompress(buf, cs)
            return plain[k:k + n]

        mat = lambda p: core.materialise(p, file=fh, data=data, parent=parent, infl=infl)  # noqa: E731
        for (kind, a, b, shape), r, cv in zip(case["reqs"], impl_res["reqs"], reqs_v):
            if isinstance(r, dict) and r.get("outcome") == "skipped":
                continue
            _, model_v, spec_v = cv
            g, s0, cnt, skip, want = self.spec_window(case, kind, a, b)
            label = f"{kind}({a},{b})"
            sig = f"{sigp}:{kind}"
            spec_plan = core.plan_of(spec_v)
            full = mat(spec_plan)[skip:skip + want]
            intent = intent_bytes(case, a, want, files)
            if full != intent:
                d = core.first_diff(full, intent)
                fs.append(Finding("coq_error", f"{label}: Spec/Qcow2.v disagrees with the generator's intent at +{d}",
                                  sig + ":spec-vs-intent"))
            if kind == "bytes":
                fs += judge_read(label, r, None, [], want, lambda p, full=full: full, exact_len=True, sig=sig)
            else:
                mres = core.res_of(model_v)
                fs += judge_read(label, r, mres, [], want,
                                 lambda p, full=full: full if p == [] else mat(p), exact_len=(kind == "raw"), sig=sig)
        return fs

    def nontrivial(self, case, impl_res, coq_val):
        if not coq_val or not isinstance(coq_val, tuple):
            return None
        kinds = set()
        multi = False
        for cv in coq_val[2]:
            plan = core.plan_of(cv[2])
            if len(plan) >= 2:
                multi = True
            kinds |= {s[0] for s in plan}
        if multi or len(kinds) >= 2:
            return core.sha(core.jdump(case).encode())
        return None

    def dist(self, case):
        cb, cs, ext, es, l2n = geometry(case)
        nclusters = (case["size"] + cs - 1) // cs
        d = {"cluster_bits": cb, "ext": ext, "datafile": case["datafile"], "version": case["version"],
             "header_length": case.get("header_length", 72), "backing": case["bkind"], "place": case["place"],
             "meta_place": case["meta_place"], "profile": case["profile"],
             "l2_tables": len(case["l2tabs"]), "crosses_l2": nclusters > l2n,
             "types": ",".join(sorted({c["t"] for c in case["clusters"].values()})) or "-",
             "host>2^32": any(c.get("host", c.get("coffset", 0)) >= 1 << 32 for c in case["clusters"].values()),
             "size_aligned": case["size"] % cs == 0}
        if case["version"] == 2:
            d["v2_tail"] = case.get("v2_kind")
        for r in case["reqs"]:
            d.setdefault("req_shapes", set()).add(r[3])
        d["req_shapes"] = ",".join(sorted(d["req_shapes"]))
        return d

    def describe(self, case):
        return case


class BigBufSuite(Qcow2Suite):
    """the same reader behind a stream whose buffer (128 KiB) is larger than what one L1 entry maps"""
    name = "bigbuf"
    bigbuf = True
    env = {"DISSECT_STREAM_BUFFER_SIZE": 131072}


SUITES = {"qcow2": Qcow2Suite(), "bigbuf": BigBufSuite()}

from harness.readers import under_O, under_debug, under_bufsize  # noqa: E402
SUITES["qcow2_pyO"] = under_O(SUITES["qcow2"])
SUITES["qcow2_dbg"] = under_debug(SUITES["qcow2"])
SUITES["qcow2_buf12288"] = under_bufsize(SUITES["qcow2"], 12288)
SUITES["qcow2_buf1536"] = under_bufsize(SUITES["qcow2"], 1536, n=4)
