"""C11 — termination and bounded resources on arbitrary input."""
from __future__ import annotations

import gzip
import io
import os
import shutil
import struct
import tempfile
import uuid

from harness import core, fmt_vhdx
from harness.core import Z, zpairs
from harness.main import Finding, Suite
from harness.props import c01, c02, c03, c04, c05, c06, c17
import zlib
from harness.readers import outcome_of

PROPERTY = "C11"
PROPS_FILE = "Props/C11.v"
MODEL_FILES = ["Model/Vhd.v", "Model/Vdi.v", "Model/Vhdx.v", "Model/Hds.v", "Model/SnapChain.v", "Model/HyperV.v"]
META = {
    "category": "proof",
    "text": "Coq theorems carry the logic of termination: every reader loop (VHD, VDI, VHDX, HDS; QCOW2 and VMDK in C01/C02) "
            "makes progress for ARBITRARY table contents (no well-formedness assumed), the Parallels snapshot-chain walk and the "
            "Hyper-V object-table worklist end on every input including reference cycles, inflate calls are bounded by the "
            "allocation unit. The models are validated against the code on non-well-formed ('wild') tables, and the runtime "
            "half (CPU time, memory) is fault enumeration: single-field mutations (0, 1, max, +-1, sign bit) of every "
            "header/table word, truncations, random corruption, cyclic references and bombs run under CPU/memory limits — "
            "only 'returns' or 'raises' are acceptable outcomes.",
    "design_ref": "DESIGN.md §6 C11",
    "note": "PARTIAL: wall-clock/CPU/peak memory of the Python process are runtime facts no Gallina model exhibits; they are "
            "enumerated under limits, not proved. Trusted: Coq kernel; hand models; worker sandbox (RLIMIT_AS, alarm).",
    "technique": "Coq proof (progress for arbitrary tables, bounded reference walks) + fault enumeration under resource limits",
    "rule": "wild: generated images whose tables hold garbage / are too short, impl outcome vs model outcome; mutants: for every "
            "32-bit word of every metadata chunk of a valid base image the values {0,1,0xFFFFFFFF,w+1,w-1,0x80000000}, every "
            "truncation on a 512-byte grid +-1 around structure boundaries, random multi-byte corruption; Parallels shot graphs "
            "with cycles/self-parents/missing shots. Non-trivial = mutant differs from the base and reaches the parser; "
            "distinct by (base, mutation).",
    "trusted_base": ["worker resource limits", "hand models"],
    "assumptions": ["outcomes 'returns' or 'raises' within 10 s CPU and 1 GiB are taken as bounded"],
}
DATA = os.path.join(core.REPO, "tests", "data")
MB = 1 << 20


# ----------------------------------------------------------------------------- wild tables: impl vs model only
class WildMixin:
    """Generated images with garbage / short tables; compares implementation and model outcomes only."""

    def judge(self, case, impl_res, coq_val):
        fs = super().judge(case, impl_res, coq_val)
        out = []
        for f in fs:
            if f.kind in ("impl_vs_model", "impl_fault") or (f.kind == "coq_error" and "spec plan yields" not in f.detail):
                out.append(f)
            elif f.kind == "model_vs_spec" and ":fuel" in f.signature:
                out.append(f)
        return out


def wild_vdi(rng, tier):
    c = c05.gen_case(rng, "quick")
    m = c["map"]
    for i in range(len(m)):
        if rng.chance(0.4):
            m[i] = rng.weighted([(rng.randrange(0, 1 << 31), 3), (rng.randrange(0, 64), 3), (-1, 1), (-2, 1)])
    if rng.chance(0.4) and len(m) > 1:
        del m[rng.randrange(1, len(m)):]          # map shorter than the disk -> IndexError
    c["place"] = "wild"
    return c


def wild_hds(rng, tier):
    c = c06.gen_case(rng, "quick")
    while c["kind"] == "plain":
        c = c06.gen_case(rng, "quick")
    b = c["bat"]
    for i in range(len(b)):
        if rng.chance(0.4):
            b[i] = rng.weighted([(rng.randrange(0, 1 << 32), 3), (rng.randrange(0, 64), 3), (0, 1)])
    if rng.chance(0.4) and len(b) > 1:
        del b[rng.randrange(1, len(b)):]
    c["place"] = "wild"
    return c


def wild_vhdx(rng, tier):
    c = c03.gen_case(rng, "quick")
    for blk in c["blocks"]:
        if rng.chance(0.4):
            blk[0] = rng.pick([0, 1, 2, 3, 6, 6, 4, 5])        # incl. the undefined states 4, 5
            blk[1] = rng.weighted([(rng.randrange(0, 1 << 44), 2), (rng.randrange(0, 4096), 3)])
    c["place"] = "wild"
    return c


class WildVdi(WildMixin, c05.VdiSuite):
    name = "wild_vdi"

    def generate(self, rng, tier):
        return [wild_vdi(rng, tier) for _ in range(400 if tier == "thorough" else 40)]


class WildHds(WildMixin, c06.HdsSuite):
    name = "wild_hds"

    def generate(self, rng, tier):
        return [wild_hds(rng, tier) for _ in range(400 if tier == "thorough" else 40)]


class WildVhdx(WildMixin, c03.VhdxSuite):
    name = "wild_vhdx"

    def generate(self, rng, tier):
        return [wild_vhdx(rng, tier) for _ in range(300 if tier == "thorough" else 30)]


# ----------------------------------------------------------------------------- mutants: fault enumeration
def words(buf, limit):
    n = min(len(buf) // 4, limit)
    return [struct.unpack_from("<I", buf, 4 * i)[0] for i in range(n)]


def exercise(stream, size_hint=None):
    """read first / middle / last pieces and, for small disks, everything"""
    size = int(stream.size)
    got = 0
    stream.seek(0)
    got += len(stream.read(4096))
    if size > 8192:
        stream.seek(size // 2)
        got += len(stream.read(4096))
        stream.seek(max(0, size - 4096))
        got += len(stream.read(8192))
    if size <= 2 * MB:
        stream.seek(0)
        got += len(stream.read())
    return got


class Mutants(Suite):
    """Single-field mutations, truncations and corruption of valid base inputs, all formats."""
    name = "mutants"
    per_case_timeout = 30.0
    mem_mb = 1536

    # -- bases: name -> (chunks dict, file size, opener name)
    def bases(self, rng):
        out = {}
        c = c04.gen_case(rng, "quick")
        while c["kind"] != "dynamic" or c["block_size"] > 8192 or c["body_end"] > 16 * MB:
            c = c04.gen_case(rng, "quick")
        sf = c04.build_image(c)
        out["vhd"] = (dict(sf._chunks), sf.size, sf.salt)
        c = c05.gen_case(rng, "quick")
        while c["block_size"] > 65536 or c["file_size"] > 16 * MB:
            c = c05.gen_case(rng, "quick")
        sf = c05.SUITES["vdi"].build_files(c)["file"]
        out["vdi"] = (dict(sf._chunks), sf.size, sf.salt)
        c = c06.gen_case(rng, "quick")
        while c["kind"] == "plain" or c["m_sectors"] > 128 or c["file_size"] > 16 * MB:
            c = c06.gen_case(rng, "quick")
        sf = c06.SUITES["hds"].build_files(c)["file"]
        out["hds"] = (dict(sf._chunks), sf.size, sf.salt)
        c = c03.gen_case(rng, "quick")
        while c["block_size"] > MB or c["size"] > 4 * MB or c["file_size"] > 16 * MB:
            c = c03.gen_case(rng, "quick")
        sf = fmt_vhdx.build(c)
        # only the first 4 KiB of the big zero-padded metadata chunks matter
        out["vhdx"] = ({o: b[:max(512, min(len(b), 0x10000 + 256))] for o, b in sf._chunks}, sf.size, sf.salt)
        for want in ("std", "ext"):
            for _ in range(500):
                c = c01.gen_case(rng, "quick")
                if bool(c["ext"]) == (want == "ext") and not c["datafile"] and c["backing"] is None \
                        and c["file_size"] < 16 * MB and c["size"] < 4 * MB:
                    break
            fh, _, _ = c01.build_files(c)
            out["qcow2_" + want] = ({o: b for o, b in fh._chunks}, fh.size, fh.salt)
        for kind in ("hosted", "cowd", "sesparse"):
            for _ in range(500):
                c = c02.gen_sparse(rng, "quick", kind)
                if not c["huge"] and c["fsize"] < 8 * MB:
                    break
            fh, _ = c02.build_image(c)
            out["vmdk_" + kind] = ({o: b for o, b in fh._chunks}, fh.size, fh.salt)
        # a stream-optimised (compressed) extent whose grains span several sectors: truncated inside a grain, the
        # reader must raise or return short, not wait for bytes that never come
        for _ in range(2000):
            c = c02.gen_sparse(rng, "quick", "hosted")
            if (c["flags"] & c02.F_COMPRESSED) and c.get("cgrains") and not c["huge"] and c["fsize"] < 8 * MB:
                break
        fh, _ = c02.build_image(c)
        out["vmdk_stream"] = ({o: b for o, b in fh._chunks}, fh.size, fh.salt)
        for fn, key in (("test.vmcx", "hyperv_vmcx"), ("test.VMRS", "hyperv_vmrs"), ("local.tgz.ve", "envelope")):
            buf = open(os.path.join(DATA, fn), "rb").read()
            out[key] = ({0: buf}, len(buf), None)
        buf = open(os.path.join(DATA, "test.vgz"), "rb").read()
        out["vmtar"] = ({0: buf}, len(buf), None)
        buf = gzip.open(os.path.join(DATA, "sesparse.vmdk.gz")).read(8 * MB)
        out["sesparse"] = ({0: buf}, len(buf), None)
        return out

    def generate(self, rng, tier):
        cases = []
        per_base = 900 if tier == "thorough" else 110
        for name, (chunks, fsize, salt) in self.bases(rng).items():
            base = {"fmt": name, "chunks": {str(o): b.hex() for o, b in chunks.items()} if fsize <= (1 << 16) or salt is not None
                    else None, "fsize": fsize, "salt": salt}
            if base["chunks"] is None:
                base["chunks_file"] = name
            muts = [["none"]]
            # word mutations over the metadata
            cand = []
            for o, b in chunks.items():
                lim = 512 if name in ("sesparse", "envelope") else 2048
                for i, w in enumerate(words(b, lim)):
                    cand.append((o + 4 * i, w))
            rng.shuffle(cand)
            # prefer non-zero words (fields) but keep some zero ones
            cand.sort(key=lambda t: t[1] == 0)
            for off, w in cand[:per_base // 3]:
                for v in (0, 1, 0xFFFFFFFF, (w + 1) & 0xFFFFFFFF, (w - 1) & 0xFFFFFFFF, 0x80000000):
                    if v != w:
                        muts.append(["word", off, v])
            # two fields at once (lengths and offsets that only misbehave together)
            ext = (0, 1, 8, 0xFFFFFFFF, 0x80000000, 0xF8FFFFFF, 0xFFFFFFF8, 0x01000000)
            top = cand[:max(8, per_base // 6)]
            for _ in range(per_base // 5):
                (o1, _), (o2, _) = rng.pick(top), rng.pick(top)
                if o1 != o2:
                    muts.append(["words", [[o1, rng.pick(ext)], [o2, rng.pick(ext)]]])
            # truncations
            grid = {0, 1, 511, 512, 513, fsize - 1, fsize - 512, fsize // 2}
            for o, b in chunks.items():
                grid |= {o - 1, o, o + 1, o + len(b) - 1, o + len(b), o + len(b) + 1}
            for t in sorted(g for g in grid if 0 <= g < fsize)[:40]:
                muts.append(["trunc", t])
            must = [["none"]]
            if name == "vmdk_stream":
                # inside every multi-sector chunk (a compressed grain record): just past its first sector, in the middle,
                # two bytes before its end
                for o, b in chunks.items():
                    if len(b) > 600:
                        must += [["trunc", t] for t in (o + 513, o + len(b) // 2, o + len(b) - 2) if 0 < t < fsize]
                must = must[:40]
            if name.startswith("qcow2"):
                # the header extension walk: an extension length near 2^32 together with an extension area that ends
                # beyond 4 GiB (backing file name offset), or at the end of the first cluster
                h0 = chunks.get(0, b"")
                hl = struct.unpack(">I", h0[100:104])[0] if len(h0) >= 104 and h0[4:8] == b"\0\0\0\x03" else 72
                for ln in (0xFFFFFFF8, 0xFFFFFFF0, 0xFFFFFFFF, 0xFFFFFFF9, 0x7FFFFFF8, 0xFFFFFFF7, 0x100, 0):
                    for bfo in (None, 1 << 32, (1 << 32) + 8, 1 << 40, (1 << 63) + 16):
                        mm = [[hl, struct.pack(">II", 0x6803F857, ln).hex()]]
                        if bfo is not None:
                            mm.append([8, struct.pack(">QI", bfo, 5).hex()])
                        must.append(["bytes", mm])
            # random corruption
            offs = [o + i for o, b in chunks.items() for i in range(0, min(len(b), 4096))]
            for _ in range(per_base // 5):
                k = rng.randint(1, 8)
                muts.append(["corrupt", [[rng.pick(offs), rng.randrange(256)] for _ in range(k)]])
            others = [m for m in muts if m != ["none"]]
            rng.shuffle(others)
            # the unmodified base always runs (a reader that hangs on valid input shows here first), then the directed
            # mutants, then a sample of the others
            for m in [["none"]] + must[1:] + others[:per_base]:
                cases.append({"base": base, "mut": m})
        return cases

    def _file(self, case):
        b = case["base"]
        if b["chunks"] is None:
            name = b["chunks_file"]
            if name == "sesparse":
                buf = gzip.open(os.path.join(DATA, "sesparse.vmdk.gz")).read(8 * MB)
            chunks = {0: buf}
        else:
            chunks = {int(o): bytes.fromhex(h) for o, h in b["chunks"].items()}
        fsize = b["fsize"]
        m = case["mut"]
        extra = []
        if m[0] == "word":
            extra.append((m[1], struct.pack("<I", m[2])))
        elif m[0] == "words":
            extra += [(o, struct.pack("<I", v)) for o, v in m[1]]
        elif m[0] == "bytes":
            extra += [(o, bytes.fromhex(h)) for o, h in m[1]]
        elif m[0] == "corrupt":
            extra += [(o, bytes([v])) for o, v in m[1]]
        elif m[0] == "trunc":
            fsize = m[1]
        sf = core.SparseFile(fsize, chunks, salt=b["salt"] or 0, fill="stamp" if b["salt"] is not None else "zero")
        sf._chunks = list(sf._chunks) + extra
        return sf

    def impl(self, case):
        fmt = case["base"]["fmt"]
        sf = self._file(case)
        try:
            if fmt == "vhd":
                from dissect.hypervisor.disk.vhd import VHD
                n = exercise(VHD(sf))
            elif fmt == "vdi":
                from dissect.hypervisor.disk.vdi import VDI
                n = exercise(VDI(sf))
            elif fmt == "hds":
                from dissect.hypervisor.disk.hdd import HDS
                n = exercise(HDS(sf))
            elif fmt == "vhdx":
                from dissect.hypervisor.disk.vhdx import VHDX
                n = exercise(VHDX(sf))
            elif fmt == "sesparse" or fmt.startswith("vmdk_"):
                from dissect.hypervisor.disk.vmdk import VMDK
                n = exercise(VMDK(sf))
            elif fmt.startswith("qcow2"):
                from dissect.hypervisor.disk.qcow2 import QCow2
                n = exercise(QCow2(sf))
            elif fmt.startswith("hyperv"):
                from dissect.hypervisor.descriptor.hyperv import HyperVFile
                n = len(str(HyperVFile(io.BytesIO(sf.content(0, sf.size))).as_dict()))
            elif fmt == "envelope":
                from dissect.hypervisor.util.envelope import Envelope
                e = Envelope(io.BytesIO(sf.content(0, sf.size)))
                try:
                    n = len(e.decrypt(b"\x00" * 32))
                except Exception as ex:  # noqa: BLE001
                    return {"outcome": "exc", "exc": type(ex).__name__, "stage": "decrypt"}
            elif fmt == "vmtar":
                from dissect.hypervisor.util import vmtar
                tf = vmtar.VisorTarFile(fileobj=io.BytesIO(sf.content(0, sf.size)))
                n = 0
                for mem in tf.getmembers()[:50]:
                    f = tf.extractfile(mem) if mem.isfile() else None
                    n += len(f.read(1 << 20)) if f else 0
            else:
                return {"outcome": "crash", "detail": "unknown format"}
            return {"outcome": "ok", "n": n}
        except MemoryError:
            return {"outcome": "oom"}
        except RecursionError:
            return {"outcome": "exc", "exc": "RecursionError"}
        except Exception as ex:  # noqa: BLE001
            return {"outcome": "exc", "exc": type(ex).__name__}

    def judge(self, case, impl_res, coq_val):
        o = impl_res.get("outcome")
        if o in ("ok", "exc"):
            return []
        return [Finding("impl_fault", f"{case['base']['fmt']} mutant {str(case['mut'])[:120]}: implementation {o} "
                        f"{impl_res.get('detail', '')[:200]}", f"{case['base']['fmt']}:mutant:{o}")]

    def nontrivial(self, case, impl_res, coq_val):
        if case["mut"][0] == "none":
            return None
        return core.sha(core.jdump([case["base"]["fmt"], case["mut"]]).encode())

    def dist(self, case):
        return {"fmt": case["base"]["fmt"], "mut": case["mut"][0]}

    def describe(self, case):
        return {"fmt": case["base"]["fmt"], "mut": case["mut"] if len(str(case["mut"])) < 300 else str(case["mut"])[:300]}


# ----------------------------------------------------------------------------- Parallels shot graphs
DESC = """<?xml version='1.0' encoding='UTF-8'?>
<Parallels_disk_image Version="1.0">
 <StorageData><Storage><Start>0</Start><End>16</End>{images}</Storage></StorageData>
 <Snapshots>{top}{shots}</Snapshots>
</Parallels_disk_image>
"""


def guid(n):
    return "{" + str(uuid.UUID(int=n)) + "}" if n else "{00000000-0000-0000-0000-000000000000}"


class SnapChain(Suite):
    name = "snapchain"
    shard = 100
    per_case_timeout = 8.0
    preamble = ("From Coq Require Import ZArith List.\nImport ListNotations.\nOpen Scope Z_scope.\n"
                "From DH Require Import Base.Plan Model.SnapChain.\n")

    def generate(self, rng, tier):
        out = [{"shots": [[1, 2], [2, 1]], "start": 1}, {"shots": [[1, 1]], "start": 1},
               {"shots": [[3, 2], [2, 1], [1, 3]], "start": 3}]
        for _ in range(400 if tier == "thorough" else 60):
            n = rng.randint(1, 7)
            ids = list(range(1, n + 1))
            shots = []
            for g in ids:
                p = rng.weighted([(0, 2), (rng.pick(ids), 5), (n + 5, 1)])
                shots.append([g, p])
            if rng.chance(0.2):
                shots.append([rng.pick(ids), rng.pick(ids + [0])])     # duplicate guid: first wins
            rng.shuffle(shots)
            out.append({"shots": shots, "start": rng.pick(ids + [n + 9])})
        return out

    def impl(self, case):
        from pathlib import Path
        from uuid import UUID
        from dissect.hypervisor.disk.hdd import Descriptor
        tmp = tempfile.mkdtemp(prefix="verif_c11_")
        try:
            shots = "".join(f"<Shot><GUID>{guid(g)}</GUID><ParentGUID>{guid(p)}</ParentGUID></Shot>" for g, p in case["shots"])
            p = os.path.join(tmp, "DiskDescriptor.xml")
            with open(p, "w") as fh:
                fh.write(DESC.format(images="", top="", shots=shots))
            d = Descriptor(Path(p))
            try:
                chain = d.get_snapshot_chain(UUID(int=case["start"]))
            except Exception as e:  # noqa: BLE001
                return {"outcome": "exc", "exc": type(e).__name__}
            return {"outcome": "ok", "chain": [c.int for c in chain]}
        finally:
            shutil.rmtree(tmp, ignore_errors=True)

    def coq_term(self, case):
        return f"get_snapshot_chain {zpairs(case['shots'])} {Z(case['start'])}"

    def judge(self, case, impl_res, coq_val):
        o = impl_res.get("outcome")
        if o not in ("ok", "exc"):
            return [Finding("impl_fault", f"get_snapshot_chain on shots {case['shots']} from {case['start']}: "
                            f"implementation {o}", f"hdd:snapchain:{o}")]
        m = core.res_of(coq_val)
        if m[0] == "fuel":
            return [Finding("model_vs_spec", "snapshot chain model ran out of fuel", "hdd:snapchain:fuel")]
        if (m[0] == "ok") != (o == "ok"):
            return [Finding("impl_vs_model", f"shots {case['shots']} start {case['start']}: model {m[0]}, "
                            f"implementation {impl_res}", "hdd:snapchain:model")]
        if m[0] == "ok" and list(m[1]) != impl_res["chain"]:
            return [Finding("impl_vs_model", f"chain differs: model {m[1]} implementation {impl_res['chain']}",
                            "hdd:snapchain:model-chain")]
        return []

    def nontrivial(self, case, impl_res, coq_val):
        return core.sha(core.jdump(case).encode()) if len(case["shots"]) >= 2 else None

    def dist(self, case):
        return {"nshots": len(case["shots"])}


# ----------------------------------------------------------------------------- decompression bombs
def qcow2_bomb(cluster_bits, inflated):
    """a version-3 image of one compressed cluster whose deflate stream inflates to `inflated` bytes"""
    cs = 1 << cluster_bits
    co = zlib.compressobj(9, zlib.DEFLATED, -12)
    comp = co.compress(b"\x00" * inflated) + co.flush()
    l1_off, l2_off, data_off = cs, 2 * cs, 3 * cs
    nsect = (len(comp) + (data_off & 511) + 511) // 512
    shift = 62 - (cluster_bits - 8)
    assert nsect - 1 < (1 << (cluster_bits - 8)), "stream too long for this cluster size"
    desc = (1 << 62) | ((nsect - 1) << shift) | data_off
    hdr = struct.pack(">IIQIIQIIQQIIQQQQII", 0x514649FB, 3, 0, 0, cluster_bits, cs, 0, 1, l1_off, 4 * cs + len(comp), 1, 0, 0,
                      0, 0, 0, 4, 104)
    chunks = {0: hdr + b"\x00" * 8, l1_off: struct.pack(">Q", l2_off | (1 << 63)), l2_off: struct.pack(">Q", desc),
              data_off: comp}
    return core.SparseFile(data_off + nsect * 512 + cs, chunks, fill="zero")


class Bombs(Suite):
    """compressed units that inflate far beyond the allocation unit: peak memory must stay near the unit size"""
    name = "bombs"
    per_case_timeout = 60.0
    mem_mb = 3072

    def generate(self, rng, tier):
        out = []
        for cb in (16, 18):
            for inflated in (32 << 20, 96 << 20):
                for req in ([0, 512], [0, 1 << cb], [(1 << cb) - 512, 512], [100, (1 << cb) - 100]):
                    out.append({"fmt": "qcow2", "cluster_bits": cb, "inflated": inflated, "req": req})
        for gs in (16, 128):
            for inflated in (32 << 20, 64 << 20):
                out.append({"fmt": "vmdk", "grain_size": gs, "inflated": inflated, "req": [0, 1], "salt": 0})
                out.append({"fmt": "vmdk", "grain_size": gs, "inflated": inflated, "req": [0, gs], "salt": 0})
                for front in (0, 1 << 32, gs * 4096):
                    # the header copy at sector 0 disagrees with the footer (the header that counts) about the grain size
                    out.append({"fmt": "vmdk", "grain_size": gs, "front_grain_size": front, "inflated": inflated, "req": [0, 1],
                                "salt": 0})
        # a kilobyte of image that claims huge allocation units (nothing allocated): a small request stays small
        for comp in (True, False):
            for gbits in (15, 17, 19):
                for off, n in ((0, 1), (4096, 1), (0, 4096), ((1 << gbits) * 512 - 1, 2)):
                    out.append({"fmt": "vmdk_claim", "compressed": comp, "grain_size": 1 << gbits, "req": [off, n]})
        return out

    def impl(self, case):
        import tracemalloc
        if case["fmt"] == "qcow2":
            from dissect.hypervisor.disk.qcow2 import QCow2
            fh = qcow2_bomb(case["cluster_bits"], case["inflated"])
            q = QCow2(fh)
            tracemalloc.start()
            try:
                q.seek(case["req"][0])
                r = q.read(case["req"][1])
                peak = tracemalloc.get_traced_memory()[1]
            except Exception as e:  # noqa: BLE001
                peak = tracemalloc.get_traced_memory()[1]
                tracemalloc.stop()
                return {"outcome": "exc", "exc": type(e).__name__, "peak": peak, "unit": 1 << case["cluster_bits"]}
            tracemalloc.stop()
            return {"outcome": "ok", "n": len(r), "peak": peak, "unit": 1 << case["cluster_bits"]}
        from dissect.hypervisor.disk.vmdk import VMDK
        if case["fmt"] == "vmdk_claim":
            gs = case["grain_size"]
            flags = 1 | ((c02.F_COMPRESSED | c02.F_LBA) if case["compressed"] else 0)
            img = c02.kdmv_header(flags, 2 * gs, gs, 0, 0, 512, 1, overhead=2, compress=1 if case["compressed"] else 0) + b"\0" * 512
            v = VMDK(io.BytesIO(img))
            tracemalloc.start()
            try:
                v.seek(case["req"][0])
                r = v.read(case["req"][1])
                out = {"outcome": "ok", "n": len(r), "zero": not any(r)}
            except Exception as e:  # noqa: BLE001
                out = {"outcome": "exc", "exc": type(e).__name__}
            out["peak"] = tracemalloc.get_traced_memory()[1]
            tracemalloc.stop()
            out["unit"] = len(img) + case["req"][1]
            return out
        fh = c02.build_bomb(case)
        v = VMDK(fh)
        tracemalloc.start()
        try:
            r = v.read_sectors(*case["req"])
            peak = tracemalloc.get_traced_memory()[1]
        except Exception as e:  # noqa: BLE001
            peak = tracemalloc.get_traced_memory()[1]
            tracemalloc.stop()
            return {"outcome": "exc", "exc": type(e).__name__, "peak": peak, "unit": case["grain_size"] * 512}
        tracemalloc.stop()
        return {"outcome": "ok", "n": len(r), "peak": peak, "unit": case["grain_size"] * 512}

    def judge(self, case, impl_res, coq_val):
        o = impl_res.get("outcome")
        if o not in ("ok", "exc"):
            return [Finding("impl_fault", f"{case['fmt']} bomb {case}: implementation {o}", f"{case['fmt']}:bomb:{o}")]
        bound = 16 * impl_res["unit"] + (8 << 20)
        if case["fmt"] == "vmdk_claim":
            if impl_res["peak"] > bound:
                return [Finding("impl_vs_spec", f"a {impl_res['unit'] - case['req'][1]} byte extent claiming grains of "
                                f"{case['grain_size'] * 512} bytes: request {case['req']} allocated {impl_res['peak']} bytes "
                                f"(bound {bound})", "vmdk:claim:memory")]
            return []
        if impl_res["peak"] > bound:
            return [Finding("impl_vs_spec", f"{case['fmt']} unit of {impl_res['unit']} bytes inflating to {case['inflated']}: "
                            f"request {case['req']} allocated {impl_res['peak']} bytes (bound {bound})",
                            f"{case['fmt']}:bomb:memory")]
        return []

    def nontrivial(self, case, impl_res, coq_val):
        return core.sha(core.jdump(case).encode())

    def dist(self, case):
        return {"fmt": case["fmt"]}


class HypervRaw(c17.RawSuite):
    """corpus-driven: crafted Hyper-V files (object-table cycles ...) must open or raise, never hang"""
    name = "raw"

    def generate(self, rng, tier):
        return []


class VmdkDescText(Suite):
    """Descriptor text (as found in a .vmdk text file or embedded in a sparse extent) that is truncated or damaged inside
    an extent line: long quoted file names without closing quote, with backslashes, quotes, runs of spaces or digits.
    DiskDescriptor.parse must return or raise in time linear in the text (no super-linear pattern matching)."""
    name = "vmdk_desc"
    per_case_timeout = 8.0

    def generate(self, rng, tier):
        n = 400 if tier == "thorough" else 60
        out = []
        head = '# Disk DescriptorFile\nversion=1\nCID=fffffffe\nparentCID=ffffffff\ncreateType="monolithicFlat"\n\n'
        alph = "abcdefghijklmnopqrstuvwxyzABCDEFGHIJKLMNOPQRSTUVWXYZ0123456789-_. "
        while len(out) < n:
            ln = rng.randint(25, 90)
            style = rng.pick(["plain", "backslash", "quotes", "spaces", "digits", "mixed"])
            if style == "plain":
                name = "".join(rng.pick(alph) for _ in range(ln))
            elif style == "backslash":
                name = "".join(rng.pick(["\\\\", "\\", "a", "b", "\\\""]) for _ in range(ln))
            elif style == "quotes":
                name = "".join(rng.pick(['"', "a", " ", '" "']) for _ in range(ln))
            elif style == "spaces":
                name = "".join(rng.pick([" ", " ", "\t", "x"]) for _ in range(ln))
            elif style == "digits":
                name = "".join(rng.pick(["1", "2 ", " 3", "0"]) for _ in range(ln))
            else:
                name = "".join(rng.pick(list(alph) + ["\\", '"', " 0 ", "\t"]) for _ in range(ln))
            typ = rng.pick(["FLAT", "SPARSE", "VMFS", "SESPARSE", "VMFSSPARSE", "ZERO"])
            line = f'{rng.pick(["RW", "RDONLY", "NOACCESS"])} {rng.randint(1, 1 << 40)} {typ} "{name}.vmdk" {rng.pick(["0", "", "63", "12 part dev"])}'
            q0 = line.index('"')
            how = rng.weighted([("cut_in_name", 6), ("cut_anywhere", 2), ("no_close", 3), ("whole", 1), ("tail_junk", 2)])
            if how == "cut_in_name":
                line = line[:rng.randint(q0 + 20, max(q0 + 21, len(line) - 8))]
            elif how == "cut_anywhere":
                line = line[:rng.randint(1, len(line))]
            elif how == "no_close":
                line = line.replace('.vmdk"', ".vmdk", 1)
            elif how == "tail_junk":
                line = line + rng.pick([' "', " \\", ' x" y', " 1 2 3 4 5 6 7 8 9"]) * rng.randint(1, 12)
            text = head + line + rng.pick(["", "\n", "\r\n", '\nddb.adapterType = "ide"\n'])
            out.append({"text": text, "style": style, "how": how})
        return out

    def impl(self, case):
        from dissect.hypervisor.disk.vmdk import DiskDescriptor
        try:
            d = DiskDescriptor.parse(case["text"])
            return {"res": "ok", "extents": len(d.extents)}
        except Exception as e:  # noqa: BLE001
            return {"res": "exc", "exc": type(e).__name__}

    def judge(self, case, impl_res, coq_val):
        if impl_res.get("outcome") in ("hang", "crash", "oom"):
            return [Finding("impl_fault", f"descriptor text ({case['style']}, {case['how']}, {len(case['text'])} chars): "
                            f"DiskDescriptor.parse {impl_res['outcome']}", f"vmdk:desc:{impl_res['outcome']}")]
        return []

    def nontrivial(self, case, impl_res, coq_val):
        return core.sha(case["text"].encode())

    def dist(self, case):
        return {"style": case["style"], "how": case["how"]}


class HddSplitTerm(c06.HddSplit):
    """Parallels disks split over storages (sizes that are no multiple of the stream buffer, reads up to and past the last
    sector): only termination and bounded memory are judged here; the bytes are C06 / C07 / C10's business."""
    name = "hdd_split_term"

    def coq_term(self, case):
        return None

    def judge(self, case, impl_res, coq_val):
        if impl_res.get("outcome") in ("hang", "crash", "oom"):
            return [Finding("impl_fault", f"split .hdd ({case['total']} sectors): implementation {impl_res['outcome']}",
                            "hdd:split:" + impl_res["outcome"])]
        for r in impl_res.get("reqs", []):
            if isinstance(r, dict) and r.get("outcome") in ("hang", "oom"):
                return [Finding("impl_fault", f"split .hdd: a read {r['outcome']}", "hdd:split:read-" + r["outcome"])]
        return []


class HypervMal(c17.MalSuite):
    """C17's malformed Hyper-V files (every structural field corrupted in turn, free slots of size 0, table cycles):
    here only termination and bounded memory are judged; what the decoder returns is C17's business."""
    name = "hyperv_mal"

    def coq_term(self, case):
        return None

    def judge(self, case, impl_res, coq_val):
        if impl_res.get("outcome") in ("hang", "crash", "oom"):
            return [Finding("impl_fault", f"Hyper-V file with mutation {case['mutation']}: implementation {impl_res['outcome']}",
                            f"hyperv:mal:{case['mutation']}:{impl_res['outcome']}")]
        return []

    def nontrivial(self, case, impl_res, coq_val):
        return core.sha(core.jdump(case).encode())


class ParentGraphs(Suite):
    """Parent references that are followed by path (VHDX parent locators with a relative and an absolute entry that both
    resolve; VMDK descriptors with parentFileNameHint): chains of 2..30 links ending in a good base, a damaged base, a
    missing file, a link back into the chain, or the image itself.  Opening returns or raises, and constructs no more
    reader objects than a few per link (a cycle: no more than the interpreter's recursion limit allows) — not a number
    that doubles with every link."""
    name = "parent_graphs"
    per_case_timeout = 60.0
    shard = 100

    def generate(self, rng, tier):
        out = []
        ends = ["base-ok", "base-damaged", "missing", "cycle", "self"]
        for fmt in ("vhdx", "vmdk"):
            for end in ends:
                depths = [2, rng.randint(3, 9), rng.randint(10, 18), rng.randint(19, 30)] if tier == "thorough" else \
                    [rng.randint(2, 6), rng.randint(14, 26)]
                for d in depths:
                    out.append({"fmt": fmt, "end": end, "depth": 1 if end == "self" else d, "back": rng.randrange(0, d),
                                "abs_same": rng.chance(0.5), "salt": rng.randrange(1 << 20)})
        # Parallels bundles whose image file is named by a path that exists nowhere (a linked clone whose base was not
        # collected): relative, absolute, Windows-style, deep
        for name in ("gone.hds", "/no/such/place/base.hds", "C:\\Users\\x\\VMs\\base.pvm\\disk.hdd\\base.hds",
                     "/" + "/".join(f"d{i}" for i in range(rng.randint(20, 60))) + "/base.hds", "../../elsewhere/base.hds"):
            out.append({"fmt": "hdd", "end": "missing", "depth": 1, "image": name, "back": 0, "abs_same": True, "salt": 0})
        return out

    def build(self, case, tmp):
        d, fmt, end = case["depth"], case["fmt"], case["end"]
        vm, other = os.path.join(tmp, "vm"), os.path.join(tmp, "elsewhere")
        os.makedirs(vm)
        os.makedirs(other)
        ext = "vhdx" if fmt == "vhdx" else "vmdk"
        names = [f"link{i}.{ext}" for i in range(d)]

        def target(i):            # the parent of link i: (file name or None)
            if i < d - 1:
                return names[i + 1]
            return {"base-ok": None, "base-damaged": None, "missing": "gone." + ext, "cycle": names[case["back"] % d],
                    "self": names[i]}[end]
        for i, nm in enumerate(names):
            par = target(i)
            path = os.path.join(vm, nm)
            if fmt == "vhdx":
                c = {"size": MB, "block_size": MB, "sector_size": 512, "blocks": [[0, 0]], "bat_offset": 3 * MB,
                     "file_size": 4 * MB, "has_parent": par is not None, "salt": case["salt"] + i, "disk_id": i + 1}
                if par is not None:
                    ap = os.path.join(vm if case["abs_same"] else other, par)
                    c["locator"] = {"relative_path": ".\\" + par, "absolute_win32_path": ap.lstrip("/").replace("/", "\\")}
                    if not case["abs_same"] and par != "gone." + ext and not os.path.exists(ap):
                        os.symlink(os.path.join(vm, par), ap)      # the registered absolute path leads to the same file
                sf = fmt_vhdx.build(c)
                with open(path, "wb") as fh:
                    fh.truncate(c["file_size"])
                    for off, b in sf._chunks:
                        fh.seek(off)
                        fh.write(b)
            else:
                with open(path, "w") as fh:
                    fh.write("# Disk DescriptorFile\nversion=1\nCID=%08x\nparentCID=%s\n" % (i + 1, "ffffffff" if par is None else "%08x" % (i + 2)))
                    if par is not None:
                        fh.write('parentFileNameHint="%s"\n' % par)
                    fh.write('createType="monolithicFlat"\nRW 8 FLAT "data-flat.bin" 0\n')
            if i == d - 1 and end == "base-damaged":
                with open(path, "r+b") as fh:
                    fh.seek(0)
                    fh.write(b"\xde\xad" * 64 if fmt == "vhdx" else b"KDMV" + b"\xff" * 60)
        with open(os.path.join(vm, "data-flat.bin"), "wb") as fh:
            fh.write(bytes(8 * 512))
        return os.path.join(vm, names[0])

    def impl_hdd(self, case):
        from pathlib import Path
        from dissect.hypervisor.disk.hdd import HDD
        tmp = tempfile.mkdtemp(prefix="verif_c11h_")
        try:
            d = os.path.join(tmp, "vm.pvm", "disk.hdd")
            os.makedirs(d)
            img = f"<Image><GUID>{guid(1)}</GUID><Type>Compressed</Type><File>{case['image']}</File></Image>"
            shots = f"<Shot><GUID>{guid(1)}</GUID><ParentGUID>{guid(0)}</ParentGUID></Shot>"
            with open(os.path.join(d, "DiskDescriptor.xml"), "w") as fh:
                fh.write(DESC.format(images=img, top=f"<TopGUID>{guid(1)}</TopGUID>", shots=shots))
            try:
                n = len(HDD(Path(d)).open().read(512))
                return {"outcome": "ok", "n": n, "objects": 0, "limit": 0}
            except Exception as e:  # noqa: BLE001
                return {"outcome": "exc", "exc": type(e).__name__, "objects": 0, "limit": 0}
        finally:
            shutil.rmtree(tmp, ignore_errors=True)

    def impl(self, case):
        import sys
        from pathlib import Path
        if case["fmt"] == "hdd":
            return self.impl_hdd(case)
        if case["fmt"] == "vhdx":
            import dissect.hypervisor.disk.vhdx as mod
            cls_name = "VHDX"
        else:
            import dissect.hypervisor.disk.vmdk as mod
            cls_name = "VMDK"
        orig = getattr(mod, cls_name)
        count = [0]

        class Counting(orig):
            def __init__(self, *a, **k):
                count[0] += 1
                super().__init__(*a, **k)
        Counting.__name__ = cls_name
        tmp = tempfile.mkdtemp(prefix="verif_c11g_")
        setattr(mod, cls_name, Counting)
        try:
            top = self.build(case, tmp)
            try:
                v = Counting(Path(top))
                n = len(v.read(4096))
                res = {"outcome": "ok", "n": n}
            except RecursionError:
                res = {"outcome": "exc", "exc": "RecursionError"}
            except Exception as e:  # noqa: BLE001
                res = {"outcome": "exc", "exc": type(e).__name__}
            res["objects"] = count[0]
            res["limit"] = sys.getrecursionlimit()
            return res
        finally:
            setattr(mod, cls_name, orig)
            shutil.rmtree(tmp, ignore_errors=True)

    def judge(self, case, impl_res, coq_val):
        o = impl_res.get("outcome")
        label = f"{case['fmt']} chain of {case['depth']} links ending in {case['end']}"
        if o not in ("ok", "exc"):
            return [Finding("impl_fault", f"{label}: implementation {o} {impl_res.get('detail', '')[:200]}",
                            f"{case['fmt']}:parents:{o}")]
        bound = impl_res["limit"] + 8 if case["end"] in ("cycle", "self") else 4 * case["depth"] + 8
        fs = []
        if impl_res["objects"] > bound:
            fs.append(Finding("impl_vs_spec", f"{label}: {impl_res['objects']} reader objects were constructed (bound {bound})",
                              f"{case['fmt']}:parents:fanout"))
        if case["end"] == "base-ok" and o != "ok":
            fs.append(Finding("impl_vs_spec", f"{label}: a well-formed chain was refused ({impl_res.get('exc')})",
                              f"{case['fmt']}:parents:refused"))
        return fs

    def nontrivial(self, case, impl_res, coq_val):
        return core.sha(core.jdump(case).encode())

    def dist(self, case):
        return {"fmt": case["fmt"], "end": case["end"], "depth": case["depth"] // 10 * 10}


SUITES = {"raw": HypervRaw(), "parent_graphs": ParentGraphs(), "hdd_split_term": HddSplitTerm(), "hyperv_mal": HypervMal(), "vmdk_desc": VmdkDescText(), "bombs": Bombs(), "wild_vdi": WildVdi(), "wild_hds": WildHds(), "wild_vhdx": WildVhdx(), "mutants": Mutants(),
          "snapchain": SnapChain()}
