"""C12 — foreign or unsupported inputs are refused, not misread."""
from __future__ import annotations

import gzip
import os
import shutil
import struct
import tempfile
import uuid

from harness import core, fmt_vhdx
from harness.core import Z, zlist, cbool
from harness.main import Finding, Suite
from harness.props import c01, c02, c03, c05, c06

PROPERTY = "C12"
PROPS_FILE = "Props/C12.v"
MODEL_FILES = ["Model/Gates.v"]
META = {
    "category": "proof",
    "text": "Coq theorems, one per validating constructor (QCOW2, VHDX incl. region/metadata tables and parent locator, VDI, "
            "HDS, HDD, VMDK sparse header and the 64-bit SESparse magic that selects the layout, Hyper-V file/replay log/object table/key table, ESXi envelope, keystore, VMX key "
            "safe): accepted implies magic/version/geometry/feature values inside the supported set, over ALL field values. "
            "The gate models are tied to the source by a regenerated inventory of every raise statement with its path "
            "condition (pinned by a lemma: a deleted/widened/reordered gate breaks it) and by differential correspondence on "
            "exhaustive mutants (every bit of every magic, boundary versions, missing regions/items/attributes, foreign "
            "identifiers).",
    "design_ref": "DESIGN.md §6 C12",
    "note": "Trusted: Coq kernel; hand-written Model/Gates.v; tools/translate_gates.py (syntactic raise inventory); the "
            "harness's independent decoding of mutated headers into gate fields. QCOW2 mutants use C01's image writer.",
    "technique": "Coq proof (accepted => supported) over gate models + generated raise inventory + exhaustive mutant correspondence",
    "rule": "for each gate: every single-bit flip of the magic/signature, versions in [accepted-2, accepted+2] u {0, 2^16, 2^32-1}, "
            "each missing mandatory region/item/attribute, foreign identifiers, applied to an otherwise valid input. "
            "Non-trivial = the mutant changes a validated field (not a no-op); distinct by (format, mutation).",
    "trusted_base": ["Model/Gates.v hand-written; Gen/Gates.v raise inventory"],
    "assumptions": [],
}
DATA = os.path.join(core.REPO, "tests", "data")
MB = 1 << 20


def bitflips(nbytes):
    return [(i, 1 << b) for i in range(nbytes) for b in range(8)]


def patched(sf: core.SparseFile, off: int, data: bytes) -> core.SparseFile:
    chunks = dict(sf._chunks)
    chunks[("patch", off)] = None
    chunks.pop(("patch", off))
    # apply on top: later chunks override earlier in content(); keep order by appending
    out = core.SparseFile(sf.size, dict(sf._chunks), salt=sf.salt, fill=sf.fill)
    out._chunks = list(sf._chunks) + [(off, data)]
    return out


class MutantSuite(Suite):
    shard = 200
    preamble = ("From Coq Require Import ZArith List Bool.\nImport ListNotations.\nOpen Scope Z_scope.\n"
                "From DH Require Import Base.Plan Model.Gates.\n")
    fmt = "x"

    def judge(self, case, impl_res, coq_val):
        fmt = self.fmt
        if isinstance(impl_res, dict) and impl_res.get("outcome") in ("hang", "crash", "oom"):
            return [Finding("impl_fault", f"{case['mut']}: implementation {impl_res}", f"{fmt}:gate:{impl_res['outcome']}")]
        accepted = impl_res["accepted"]
        model_ok = coq_val == ("Ok", "tt")
        fs = []
        must_reject = case["must_reject"]
        if must_reject and accepted:
            fs.append(Finding("impl_vs_spec", f"{fmt}: mutant {case['mut']} outside the supported set was accepted "
                              f"and served ({impl_res.get('detail', '')})", f"{fmt}:gate:accepted:{case['mut'][0]}"))
        if not must_reject and not accepted and case.get("must_accept"):
            fs.append(Finding("impl_vs_spec", f"{fmt}: valid input {case['mut']} was refused: {impl_res.get('exc')}",
                              f"{fmt}:gate:refused-valid"))
        if model_ok != accepted:
            fs.append(Finding("impl_vs_model", f"{fmt}: mutant {case['mut']}: model {'accepts' if model_ok else 'rejects'}, "
                              f"implementation {'accepts' if accepted else 'rejects (' + str(impl_res.get('exc')) + ')'}",
                              f"{fmt}:gate:model:{case['mut'][0]}"))
        if model_ok and must_reject:
            fs.append(Finding("model_vs_spec", f"{fmt}: model accepts {case['mut']} which is outside the supported set",
                              f"{fmt}:gate:mvs"))
        return fs

    def nontrivial(self, case, impl_res, coq_val):
        return core.sha(core.jdump([self.fmt, case["mut"]]).encode()) if case["mut"][0] != "none" else None

    def dist(self, case):
        return {"mut": case["mut"][0], "must_reject": case["must_reject"]}

    def describe(self, case):
        return {"fmt": self.fmt, "mut": case["mut"], "must_reject": case["must_reject"]}

    @staticmethod
    def attempt(fn):
        try:
            detail = fn()
            return {"accepted": True, "detail": str(detail)[:100]}
        except Exception as e:  # noqa: BLE001
            return {"accepted": False, "exc": type(e).__name__}


# ----------------------------------------------------------------------------- VHDX
class VhdxGates(MutantSuite):
    name = "vhdx"
    fmt = "vhdx"
    OFFS = {"fid": (0, 8), "h1": (65536, 4), "h2": (131072, 4), "rt1": (196608, 4), "rt2": (262144, 4)}

    def generate(self, rng, tier):
        base = c03.gen_case(rng, "quick")
        while base["size"] > 8 * MB:
            base = c03.gen_case(rng, "quick")
        base.pop("reqs")
        out = [{"base": base, "mut": ["none"], "must_reject": False, "must_accept": True}]
        for seqs in ([5, 7], [9, 3], [4, 4]):
            b = dict(base, header_seq=seqs)
            active = "h1" if seqs[0] > seqs[1] else "h2"
            for name, (off, n) in self.OFFS.items():
                flips = bitflips(n)
                if tier != "thorough" and seqs != [5, 7]:
                    flips = [flips[i] for i in sorted(rng.sample(range(len(flips)), 6))]
                for i, m in flips:
                    validated = name not in ("h1", "h2") or name == active
                    out.append({"base": b, "mut": ["bit", name, i, m], "must_reject": validated})
            for i, m in (bitflips(8) if (tier == "thorough" or seqs == [5, 7]) else []):
                out.append({"base": b, "mut": ["bit", "meta", i, m], "must_reject": True})
        for r in ("bat", "meta"):
            out.append({"base": dict(base, omit_regions=[r]), "mut": ["omit_region", r], "must_reject": True})
        for it in ("file_parameters", "size", "id", "lss"):
            out.append({"base": dict(base, omit_items=[it]), "mut": ["omit_item", it], "must_reject": True})
        out.append({"base": dict(base, omit_items=["pss"]), "mut": ["omit_item", "pss"], "must_reject": False})
        out.append({"base": dict(base, extra_item=str(uuid.UUID(int=0xABCDEF))), "mut": ["unknown_item"], "must_reject": True})
        hp = dict(base, has_parent=True, blocks=[[0, 0] for _ in base["blocks"]])
        out.append({"base": dict(hp, locator_type=str(uuid.UUID(int=99))), "mut": ["foreign_locator"], "must_reject": True})
        out.append({"base": dict(hp, omit_locator=True), "mut": ["missing_locator"], "must_reject": True})
        out.append({"base": hp, "mut": ["parent_missing"], "must_reject": True})
        # the same three through a handle that has no name (io.BytesIO, a stream of a virtual file system): a differencing
        # image whose parent cannot be located must still be refused, not served alone
        for c in list(out[-3:]):
            out.append(dict(c, mut=c["mut"] + ["nameless"], nameless=True))
        return out

    def _file(self, case):
        b = case["base"]
        sf = fmt_vhdx.build(b, name="/nonexistent_dir_verif/child.vhdx")
        m = case["mut"]
        if m[0] == "bit":
            off = b.get("meta_offset", 2 * MB) if m[1] == "meta" else self.OFFS[m[1]][0]
            orig = sf.content(off + m[2], 1)[0]
            sf = patched(sf, off + m[2], bytes([orig ^ m[3]]))
            sf.name = "/nonexistent_dir_verif/child.vhdx"
        if case.get("nameless"):
            sf.name = None
        return sf

    def impl(self, case):
        from dissect.hypervisor.disk.vhdx import VHDX
        sf = self._file(case)

        def f():
            v = VHDX(sf)
            return v.read(512)[:8].hex()
        return self.attempt(f)

    def coq_term(self, case):
        b, m = case["base"], case["mut"]
        sigs = {"fid": b"vhdxfile", "h1": b"head", "h2": b"head", "rt1": b"regi", "rt2": b"regi", "meta": b"metadata"}
        if m[0] == "bit":
            s = bytearray(sigs[m[1]])
            s[m[2]] ^= m[3]
            sigs[m[1]] = bytes(s)
        seqs = b.get("header_seq", [5, 7])
        omit_r = b.get("omit_regions", [])
        omit_i = b.get("omit_items", [])
        hp = bool(b.get("has_parent"))
        f = lambda x: zlist(list(x))  # noqa: E731
        return (f"vhdx_gate {{| xf_sig := {f(sigs['fid'])}; xh1_seq := {seqs[0]}; xh2_seq := {seqs[1]}; "
                f"xh1_sig := {f(sigs['h1'])}; xh2_sig := {f(sigs['h2'])}; xrt1_sig := {f(sigs['rt1'])}; "
                f"xrt2_sig := {f(sigs['rt2'])}; x_has_meta_region := {cbool('meta' not in omit_r)}; "
                f"x_has_bat_region := {cbool('bat' not in omit_r)}; xm_sig := {f(sigs['meta'])}; "
                f"x_items_known := {cbool(not b.get('extra_item'))}; x_has_size := {cbool('size' not in omit_i)}; "
                f"x_has_fp := {cbool('file_parameters' not in omit_i)}; x_has_lss := {cbool('lss' not in omit_i)}; "
                f"x_has_id := {cbool('id' not in omit_i)}; x_hp := {cbool(hp)}; "
                f"x_has_locator := {cbool(not b.get('omit_locator'))}; x_loc_type_ok := {cbool(not b.get('locator_type'))}; "
                f"x_parent_opens := false |}}")


# ----------------------------------------------------------------------------- VDI / HDS / HDD
class VdiGates(MutantSuite):
    name = "vdi"
    fmt = "vdi"

    def generate(self, rng, tier):
        base = c05.gen_case(rng, "quick")
        base.pop("reqs")
        out = [{"base": base, "mut": ["none"], "sig": 0xBEDA107F, "must_reject": False, "must_accept": True}]
        for i, m in bitflips(4):
            out.append({"base": base, "mut": ["bit", i, m], "sig": 0xBEDA107F ^ (m << (8 * i)), "must_reject": True})
        for v in (0, 1, 0xFFFFFFFF, 0xBEDA107E, 0x7F10DABE):
            out.append({"base": base, "mut": ["value", v], "sig": v, "must_reject": True})
        return out

    def impl(self, case):
        from dissect.hypervisor.disk.vdi import VDI
        sf = c05.SUITES["vdi"].build_files(case["base"])["file"]
        sf = patched(sf, 64, struct.pack("<I", case["sig"]))
        return self.attempt(lambda: VDI(sf).read(16).hex())

    def coq_term(self, case):
        return f"vdi_gate {case['sig']}"


class HdsGates(MutantSuite):
    name = "hds"
    fmt = "hds"

    def generate(self, rng, tier):
        out = []
        for ver in (1, 2):
            base = c06.gen_case(rng, "quick")
            while base["kind"] != f"v{ver}":
                base = c06.gen_case(rng, "quick")
            base.pop("reqs")
            sig = c06.SIG1 if ver == 1 else c06.SIG2
            out.append({"base": base, "mut": ["none", ver], "sig": sig.hex(), "must_reject": False, "must_accept": True})
            for i, m in bitflips(16):
                s = bytearray(sig)
                s[i] ^= m
                out.append({"base": base, "mut": ["bit", ver, i, m], "sig": bytes(s).hex(), "must_reject": True})
            out.append({"base": base, "mut": ["swap", ver], "sig": (c06.SIG2 if ver == 1 else c06.SIG1).hex(),
                        "must_reject": False})
        return out

    def impl(self, case):
        from dissect.hypervisor.disk.hdd import HDS
        sf = c06.SUITES["hds"].build_files(case["base"])["file"]
        sf = patched(sf, 0, bytes.fromhex(case["sig"]))
        return self.attempt(lambda: HDS(sf).read(16).hex())

    def coq_term(self, case):
        return f"hds_gate {zlist(list(bytes.fromhex(case['sig'])))}"


DESCRIPTOR = """<?xml version='1.0' encoding='UTF-8'?>
<Parallels_disk_image Version="1.0">
 <Disk_Parameters><Disk_size>{sectors}</Disk_size></Disk_Parameters>
 <StorageData>
  <Storage><Start>0</Start><End>{sectors}</End><Blocksize>2048</Blocksize>
   {images}
  </Storage>
 </StorageData>
 <Snapshots>
  <Shot><GUID>{{5fbaabe3-6958-40ff-92a7-860e329aab41}}</GUID><ParentGUID>{{00000000-0000-0000-0000-000000000000}}</ParentGUID></Shot>
 </Snapshots>
</Parallels_disk_image>
"""


class HddGates(MutantSuite):
    name = "hdd"
    fmt = "hdd"

    def generate(self, rng, tier):
        out = []
        for t in ("Plain", "Compressed", "Expanding", "plain", "", "Raw", "Compressed2"):
            out.append({"mut": ["image_type", t], "type": t, "descriptor": True,
                        "must_reject": t not in ("Plain", "Compressed"), "must_accept": t in ("Plain", "Compressed")})
        out.append({"mut": ["no_descriptor"], "type": "Plain", "descriptor": False, "must_reject": True})
        # split disks: an unsupported type in the second / last storage must be refused as well
        for t in ("Expanding", "Raw", ""):
            for pos, n in ((1, 2), (2, 3), (0, 2)):
                types = ["Compressed"] * n
                types[pos] = t
                out.append({"mut": ["image_type_split", t, pos, n], "types": types, "type": t, "descriptor": True,
                            "must_reject": True})
        out.append({"mut": ["split_ok"], "types": ["Compressed", "Plain", "Compressed"], "type": "Plain", "descriptor": True,
                    "must_reject": False, "must_accept": True})
        return out

    def impl(self, case):
        from pathlib import Path
        from dissect.hypervisor.disk.hdd import HDD
        tmp = tempfile.mkdtemp(prefix="verif_c12_")
        try:
            d = os.path.join(tmp, "x.hdd")
            os.makedirs(d)
            img = ("<Image><GUID>{5fbaabe3-6958-40ff-92a7-860e329aab41}</GUID><Type>%s</Type><File>x.hds</File></Image>"
                   % case["type"])
            if case["descriptor"] and case.get("types"):
                stor = ""
                for i, t in enumerate(case["types"]):
                    stor += ("<Storage><Start>%d</Start><End>%d</End><Blocksize>2048</Blocksize><Image><GUID>"
                             "{5fbaabe3-6958-40ff-92a7-860e329aab41}</GUID><Type>%s</Type><File>%s</File></Image></Storage>"
                             % (16 * i, 16 * (i + 1), t, "x.hds" if t != "Plain" else "p.raw"))
                xml = DESCRIPTOR.format(sectors=16, images=img)
                a = xml.index("<Storage>")
                b = xml.index("</StorageData>")
                with open(os.path.join(d, "DiskDescriptor.xml"), "w") as fh:
                    fh.write(xml[:a] + stor + xml[b:])
                with open(os.path.join(d, "p.raw"), "wb") as fh:
                    fh.write(core.stamp(0, 16 * 512, 3))
            elif case["descriptor"]:
                with open(os.path.join(d, "DiskDescriptor.xml"), "w") as fh:
                    fh.write(DESCRIPTOR.format(sectors=16, images=img))
            hcase = {"kind": "v2", "version": 2, "m_sectors": 8, "size": 16 * 512, "bat": [1, 0], "first_block": 8,
                     "file_size": 3 * 4096, "salt": 1}
            sf = c06.SUITES["hds"].build_files(hcase)["file"]
            with open(os.path.join(d, "x.hds"), "wb") as fh:
                fh.write(sf.content(0, sf.size) if (case["type"] != "Plain" or case.get("types")) else core.stamp(0, 16 * 512, 3))
            return self.attempt(lambda: HDD(Path(d)).open().read().hex()[:16])
        finally:
            shutil.rmtree(tmp, ignore_errors=True)

    def coq_term(self, case):
        ts = [{"Compressed": 0, "Plain": 1}.get(t, 2) for t in case.get("types", [case["type"]])]
        return f"hdd_gate {cbool(case['descriptor'])} {zlist(ts)}"


# ----------------------------------------------------------------------------- Hyper-V (mutations of the real samples)
class HypervGates(MutantSuite):
    name = "hyperv"
    fmt = "hyperv"

    @staticmethod
    def parse(buf):
        def hdr(o):
            sig, _, seq, ver = struct.unpack_from("<IIHI", buf, o)
            rlo = struct.unpack_from("<Q", buf, o + 26)[0]
            return sig, seq, ver, rlo
        h1, h2 = hdr(0), hdr(0x1000)
        act = h1 if h1[1] > h2[1] else h2
        rsig = struct.unpack_from("<I", buf, act[3])[0] if act[3] + 4 <= len(buf) else 0
        osig, n = struct.unpack_from("<II", buf, 0x2000)
        ktabs = []
        for i in range(min(n, 4096)):
            o = 0x2008 + 18 * i
            if o + 18 > len(buf):
                break
            typ, _, off, size, alloc = struct.unpack_from("<BIQIB", buf, o)
            if alloc and typ == 2 and off + 2 <= len(buf):
                ktabs.append((off, struct.unpack_from("<H", buf, off)[0]))
        return h1, h2, act, rsig, osig, ktabs

    def generate(self, rng, tier):
        out = []
        # each sample as it is (first header slot active) and with its two header slots exchanged (second slot active):
        # the gate applies to the header that is used, wherever it lies
        for fn, swap in (("test.vmcx", False), ("test.VMRS", False), ("test.vmcx", True), ("test.VMRS", True)):
            buf = self._bytes({"file": fn, "swap": swap, "patch": []})
            h1, h2, act, rsig, osig, ktabs = self.parse(buf)
            a_off = 0 if act is h1 else 0x1000
            i_off = 0x1000 if act is h1 else 0
            out.append({"file": fn, "mut": ["none"], "patch": [], "must_reject": False, "must_accept": True})
            flips4 = bitflips(4)
            sample = flips4 if tier == "thorough" else [flips4[i] for i in sorted(rng.sample(range(32), 10))]
            for i, m in flips4:
                out.append({"file": fn, "mut": ["bit", "active_sig", i, m], "patch": [[a_off + i, m]], "must_reject": True})
            for i, m in sample:
                out.append({"file": fn, "mut": ["bit", "inactive_sig", i, m], "patch": [[i_off + i, m]], "must_reject": False})
                out.append({"file": fn, "mut": ["bit", "replay_sig", i, m], "patch": [[act[3] + i, m]], "must_reject": True})
                out.append({"file": fn, "mut": ["bit", "objtab_sig", i, m], "patch": [[0x2000 + i, m]], "must_reject": True})
            for (koff, _) in ktabs[:3]:
                for i, m in bitflips(2):
                    out.append({"file": fn, "mut": ["bit", "keytab_sig", koff, i, m], "patch": [[koff + i, m]],
                                "must_reject": True})
            for v in (0x3FE, 0x3FF, 0x401, 0x402, 0, 0x10000, 0xFFFFFFFF):
                out.append({"file": fn, "mut": ["version", v], "set": [a_off + 10, struct.pack("<I", v).hex()], "patch": [],
                            "must_reject": True})
            for c in out:
                if "swap" not in c:
                    c["swap"] = swap
                    if swap:
                        c["mut"] = c["mut"] + ["slots-exchanged"]
        return out

    def _bytes(self, case):
        buf = bytearray(open(os.path.join(DATA, case["file"]), "rb").read())
        if case.get("swap"):
            buf[0:0x1000], buf[0x1000:0x2000] = buf[0x1000:0x2000], buf[0:0x1000]
        for off, m in case["patch"]:
            buf[off] ^= m
        if case.get("set"):
            off, hx = case["set"]
            b = bytes.fromhex(hx)
            buf[off:off + len(b)] = b
        return bytes(buf)

    def impl(self, case):
        import io
        from dissect.hypervisor.descriptor.hyperv import HyperVFile
        buf = self._bytes(case)
        return self.attempt(lambda: len(HyperVFile(io.BytesIO(buf)).as_dict()))

    def coq_term(self, case):
        h1, h2, act, rsig, osig, ktabs = self.parse(self._bytes(case))
        return (f"hyperv_gate {{| hv1_seq := {h1[1]}; hv2_seq := {h2[1]}; hv1_sig := {h1[0]}; hv2_sig := {h2[0]}; "
                f"hv1_ver := {h1[2]}; hv2_ver := {h2[2]}; hv_replay_sig := {rsig}; hv_objtab_sigs := [{osig}]; "
                f"hv_keytab_sigs := {zlist([k for _, k in ktabs])} |}}")


class HypervChainGates(HypervGates):
    """Generated Hyper-V files whose first object table lists further object tables (the format allows a chain; the samples do
    not use it): every key table and object table reachable through the chain is behind the same signature gates."""
    name = "hyperv_chain"

    @staticmethod
    def parse_chain(buf):
        """independent walk over the chain of object tables -> (object-table signatures, key-table signatures with offsets)"""
        osigs, ksigs, seen, todo = [], [], set(), [0x2000]
        while todo and len(seen) < 64:
            t = todo.pop(0)
            if t in seen or t + 8 > len(buf):
                continue
            seen.add(t)
            osig, n = struct.unpack_from("<II", buf, t)
            osigs.append((t, osig))
            if osig != 0x01110001:
                continue
            for i in range(min(n, 4096)):
                o = t + 8 + 18 * i
                if o + 18 > len(buf):
                    break
                typ, _, off, size, alloc = struct.unpack_from("<BIQIB", buf, o)
                if not alloc:
                    continue
                if typ == 1:
                    todo.append(off)
                elif typ == 2 and off + 2 <= len(buf):
                    ksigs.append((off, struct.unpack_from("<H", buf, off)[0]))
        return osigs, ksigs

    def generate(self, rng, tier):
        from harness.props import c17
        out = []
        nb = 6 if tier == "thorough" else 2
        tries = 0
        while sum(1 for c in out if c["mut"] == ["none"]) < nb and tries < 3000:
            tries += 1
            hc = c17.gen_case(rng, "quick")
            sf = c17.open_sparse(hc)
            if hc["dims"]["n_otabs"] < 2 or hc["dims"]["high"] or sf.size > (1 << 20):
                continue
            buf = sf.content(0, sf.size)
            osigs, ksigs = self.parse_chain(buf)
            first_only = {off for off, _ in self.parse(buf)[5]}
            chained = [(off, sg) for off, sg in ksigs if off not in first_only]
            if len(osigs) < 2 or not chained:
                continue
            base = {"hex": buf.hex()}
            out.append({"base": base, "mut": ["none"], "patch": [], "must_reject": False, "must_accept": True})
            for (toff, _) in osigs[1:3]:
                for i, m in (bitflips(4) if tier == "thorough" else [bitflips(4)[k] for k in sorted(rng.sample(range(32), 8))]):
                    out.append({"base": base, "mut": ["bit", "chained_objtab_sig", toff, i, m], "patch": [[toff + i, m]],
                                "must_reject": True})
            for (koff, _) in chained[:3]:
                for i, m in bitflips(2):
                    out.append({"base": base, "mut": ["bit", "chained_keytab_sig", koff, i, m], "patch": [[koff + i, m]],
                                "must_reject": True})
        return out

    def _bytes(self, case):
        buf = bytearray(bytes.fromhex(case["base"]["hex"]))
        for off, m in case["patch"]:
            buf[off] ^= m
        return bytes(buf)

    def coq_term(self, case):
        buf = self._bytes(case)
        h1, h2, act, rsig, _, _ = self.parse(buf)
        osigs, ksigs = self.parse_chain(buf)
        return (f"hyperv_gate {{| hv1_seq := {h1[1]}; hv2_seq := {h2[1]}; hv1_sig := {h1[0]}; hv2_sig := {h2[0]}; "
                f"hv1_ver := {h1[2]}; hv2_ver := {h2[2]}; hv_replay_sig := {rsig}; hv_objtab_sigs := {zlist([s for _, s in osigs])}; "
                f"hv_keytab_sigs := {zlist([k for _, k in ksigs])} |}}")


class VmxPairsGates(MutantSuite):
    """Encrypted .vmx files whose key safe lists several passphrase pairs, some naming a pass2key or cipher algorithm that
    is not one of the module's tables, in front of or behind the pair the passphrase opens: unlocking walks the pairs in
    order and an unsupported one is never skipped."""
    name = "vmx_pairs"
    fmt = "vmx"

    def generate(self, rng, tier):
        from harness.props import c15
        out = []
        shapes = [["good"], ["bad"], ["bad", "good"], ["good", "bad"], ["foreign", "bad", "good"], ["foreign", "good", "bad"],
                  ["foreign", "foreign", "good"], ["badk", "good"], ["good", "badk"], ["foreign"]]
        for i, shape in enumerate(shapes * (3 if tier == "thorough" else 1)):
            b = c15.base_case(rng, i, "quick")
            good = b["pairs"][b["good"]]
            K = bytes.fromhex(good["K"])
            pairs, flags = [], []
            for kind in shape:
                if kind == "good":
                    pairs.append(good)
                    flags.append([True, True])
                    continue
                q = c15.new_pair(rng, tuple(b["combo"]), b["pw"] + ("" if kind.startswith("bad") else "-other"), K)
                if kind == "bad":
                    q["cipher"] = rng.pick(["AES-512", "AES-257", "DES", ""])
                elif kind == "badk":
                    q["p2k"] = rng.pick(["PBKDF2-HMAC-SHA-512", "scrypt", "PBKDF2"])
                pairs.append(q)
                flags.append([not kind.startswith("bad"), False])
            b["pairs"] = pairs
            b.pop("top", None)
            opens = any(f == [True, True] for f in flags) and all(f[0] for f in flags[:[k for k, f in enumerate(flags) if f[1]][0]]) \
                if any(f[1] for f in flags) else False
            out.append({"text": c15.render_vmx(b), "pw": b["pw"], "flags": flags, "mut": ["pairs"] + shape,
                        "must_reject": not opens, "must_accept": opens})
        return out

    def impl(self, case):
        from dissect.hypervisor.descriptor.vmx import VMX

        def go():
            v = VMX.parse(case["text"])
            v.unlock_with_phrase(case["pw"])
            return len(v.attr)
        return self.attempt(go)

    def coq_term(self, case):
        return "vmx_pairs_gate [" + "; ".join(f"({cbool(a)}, {cbool(b)})" for a, b in case["flags"]) + "]"

    def nontrivial(self, case, impl_res, coq_val):
        return core.sha(core.jdump(case["mut"]).encode() + case["text"].encode())


# ----------------------------------------------------------------------------- envelope / keystore / key safe / VMDK sparse header
class EnvelopeGates(MutantSuite):
    name = "envelope"
    fmt = "envelope"

    def generate(self, rng, tier):
        buf = open(os.path.join(DATA, "local.tgz.ve"), "rb").read()
        out = [{"mut": ["none"], "patch": [], "must_reject": False, "must_accept": True,
                "f": {"magic": True, "version": 2, "ki": True, "cn": True, "kh": True, "gcm": True, "fv": 1}}]
        base = out[0]["f"]
        magic = buf[:21]
        for i, m in bitflips(21):
            out.append({"mut": ["bit", "magic", i, m], "patch": [[i, m]], "must_reject": True, "f": dict(base, magic=False)})
        for v in (0, 1, 3, 4, 0x10000, 0xFFFFFFFF):
            out.append({"mut": ["version", v], "set": [508, struct.pack("<I", v).hex()], "patch": [], "must_reject": True,
                        "f": dict(base, version=v)})
        for name, key in ((b"vmware.keyInfo", "ki"), (b"vmware.cipherName", "cn"), (b"vmware.keyHash", "kh")):
            p = buf.find(name, 512, 4096)
            out.append({"mut": ["attr_renamed", name.decode()], "patch": [[p + 7, 0x01]], "must_reject": True,
                        "f": dict(base, **{key: False})})
        p = buf.find(b"AES-256-GCM", 512, 4096)
        out.append({"mut": ["cipher", "AES-256-GCL"], "patch": [[p + 10, ord("M") ^ ord("L")]], "must_reject": True,
                    "f": dict(base, gcm=False)})
        fo = len(buf) - 4096
        for v in (0, 2, 0xFFFFFFFF):
            out.append({"mut": ["footer_version", v], "set": [fo + 4092, struct.pack("<I", v).hex()], "patch": [],
                        "must_reject": True, "f": dict(base, fv=v)})
        # the same gates with verify=False (authentication switched off by the caller): what is supported does not change
        for c in list(out):
            out.append(dict(c, mut=c["mut"] + ["verify=False"], noverify=True))
        return out

    def impl(self, case):
        import io
        from dissect.hypervisor.util.envelope import Envelope
        buf = bytearray(open(os.path.join(DATA, "local.tgz.ve"), "rb").read())
        for off, m in case["patch"]:
            buf[off] ^= m
        if case.get("set"):
            off, hx = case["set"]
            b = bytes.fromhex(hx)
            buf[off:off + len(b)] = b
        if case.get("noverify"):
            return self.attempt(lambda: Envelope(io.BytesIO(bytes(buf)), verify=False).cipher_name)
        return self.attempt(lambda: Envelope(io.BytesIO(bytes(buf))).cipher_name)

    def coq_term(self, case):
        f = case["f"]
        magic = "Gen.Consts.envelope_FILE_HEADER_MAGIC" if f["magic"] else "[0]"
        return (f"envelope_gate {{| e_magic := {magic}; e_version := {f['version']}; e_has_keyinfo := {cbool(f['ki'])}; "
                f"e_has_cipher := {cbool(f['cn'])}; e_has_keyhash := {cbool(f['kh'])}; e_cipher_is_gcm := {cbool(f['gcm'])}; "
                f"e_footer_version := {f['fv']} |}}")

    preamble = MutantSuite.preamble + "From DH Require Gen.Consts.\n"


class TextGates(MutantSuite):
    """keystore mode and VMX key-safe identifier / locator kinds"""
    name = "text"
    fmt = "text"

    def generate(self, rng, tier):
        ks = open(os.path.join(DATA, "encryption.info")).read()
        out = []
        for mode, code in (("NONE", 1), ("TPM", 2), ("none", 2), ("", 0), (None, 0), ("NONE2", 2)):
            if mode is None:
                text = "\n".join(l for l in ks.split("\n") if not l.strip().startswith("mode"))
            else:
                text = "\n".join((f'mode = "{mode}"' if l.strip().startswith("mode") else l) for l in ks.split("\n"))
            out.append({"kind": "keystore", "mut": ["mode", mode], "text": text, "code": code,
                        "must_reject": code != 1, "must_accept": code == 1})
        vmx = open(os.path.join(DATA, "encrypted.vmx")).read()
        safe = [l for l in vmx.split("\n") if l.startswith("encryption.keySafe")][0].partition("=")[2].strip(' "')
        out.append({"kind": "keysafe", "mut": ["none"], "text": safe, "ident": True, "kinds": True, "must_reject": False,
                    "must_accept": True})
        for ident in ("vmware:kex", "vmware", "", "VMWARE:KEY"):
            out.append({"kind": "keysafe", "mut": ["ident", ident], "text": ident + "/" + safe.partition("/")[2],
                        "ident": False, "kinds": True, "must_reject": True})
        for k in ("rawkey", "ldap", "script", "role", "fqid", "phrasex"):
            out.append({"kind": "keysafe", "mut": ["locator", k], "text": safe.replace("phrase/", k + "/", 1),
                        "ident": True, "kinds": False, "must_reject": True})
            out.append({"kind": "keysafe", "mut": ["locator-top", k], "text": "vmware:key/" + k + "/abc",
                        "ident": True, "kinds": False, "must_reject": True})
        return out

    def impl(self, case):
        if case["kind"] == "keystore":
            from dissect.hypervisor.util.envelope import KeyStore
            return self.attempt(lambda: KeyStore.from_text(case["text"]).id)
        from dissect.hypervisor.descriptor.vmx import KeySafe
        return self.attempt(lambda: len(KeySafe.from_text(case["text"]).locators))

    def coq_term(self, case):
        if case["kind"] == "keystore":
            return f"keystore_gate {case['code']}"
        return f"keysafe_gate {cbool(case['ident'])} {cbool(case['kinds'])}"


class VmdkSparseGates(MutantSuite):
    name = "vmdk_sparse"
    fmt = "vmdk"

    def generate(self, rng, tier):
        out = [{"mut": ["none"], "magic": "bebafeca", "must_reject": False, "must_accept": True}]
        for i, m in bitflips(4):
            b = bytearray(bytes.fromhex("bebafeca"))
            b[i] ^= m
            out.append({"mut": ["bit", i, m], "magic": bytes(b).hex(), "must_reject": True})
        for mg in (b"VMDK", b"DWOC", b"kdmv", b"\x00\x00\x00\x00", b"QFI\xfb"):
            out.append({"mut": ["value", mg.hex()], "magic": mg.hex(), "must_reject": True})
        # the SESparse magic is a 64-bit field: the four bytes behind the sniffed ones belong to it
        for i, m in bitflips(4):
            b = bytearray(bytes.fromhex("bebafeca00000000"))
            b[4 + i] ^= m
            out.append({"mut": ["bit", 4 + i, m], "magic": bytes(b).hex(), "must_reject": True})
        for hi in (b"\xbe\xba\xfe\xca", b"\xff\xff\xff\xff", b"KDMV"):
            out.append({"mut": ["value-high", hi.hex()], "magic": "bebafeca" + hi.hex(), "must_reject": True})
        return out

    def impl(self, case):
        import io
        from dissect.hypervisor.disk.vmdk import SparseDisk
        buf = bytearray(gzip.open(os.path.join(DATA, "sesparse.vmdk.gz")).read(4 * MB))
        mg = bytes.fromhex(case["magic"])
        buf[0:len(mg)] = mg

        def go():
            d = SparseDisk(io.BytesIO(bytes(buf)))
            d.read_sectors(0, 1)
            return d.size
        return self.attempt(go)

    def coq_term(self, case):
        mg = bytes.fromhex(case["magic"]).ljust(8, b"\0")
        return f"vmdk_layout_gate {zlist(list(mg[:4]))} {int.from_bytes(mg, 'little')}"


class VmdkSparseViaDescriptor(VmdkSparseGates):
    """the same mutants reached through a text descriptor on disk that declares the extent SESPARSE: what the descriptor
    declares sparse goes through the sparse header's gates (it is not served as raw bytes when its magic is foreign)"""
    name = "vmdk_sparse_desc"

    def impl(self, case):
        import shutil
        import tempfile
        from pathlib import Path
        from dissect.hypervisor.disk.vmdk import VMDK
        buf = bytearray(gzip.open(os.path.join(DATA, "sesparse.vmdk.gz")).read(4 * MB))
        mg = bytes.fromhex(case["magic"])
        buf[0:len(mg)] = mg
        cap = struct.unpack_from("<Q", buf, 16)[0]
        tmp = tempfile.mkdtemp(prefix="verif_c12d_")
        try:
            with open(os.path.join(tmp, "disk-sesparse.vmdk"), "wb") as fh:
                fh.write(buf)
            with open(os.path.join(tmp, "disk.vmdk"), "w") as fh:
                fh.write('# Disk DescriptorFile\nversion=1\nCID=fffffffe\nparentCID=ffffffff\ncreateType="seSparse"\n'
                         f'RW {cap} SESPARSE "disk-sesparse.vmdk"\n')

            def go():
                v = VMDK(Path(tmp) / "disk.vmdk")
                v.read(512)
                return v.size
            return self.attempt(go)
        finally:
            shutil.rmtree(tmp, ignore_errors=True)


class VmdkHostedGates(MutantSuite):
    """hosted (KDMV, with header- or footer-located grain directory) and COWD extents: header and footer magic"""
    name = "vmdk_hosted"
    fmt = "vmdk"

    def generate(self, rng, tier):
        out = []
        bases = []
        for kind, want_footer in (("hosted", True), ("hosted", False), ("cowd", False)):
            for _ in range(200):
                c = c02.gen_sparse(rng, "quick", kind)
                if kind == "cowd" or bool(c.get("footer")) == want_footer:
                    break
            c.pop("reqs", None)
            bases.append(c)
        for c in bases:
            kind = c["kind"]
            magic = b"KDMV" if kind == "hosted" else b"COWD"
            footer = bool(c.get("footer"))
            out.append({"base": c, "mut": ["none", kind, footer], "hm": magic.hex(), "fm": magic.hex(), "footer": footer,
                        "must_reject": False, "must_accept": True})
            for i, m in bitflips(4):
                b = bytearray(magic)
                b[i] ^= m
                out.append({"base": c, "mut": ["bit", "header", kind, i, m], "hm": bytes(b).hex(), "fm": magic.hex(),
                            "footer": footer, "must_reject": True})
                if footer:
                    out.append({"base": c, "mut": ["bit", "footer", kind, i, m], "hm": magic.hex(), "fm": bytes(b).hex(),
                                "footer": footer, "must_reject": True})
        return out

    def impl(self, case):
        from dissect.hypervisor.disk.vmdk import SparseDisk
        sf, _ = c02.build_image(case["base"])
        sf = patched(sf, 0, bytes.fromhex(case["hm"]))
        if case["footer"]:
            sf = patched(sf, case["base"]["fsize"] - 1024, bytes.fromhex(case["fm"]))

        def f():
            d = SparseDisk(sf)
            return d.read_sectors(0, 1)[:8].hex()
        return self.attempt(f)

    def coq_term(self, case):
        return (f"vmdk_footer_gate {zlist(list(bytes.fromhex(case['hm'])))} {cbool(case['footer'])} "
                f"{zlist(list(bytes.fromhex(case['fm'])))}")


class Qcow2Gates(MutantSuite):
    name = "qcow2"
    fmt = "qcow2"
    FIELDS = {"magic": (0, ">I"), "version": (4, ">I"), "backing_file_offset": (8, ">Q"), "cluster_bits": (20, ">I"),
              "crypt_method": (32, ">I"), "incompatible_features": (72, ">Q"), "header_length": (100, ">I"),
              "compression_type": (104, ">B")}

    def generate(self, rng, tier):
        out = []
        for want in ("v2", "v3", "v3ext"):
            for _ in range(400):
                c = c01.gen_case(rng, "quick")
                lay = c01.layout(c)
                ok = (c["version"] == 2) if want == "v2" else (c["version"] == 3 and bool(c["ext"]) == (want == "v3ext"))
                if ok and not c["datafile"] and c["backing"] is None and c["file_size"] < (64 << 20):
                    break
            else:
                continue
            c.pop("reqs", None)
            hdr = lay["chunks"][0] if 0 in lay["chunks"] else None
            out.append({"base": c, "mut": ["none", want], "set": {}, "must_reject": False, "must_accept": True})
            for i, m in bitflips(4):
                out.append({"base": c, "mut": ["bit", "magic", want, i, m], "xor": [i, m], "set": {}, "must_reject": True})
            for v in (0, 1, 4, 5, 65536, 0xFFFFFFFF):
                out.append({"base": c, "mut": ["version", want, v], "set": {"version": v}, "must_reject": True})
            for v in (0, 8, 22, 23, 63, 0xFFFFFFFF):
                out.append({"base": c, "mut": ["cluster_bits", want, v], "set": {"cluster_bits": v}, "must_reject": True})
            for v in (1, 2, 0xFFFFFFFF):
                out.append({"base": c, "mut": ["crypt", want, v], "set": {"crypt_method": v}, "must_reject": True})
            out.append({"base": c, "mut": ["backing_required", want], "set": {"backing_file_offset": 4096}, "must_reject": True})
            if want != "v2":
                inc = c01.layout(c)["hdr"]["incompatible_features"] if isinstance(c01.layout(c).get("hdr"), dict) else 0
                out.append({"base": c, "mut": ["data_file_required", want], "setbit": 4, "set": {}, "must_reject": True})
                for bit in (5, 6, 17, 40, 63):
                    out.append({"base": c, "mut": ["unknown_incompat", want, bit], "setbit": 1 << bit, "set": {},
                                "must_reject": True})
                for bit in (0, 1):
                    out.append({"base": c, "mut": ["dirty_or_corrupt", want, bit], "setbit": 1 << bit, "set": {},
                                "must_reject": False})
                if want == "v3":
                    out.append({"base": c, "mut": ["zstd_without_module", want], "setbit": 8,
                                "set": {"header_length": 112, "compression_type": 1}, "must_reject": True})
                if want == "v3ext":
                    for v in (9, 13):
                        out.append({"base": c, "mut": ["extl2_small_cluster", v], "set": {"cluster_bits": v}, "must_reject": True})
        return out

    def _header(self, case):
        lay = c01.layout(case["base"])
        chunks = dict(lay["chunks"])
        hdr = bytearray(chunks[0][:112].ljust(112, b"\x00"))
        if case.get("xor"):
            hdr[case["xor"][0]] ^= case["xor"][1]
        for k, v in case["set"].items():
            off, fmt = self.FIELDS[k]
            struct.pack_into(fmt, hdr, off, v)
        if case.get("setbit"):
            cur = struct.unpack_from(">Q", hdr, 72)[0]
            struct.pack_into(">Q", hdr, 72, cur | case["setbit"])
        return bytes(hdr), chunks

    def impl(self, case):
        from dissect.hypervisor.disk import qcow2 as Q
        hdr, chunks = self._header(case)
        fh, data, backing = c01.build_files(case["base"])
        fh = patched(fh, 0, hdr[:104 if case["base"]["version"] == 2 and False else 112] if False else hdr)

        def f():
            q = Q.QCow2(fh)
            return q.read(512)[:8].hex()
        return self.attempt(f)

    def coq_term(self, case):
        hdr, _ = self._header(case)
        g = lambda k: struct.unpack_from(self.FIELDS[k][1], hdr, self.FIELDS[k][0])[0]  # noqa: E731
        version = g("version")
        v2 = version == 2
        inc = 0 if v2 else g("incompatible_features")
        hl = 72 if v2 else g("header_length")
        comp = 0 if (v2 or hl <= 104) else g("compression_type")
        return (f"qcow2_gate {{| q_magic := {g('magic')}; q_version := {version}; q_cluster_bits := {g('cluster_bits')}; "
                f"q_crypt := {g('crypt_method')}; q_incompat := {inc}; q_compression := {comp}; q_has_zstd := false; "
                f"q_backing_offset := {g('backing_file_offset')}; q_data_file_given := false; q_backing_given := false |}}")


SUITES = {"qcow2": Qcow2Gates(), "vmdk_hosted": VmdkHostedGates(), "vhdx": VhdxGates(), "vdi": VdiGates(), "hds": HdsGates(), "hdd": HddGates(), "hyperv": HypervGates(), "hyperv_chain": HypervChainGates(), "vmx_pairs": VmxPairsGates(),
          "envelope": EnvelopeGates(), "text": TextGates(), "vmdk_sparse": VmdkSparseGates(), "vmdk_sparse_desc": VmdkSparseViaDescriptor()}
