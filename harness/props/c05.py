"""C05 — VDI: every byte range reads as the guest-visible content."""
from __future__ import annotations

import struct

from harness import core
from harness.core import Z, zpairs
from harness.readers import ReaderSuite, gen_requests

PROPERTY = "C05"
PROPS_FILE = "Props/C05.v"
MODEL_FILES = ["Model/Vdi.v"]
META = {
    "category": "proof",
    "text": "Coq theorems: the VDI reader model (per-block split of a request, block-map lookup with the UNALLOCATED/SPARSE "
            "sentinels taken from the generated constants, clamp to the disk size) returns exactly the guest bytes for every "
            "block map, block size, physical order and request and always terminates (instance of the generic "
            "block-mapped theorem); tied to vdi.py by differential correspondence (impl vs model vs spec, byte for byte).",
    "design_ref": "DESIGN.md §6 C03–C06",
    "note": "Trusted: Coq kernel; hand-written Model/Vdi.v validated against VDI._read on generated images only; "
            "Gen/Consts.v (UNALLOCATED, SPARSE) from the translator; array('i')/cstruct behaviour as exercised.",
    "technique": "Coq proof of model-refines-spec (generic block-mapped walker) + differential correspondence",
    "rule": "images: block size from {512,4096,65536,1MiB}, 1..12 blocks (thorough ..40), map entries allocated/-1/-2, "
            "physical order identity/reverse/random/gaps/high, size not a multiple of the block; requests: raw _read at any "
            "offset/length (incl. past the end) and stream seek+read. Non-trivial = request touches >= 2 blocks or >= 2 "
            "source kinds; distinct by full case hash.",
    "trusted_base": ["Model/Vdi.v is hand-written (correspondence-checked, not proved against Python)"],
    "assumptions": ["file handles behave as io.RawIOBase files (SparseFile stand-in)"],
}


def build_header(case):
    h = struct.pack("<64sIIIII256sIIIIIIIQIIII16s16s16s16s",
                    b"<<< Oracle VM VirtualBox Disk Image >>>\n", 0xBEDA107F, 0x00010001, 0x190, case.get("image_type", 1), 0,
                    b"", case["blocks_offset"], case["data_offset"], 0, 0, 0, 512, 0, case["size"], case["block_size"], 0,
                    len(case["map"]), sum(1 for e in case["map"] if e >= 0), b"\x01" * 16, b"\x02" * 16, b"\x00" * 16,
                    b"\x00" * 16)
    return h


def gen_case(rng, tier):
    bs = rng.weighted([(512, 2), (1536, 1), (4096, 4), (12288, 1), (65536, 2), (1 << 20, 1), (3 << 20, 1)])
    maxb = 40 if tier == "thorough" else 12
    nblocks = rng.randint(1, maxb if bs < (1 << 20) else 4)
    many = rng.chance(0.04)
    if many:
        # a block map of more than 65536 entries (512-byte blocks keep the image small): whatever a reader loads lazily or
        # in pages, entry number 65536 and up mean the same as the first ones
        bs, nblocks = 512, rng.randint(65537, 65700)
    cut = rng.weighted([(0, 3), (rng.randrange(0, bs), 3)])
    size = max(1, nblocks * bs - cut)
    if size <= (nblocks - 1) * bs:
        size = (nblocks - 1) * bs + 1
    extra = rng.pick([0, 0, 2])
    mode = rng.weighted([("all", 2), ("none", 1), ("alt", 2), ("rand", 5)])
    kinds = []
    for b in range(nblocks + extra):
        if b >= nblocks:
            kinds.append(-1)
            continue
        p = {"all": True, "none": False, "alt": b % 2 == 0, "rand": rng.chance(0.6)}[mode]
        if many:
            p = (b >= 65530 and rng.chance(0.5)) or rng.chance(0.0005)
        kinds.append(0 if p else (rng.weighted([(-1, 3), (-2, 2)]) if not many else (-2 if rng.chance(0.001) else -1)))
    alloc = [b for b, k in enumerate(kinds) if k == 0]
    place = rng.weighted([("identity", 2), ("reverse", 2), ("random", 4), ("gaps", 2), ("high", 1), ("logical", 3)])
    slots = list(range(len(alloc)))
    if place == "logical":
        # the physical index is the logical block number: behind k unallocated blocks the next allocated block lies
        # exactly k + 1 physical blocks after the previous one (where a reader that merely advances a position
        # counter instead of seeking happens to be right or wrong depending on what lies between)
        slots = list(alloc)
    elif place == "reverse":
        slots.reverse()
    elif place == "random":
        rng.shuffle(slots)
    elif place == "gaps":
        slots = sorted(rng.sample(range(3 * len(alloc) + 1), len(alloc)))
        rng.shuffle(slots)
    elif place == "high":
        base = ((1 << 31) - 1 - len(alloc) - rng.randrange(0, 100)) if bs <= 4096 else (1 << 20)
        slots = [base + s for s in slots]
        rng.shuffle(slots)
    m = list(kinds)
    for b, s in zip(alloc, slots):
        m[b] = s
    blocks_offset = rng.pick([512, 1024, 4096])
    data_offset = blocks_offset + 4 * len(m)
    data_offset += (-data_offset) % 512 + 512 * rng.randrange(0, 4)
    top = max([s for s in m if s >= 0], default=-1)
    fsize = data_offset + (top + 1) * bs
    c = {"size": size, "block_size": bs, "map": m, "blocks_offset": blocks_offset, "data_offset": data_offset,
         "file_size": max(fsize, data_offset + 1), "place": place, "mode": mode, "salt": rng.randrange(1 << 30),
         "kind": "plain"}
    c["reqs"] = gen_requests(rng, size, bs, n=6, big=(12 * (1 << 20) if rng.chance(0.3) else 0))
    if size <= 4 * (1 << 20):
        c["reqs"].append(["raw", 0, size])          # every block of the image in one call
    if many:
        # keep every request of such an image short (tens of blocks): a model run over 65536 blocks per request is slow
        c["reqs"] = [[k, a, (64 * bs if (n < 0 or n > 64 * bs) else n)] for k, a, n in c["reqs"]]
        for _ in range(6):
            b = rng.randrange(65530, nblocks)
            c["reqs"].append(["raw", b * bs, min(size - b * bs, bs * rng.randint(1, 6))])
    # one case in four is opened over a parent (a fully allocated image of the same size): unallocated blocks
    # then read from the parent while zero blocks must still read as zeros
    c["parent_salt"] = rng.randrange(1 << 30) if rng.chance(0.25) else None
    if c["parent_salt"] is None:
        c["image_type"] = 2 if (c["salt"] % 3) == 0 else 1       # fixed-type images keep whatever block map they have
    return c


class VdiSuite(ReaderSuite):
    name = "vdi"
    fmt = "vdi"
    preamble = ("From Coq Require Import ZArith List.\nImport ListNotations.\nOpen Scope Z_scope.\n"
                "From DH Require Import Base.Plan Base.Table Model.Vdi.\n")

    def generate(self, rng, tier):
        n = 1500 if tier == "thorough" else 150
        from harness.readers import with_twins
        def relaid(t):
            alloc = [i for i, e in enumerate(t["map"]) if e >= 0]
            if len(alloc) < 2:
                return None
            vals = [t["map"][i] for i in alloc]
            for i, v in zip(alloc, vals[1:] + vals[:1]):
                t["map"][i] = v
            return t
        return with_twins([gen_case(rng, tier) for _ in range(n)], rng, relaid=relaid)

    def _parent_case(self, case):
        bs = 4096
        nb = (case["size"] + bs - 1) // bs
        return {"size": case["size"], "block_size": bs, "map": list(range(nb)), "blocks_offset": 512,
                "data_offset": 512 + 4 * nb + (-(4 * nb)) % 512, "salt": case["parent_salt"],
                "file_size": 512 + 4 * nb + (-(4 * nb)) % 512 + nb * bs}

    def build_files(self, case):
        chunks = {0: build_header(case),
                  case["blocks_offset"]: b"".join(struct.pack("<i", e) for e in case["map"])}
        files = {"file": core.SparseFile(case["file_size"], chunks, salt=case["salt"])}
        if case.get("parent_salt") is not None:
            pc = self._parent_case(case)
            pch = {0: build_header(pc), 512: b"".join(struct.pack("<i", e) for e in pc["map"])}
            files["parent"] = core.SparseFile(pc["file_size"], pch, salt=pc["salt"])
            files["parent_data_offset"] = pc["data_offset"]
        return files

    def materialiser(self, case, files):
        pf, po = files.get("parent"), files.get("parent_data_offset", 0)
        return lambda p: core.materialise(p, file=files["file"],
                                          parent=(lambda o, n: pf.content(po + o, min(n, max(0, case["size"] - o)))))

    def open_impl(self, case, files):
        from dissect.hypervisor.disk.vdi import VDI
        parent = VDI(files["parent"]) if "parent" in files else None
        return VDI(files["file"], parent=parent)

    def coq_img(self, case):
        ent = [(i, e) for i, e in enumerate(case["map"]) if e != -1]
        return (f"{{| v_size := {Z(case['size'])}; v_bs := {Z(case['block_size'])}; v_data := {Z(case['data_offset'])}; "
                f"v_map := tbl {zpairs(ent)} (-1) {Z(len(case['map']))}; "
                f"v_parent := {core.cbool(case.get('parent_salt') is not None)} |}}")

    def model_term(self, case, kind, a, b):
        if kind == "raw":
            return f"vdi_read img (vdi_fuel {Z(b // case['block_size'] + 2)}) {Z(a)} {Z(b)}"
        return None

    def spec_fn(self, case):
        return "(vdi_src img)"

    def granule(self, case):
        return 512 if case["block_size"] >= 4096 else 64

    def dist(self, case):
        return {"bs": case["block_size"], "place": case["place"], "mode": case["mode"],
                "size_aligned": case["size"] % case["block_size"] == 0, "parent": case.get("parent_salt") is not None,
                "req_kinds": ",".join(sorted({r[0] for r in case["reqs"]}))}


SUITES = {"vdi": VdiSuite()}

from harness.readers import under_O, under_debug, under_bufsize  # noqa: E402
SUITES["vdi_pyO"] = under_O(SUITES["vdi"])
SUITES["vdi_dbg"] = under_debug(SUITES["vdi"])
SUITES["vdi_buf12288"] = under_bufsize(SUITES["vdi"], 12288)
SUITES["vdi_buf1536"] = under_bufsize(SUITES["vdi"], 1536, n=4)
