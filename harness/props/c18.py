"""C18 — VM configuration files: the disk list is exactly the VM's hard disks.

Four suites (vmx, ovf, vbox, pvs).  Each case is a generated configuration *document* together with the
abstract configuration it was rendered from (so the expected disk list is known by construction).  The real
implementation is run on the document; the Coq model and the Coq specification are evaluated on the same
input (for the XML formats: on the element tree the real parser produced, dumped by the harness — the XML
parser is an oracle).  Three-way judge, see BUILDING.md §3.
"""
from __future__ import annotations

from harness import core
from harness.main import Finding, Suite

PROPERTY = "C18"
PROPS_FILE = "Props/C18.v"
MODEL_FILES = ["Model/Text.v", "Model/XmlTree.v", "Model/Vmx.v", "Model/XmlDesc.v"]
META = {
    "category": "proof",
    "text": "Coq theorems: for every well-formed configuration the model of VMX.parse/VMX.disks (dictionary parsing with "
            "str.strip/partition/lower, device grouping with character-set lstrip, filtering, sorting) and of the OVF, "
            "VirtualBox and PVS disks() queries (an ElementPath evaluator for exactly the path shapes used, run over "
            "arbitrary element trees) returns exactly the backing files of the hard-disk devices given by an "
            "independently written specification; VMX dictionaries are case-insensitive, skip comments/blank lines, "
            "last assignment wins.  Constants, XPaths, namespaces and device classes are regenerated from the source "
            "(Gen/DescTables.v).  The models are tied to the code by differential correspondence on generated documents.",
    "design_ref": "DESIGN.md §6 C18",
    "note": "Trusted: Coq kernel; hand-written models (Model/Text.v, XmlTree.v, Vmx.v, XmlDesc.v) validated against the "
            "code on the generated cases only; the XML parser (defusedxml/expat: document -> element tree) is an oracle; "
            "str.lower is modelled exactly only for code points < 256 and caseless code points; tools/translate_desc.py.",
    "technique": "Coq proof of model-refines-spec + generated constants + differential correspondence model/implementation",
    "rule": "vmx: 0..12 devices over scsi/sata/ide/nvme, bus 0..3, unit 0..15, device types absent/disk/cdrom/... in mixed "
            "case, controllers, unrelated settings (also ones beginning with a class name), keys re-cased, duplicated "
            "(last wins), shuffled, comments, blank lines, CRLF, optional quotes; ovf: reference graphs with /disk/ and "
            "/file/ host resources, ovf: prefix present/absent, empty disks, CD/floppy/controller items, prefix styles; "
            "vbox: nested HardDisk registries with mixed formats/types, DVD/floppy images, foreign-namespace look-alikes; "
            "pvs: Hdd/CdRom/Fdd lists, missing SystemName.  Plus an adversarial stream outside the theorem's domain "
            "(judged implementation-vs-model only).  Non-trivial = at least one reported disk and at least one excluded "
            "candidate (or a shadowed assignment); distinct by document.",
    "trusted_base": ["Model/{Text,XmlTree,Vmx,XmlDesc}.v are hand-written (correspondence-checked, not proved against Python)",
                     "XML parser (document -> element tree) is an oracle: the model starts from the dumped tree",
                     "tools/translate_desc.py reads constants / XPaths from the source (uses the stdlib xpath tokenizer)"],
    "assumptions": ["str.lower agrees with Model.Text.lower on the generated alphabet (checked by static_check)",
                    "defusedxml/expat produce the element tree that is dumped"],
}

PRE = ("From Coq Require Import ZArith List.\nImport ListNotations.\nOpen Scope Z_scope.\n"
       "From DH Require Import Base.Plan Model.Text Model.XmlTree Gen.DescTables Model.Vmx Model.XmlDesc.\n")


# ----------------------------------------------------------------------------- helpers
def cp(s):
    return core.codepoints(s)


def to_str(v):
    """parsed Coq `list Z` -> python str"""
    return "".join(chr(c) for c in v)


def to_opt(v, f=lambda x: x):
    if v == "None":
        return None
    assert isinstance(v, tuple) and v[0] == "Some", v
    return f(v[1])


def to_bool(v):
    return v == "true"


def exc_of(r):
    return isinstance(r, dict) and r.get("outcome") == "exc"


def guarded(fn):
    import os
    import traceback
    try:
        return fn()
    except MemoryError:
        raise
    except Exception as e:  # noqa: BLE001
        where = ""
        for fr in reversed(traceback.extract_tb(e.__traceback__)):
            if "dissect" in fr.filename:
                where = f"{os.path.basename(fr.filename)}:{fr.name}"
                break
        return {"outcome": "exc", "exc": type(e).__name__, "msg": str(e)[:200], "where": where}


def model_lower(s):
    out = []
    for ch in s:
        c = ord(ch)
        if 65 <= c <= 90 or 192 <= c <= 214 or 216 <= c <= 222:
            c += 32
        out.append(chr(c))
    return "".join(out)


# alphabet of everything the generators can put in a position that gets lower-cased
NAME_POOL = ["Windows 10 x64", "disk", "Virtual Disk", "Virtual Disk-000001", "srv01", "data", "Ubuntu 64-bit", "win=7",
             "a b", "x#1", "Größe", "ÀÉÎÕÜ", "日本語ディスク", "disk\U0001F4BE", "naïve", "O'Reilly", "50%", "[old]", "v1.2.3",
             "été", "ß", "Çà", "D", "z"]
EXT_DISK = [".vmdk", ".VMDK", "-flat.vmdk", ".vdi", ".hdd", ".vhd", ".img", ""]
EXT_ISO = [".iso", ".ISO", ".flp", ".img"]


def fname(rng, exts):
    base = rng.pick(NAME_POOL)
    if rng.chance(0.25):
        base = rng.pick(["/vmfs/volumes/ds1/vm/", "C:\\VMs\\x\\", "../", "Snapshots/", "sub dir/"]) + base
    if rng.chance(0.3):
        base += "-" + str(rng.randrange(0, 1000))
    return base + rng.pick(exts)


def recase(rng, s):
    mode = rng.weighted([("same", 4), ("upper", 1), ("lower", 1), ("mixed", 3)])
    if mode == "same":
        return s
    if mode == "upper":
        return "".join(chr(ord(c) - 32) if "a" <= c <= "z" else c for c in s)
    if mode == "lower":
        return model_lower(s)
    out = []
    for c in s:
        if "a" <= c <= "z" and rng.chance(0.4):
            c = chr(ord(c) - 32)
        elif "A" <= c <= "Z" and rng.chance(0.4):
            c = chr(ord(c) + 32)
        out.append(c)
    return "".join(out)


# ============================================================================= VMX
CLASSES = ["scsi", "sata", "ide", "nvme"]
DEVTYPES = [(None, 6), ("disk", 3), ("scsi-hardDisk", 3), ("ata-hardDisk", 1), ("rawDisk", 1), ("plainDisk", 1),
            ("DISK", 1), ("Scsi-HardDisk", 1), ("cdrom-image", 4), ("cdrom-raw", 3), ("atapi-cdrom", 2),
            ("CDROM-IMAGE", 1), ("scsi-passthru", 1), ("", 1), ("scsi-nonpassthru-rdm", 1), ("Disk drive", 1)]
DEV_PROPS = ["present", "redo", "mode", "startConnected", "autodetect", "clientDevice", "writeThrough",
             "ctkEnabled", "deviceType.hint", "pciSlotNumber", "fileName.bak", "x.fileName"]
CTL_PROPS = ["present", "virtualDev", "pciSlotNumber", "sharedBus", "sasWWID", "deviceType"]
UNRELATED = [".encoding", "config.version", "virtualHW.version", "displayName", "guestOS", "memsize", "numvcpus",
             "ethernet0.present", "ethernet0.fileName", "floppy0.fileName", "floppy0.present", "serial0.fileName",
             "usb.present", "sound.fileName", "nvram", "extendedConfigFile", "uuid.bios", "tools.syncTime",
             "checkpoint.vmState", "annotation", "filename", "devicetype", "disk.EnableUUID", "sched.scsi0:0.shares",
             "my.scsi0:0.fileName", "hard-disk", "cdrom0.fileName", "pciBridge0.present", "Größe.x", "ÀB.c"]
# settings that begin with a device-class name but are not device settings; all are in the theorem's domain
# (no '.', or the character after the class name is not a letter of the class name, and no fileName property)
CLASSY_OK = ["ideal", "idea.size", "scsi", "ide", "sata", "nvme", "nvmeof", "scsi0", "ide1:0", "sata0:1", "satabus",
             "ide.present", "identity.name", "scsi-controller.type", "nvme0n1", "sataPorts", "ideX", "nvme.maxq",
             "scsilun", "idempotent", "sata_mode", "nvme-opts.depth"]
# outside the domain: the adversarial stream only
CLASSY_BAD = ["scsis0:0.deviceType", "idee0:0.fileName", "scsi0.fileName", "ide0:0:1.fileName", "scsiscsi0:0.fileName",
              "nvmen0:1.deviceType", "satas.fileName", "ided0:0.present", "scsi.fileName", "ide0:x.fileName",
              "scsi:0.fileName", "sata0:.fileName", "idei.deviceType", "scsic0:1.fileName"]
WS = [" ", " ", " ", "", "", "\t", "  ", " \t ", "\u00a0", "\x0b", "\u2003", "\x1f"]
PADQ = ['"', '"', '"', "", ' "', '" ', '""', ' " ']


def vmx_expected(cfg):
    out = []
    for d in cfg["devices"]:
        f = d["props"].get("fileName")
        t = d["props"].get("deviceType")
        if f and (not t or "disk" in t.lower()):
            out.append(f)
    return sorted(out)


def gen_vmx(rng, tier, adversarial):
    ndev = rng.weighted([(0, 1), (1, 3), (2, 3), (3, 3), (rng.randint(4, 12), 4)])
    seen = set()
    devices = []
    for _ in range(ndev):
        c, b, u = rng.pick(CLASSES), rng.randrange(0, 4), rng.randrange(0, 16)
        if rng.chance(0.1):
            b, u = rng.pick([10, 12, 255]), rng.pick([0, 100, 7])
        if (c, b, u) in seen:
            continue
        seen.add((c, b, u))
        props = {}
        t = rng.weighted(DEVTYPES)
        iscd = t is not None and "disk" not in t.lower() and t != ""
        if rng.chance(0.9):
            props["fileName"] = fname(rng, EXT_ISO if iscd else EXT_DISK) if not rng.chance(0.06) else ""
            if iscd and rng.chance(0.2):
                props["fileName"] = rng.pick(["auto detect", "/dev/sr0", "emptyBackingString"])
        if t is not None:
            props["deviceType"] = t
        for p in DEV_PROPS:
            if rng.chance(0.25):
                props[p] = rng.pick(["TRUE", "FALSE", "", "persistent", "160", "x.vmdk"])
        devices.append({"cls": c, "bus": b, "unit": u, "props": props})
    assigns = []          # final (key, value)
    for d in devices:
        for p, v in d["props"].items():
            assigns.append((f"{d['cls']}{d['bus']}:{d['unit']}.{p}", v))
    for c in CLASSES:
        for b in range(4):
            if rng.chance(0.25):
                for p in CTL_PROPS:
                    if rng.chance(0.5):
                        assigns.append((f"{c}{b}.{p}", rng.pick(["TRUE", "lsilogic", "pvscsi", "160", "ahci", "none"])))
    for k in rng.sample(UNRELATED, rng.randrange(0, 8)):
        assigns.append((k, rng.pick(["TRUE", "8", "other-64", "x.vmdk", "floppy.flp", fname(rng, EXT_DISK)])))
    for k in rng.sample(CLASSY_OK, rng.weighted([(0, 3), (1, 3), (2, 2), (4, 1)])):
        assigns.append((k, rng.pick(["1", "x.vmdk", "TRUE", ""])))
    bad = []
    if adversarial:
        for k in rng.sample(CLASSY_BAD, rng.randint(1, 3)):
            v = rng.pick(["cdrom-image", "evil.vmdk", "disk", "TRUE", ""])
            assigns.append((k, v))
            bad.append(k)
    # unique by case-folded key (later wins in the dict, so keep one)
    uniq = {}
    for k, v in assigns:
        uniq[model_lower(k)] = (k, v)
    assigns = list(uniq.values())
    rng.shuffle(assigns)
    # shadowed earlier assignments (other value, other casing)
    lines = []
    shadows = 0
    for k, v in assigns:
        lines.append(("kv", k, v))
    for k, v in list(assigns):
        if rng.chance(0.12):
            pos = [i for i, l in enumerate(lines) if l[0] == "kv" and l[1] == k][0]
            other = rng.pick(["shadowed.vmdk", "cdrom-image", "disk", "", "old value"])
            lines.insert(rng.randrange(0, pos + 1), ("kv", k, other))
            shadows += 1
    # the same key assigned three or more times with alternating casing (A, B, A): the LAST line must win
    for k, v in list(assigns):
        if rng.chance(0.1):
            pos = [i for i, l in enumerate(lines) if l[0] == "kv" and l[1] == k][-1]
            a_form, b_form = rng.pick([(k, k.upper()), (k.lower(), k.upper()), (k.upper(), k.lower()), (k, k.swapcase())])
            lines[pos] = ("kvr", a_form, v)
            first = rng.randrange(0, pos + 1)
            lines.insert(first, ("kvr", a_form, rng.pick(["first.vmdk", "cdrom-image", "", "stale"])))
            second = rng.randrange(first + 1, pos + 2)
            lines.insert(second, ("kvr", b_form, rng.pick(["second.vmdk", "cdrom-raw", "disk", "middle"])))
            if rng.chance(0.3):
                third = rng.randrange(second + 1, pos + 3)
                lines.insert(third, ("kvr", a_form, rng.pick(["third.vmdk", "x"])))
            shadows += 2
    # comments and blank lines
    ncom = rng.weighted([(0, 2), (2, 3), (6, 2)])
    for _ in range(ncom):
        kind = rng.pick(["comment", "blank", "comment-kv", "ws"])
        text = {"comment": "# " + rng.pick(NAME_POOL), "blank": "", "ws": rng.pick([" ", "\t", " \r"]),
                "comment-kv": rng.pick(["#", " # ", "\t#"]) + 'scsi0:5.fileName = "commented-out.vmdk"'}[kind]
        lines.insert(rng.randrange(0, len(lines) + 1), ("raw", text))
    if rng.chance(0.3):
        lines.insert(0, ("raw", "#!/usr/bin/vmware"))
    out = []
    for l in lines:
        if l[0] == "raw":
            out.append(l[1])
            continue
        _, k, v = l
        if l[0] == "kvr":
            out.append(k + rng.pick([" = ", "=", " ="]) + '"' + v + '"')
            continue
        q1, q2 = rng.pick(PADQ), rng.pick(PADQ)
        if adversarial and rng.chance(0.15):
            q1 = rng.pick(["\t\"", "'", "\" \t", "\u00a0\""])
        if adversarial and rng.chance(0.1):
            out.append(rng.pick([recase(rng, k), "= " + v, k + " " + v, "=", k + "=" + v + "=" + v]))
            continue
        out.append(rng.pick(WS) + recase(rng, k) + rng.pick(WS) + "=" + rng.pick([" ", "", "  "]) + q1 + v + q2 + rng.pick(WS))
    eol = rng.weighted([("\n", 5), ("\r\n", 2)])
    text = eol.join(out)
    if rng.chance(0.5):
        text += eol
    if rng.chance(0.2):
        text = "\n\n" + text + "\n   "
    case = {"text": text, "valid": not adversarial, "ndev": len(devices), "shadows": shadows,
            "eol": "crlf" if eol == "\r\n" else "lf", "classy": [k for k, _ in assigns if k in CLASSY_OK][:6], "bad": bad,
            "dotless_class_key": any("." not in k and any(k.lower().startswith(c) for c in CLASSES) for k, _ in assigns)}
    if not adversarial:
        case["expected"] = vmx_expected({"devices": devices})
        kinds = set()
        for d in devices:
            f, t = d["props"].get("fileName"), d["props"].get("deviceType")
            kinds.add("nofile" if not f else ("disk" if (not t or "disk" in t.lower()) else "cd"))
        case["kinds"] = sorted(kinds)
    return case


_OTHER = {}


def other_doc(fmt):
    """a fixed second configuration of the same format (its own disks), built once per process"""
    if fmt not in _OTHER:
        gen = {"vmx": gen_vmx, "ovf": gen_ovf, "vbox": gen_vbox, "pvs": gen_pvs}[fmt]
        c = gen(core.Rng(0xD15C + len(fmt)), "quick", False)
        _OTHER[fmt] = c["text"] if fmt == "vmx" else c["xml"]
    return _OTHER[fmt]


def repeat_view(obj, first, make_other=None):
    """the disk list is a function of the stored configuration: asking again (after a complete and after a partial
    iteration, and after another configuration was opened and listed in the same process) gives the same list.
    -> None when stable (or when the first call already raises), else a description"""
    if not isinstance(first, list):
        return None
    if make_other is not None:
        try:
            other = make_other()
            mine = list(other.disks())
            again = list(obj.disks())
            theirs = list(other.disks())
        except Exception as e:  # noqa: BLE001
            return f"raised {type(e).__name__} with a second configuration open"
        if again != first:
            return f"first call {first!r}; after another configuration was opened {again!r}"
        if mine != theirs:
            return f"the other configuration's list moved: {mine!r} then {theirs!r}"
    try:
        it = iter(obj.disks())
        next(it, None)
        second = list(obj.disks())
        third = list(obj.disks())
    except Exception as e:  # noqa: BLE001
        return f"raised {type(e).__name__} on a repeated call"
    if first != second or second != third:
        return f"first call {first!r}, later calls {second!r} / {third!r}"
    return None


class VmxSuite(Suite):
    name = "vmx"
    shard = 25
    preamble = PRE

    def generate(self, rng, tier):
        n = 3000 if tier == "thorough" else 200
        out = []
        for i in range(n):
            out.append(gen_vmx(rng, tier, adversarial=(i % 5 == 4)))
        return out

    def impl(self, case):
        from dissect.hypervisor.descriptor.vmx import VMX
        v = guarded(lambda: VMX.parse(case["text"]))
        if exc_of(v):
            return {"parse": v}
        d = guarded(lambda: list(v.disks()))
        return {"parse": None, "attr": [list(kv) for kv in v.attr.items()], "disks": d,
                "repeat": repeat_view(v, d, lambda: VMX.parse(other_doc("vmx")))}

    def coq_term(self, case):
        return (f"let a := parse_dictionary {cp(case['text'])} in "
                f"(a, vmx_disks a, spec_disks a, wf_vmx a)")

    def judge(self, case, impl_res, coq_val):
        if impl_res.get("outcome"):
            return [Finding("impl_fault", f"implementation {impl_res['outcome']}: {impl_res.get('detail', '')}",
                            "vmx:" + impl_res["outcome"])]
        fs = []
        _, m_attr, m_disks, s_disks, wf = coq_val
        m_attr = [[to_str(k), to_str(v)] for (_, k, v) in m_attr]
        m_disks = [to_str(x) for x in m_disks]
        s_disks = [to_str(x) for x in s_disks]
        wf = to_bool(wf)
        if impl_res["parse"] is not None:
            return [Finding("impl_vs_spec", f"VMX.parse raised on a dictionary: {impl_res['parse']}", "vmx:parse:exc")]
        if impl_res.get("repeat"):
            fs.append(Finding("impl_vs_spec", f"VMX.disks() is not stable across calls: {impl_res['repeat']}", "vmx:disks:repeat"))
        if impl_res["attr"] != m_attr:
            fs.append(Finding("impl_vs_model", f"parsed dictionary differs: impl {impl_res['attr'][:6]} model {m_attr[:6]}",
                              "vmx:parse:dict"))
        d = impl_res["disks"]
        if case.get("valid"):
            if not wf:
                fs.append(Finding("model_vs_spec", "wf_vmx rejects a generated well-formed configuration", "vmx:wf"))
            if s_disks != case["expected"]:
                fs.append(Finding("model_vs_spec", f"spec_disks {s_disks} != expected by construction {case['expected']}",
                                  "vmx:spec:expected"))
        if wf:
            if m_disks != s_disks:
                fs.append(Finding("model_vs_spec", f"model {m_disks} != spec {s_disks} on a wf configuration", "vmx:model:spec"))
            if exc_of(d):
                sig = "vmx:disks:dotless-class-key" if (d["exc"] == "ValueError" and case.get("dotless_class_key")) \
                    else f"vmx:disks:exc:{d['exc']}"
                fs.append(Finding("impl_vs_spec", f"disks() raised {d['exc']}: {d['msg']} (spec: {s_disks})", sig))
            elif d != s_disks:
                fs.append(Finding("impl_vs_spec", f"disks() = {d} but the hard disks are {s_disks}", "vmx:disks:list"))
        if not any(f.kind == "impl_vs_spec" for f in fs):
            if exc_of(d) and d["exc"] == "ValueError" and case.get("dotless_class_key"):
                # the same failure on a dictionary that is outside the theorem's domain for another reason: disks() must
                # return a list whatever unrelated settings the dictionary holds
                fs.append(Finding("impl_vs_spec", f"disks() raised {d['exc']}: {d['msg']} on an unrelated dot-less setting "
                                  f"name beginning with a device class (model of the repaired code: {m_disks})",
                                  "vmx:disks:dotless-class-key"))
            elif exc_of(d):
                fs.append(Finding("impl_vs_model", f"disks() raised {d['exc']}: {d['msg']}; model {m_disks}",
                                  "vmx:disks:model:exc"))
            elif d != m_disks:
                fs.append(Finding("impl_vs_model", f"disks() = {d}; model {m_disks}", "vmx:disks:model"))
        return fs

    def nontrivial(self, case, impl_res, coq_val):
        if case.get("valid") and (len(case.get("kinds", [])) >= 2 or (case["shadows"] and case["expected"])):
            return core.sha(case["text"].encode("utf-8", "surrogatepass"))
        return None

    def dist(self, case):
        return {"valid": case.get("valid"), "ndev": min(case.get("ndev", 0), 6), "eol": case.get("eol"),
                "shadows": min(case.get("shadows", 0), 3), "kinds": ",".join(case.get("kinds", [])) or "-",
                "classy_unrelated": len(case.get("classy", [])) > 0, "dotless_class_key": case.get("dotless_class_key"),
                "ndisks": min(len(case.get("expected", [])), 4)}


# ============================================================================= XML common
def esc_attr(s):
    return s.replace("&", "&amp;").replace("<", "&lt;").replace('"', "&quot;")


def esc_text(s):
    return s.replace("&", "&amp;").replace("<", "&lt;").replace(">", "&gt;")


class X:
    """tiny XML writer node: tag is (nskey | None, local); attrs list of ((nskey|None, local), value)"""

    def __init__(self, ns, local, attrs=None, text=None, kids=None):
        self.ns, self.local, self.attrs, self.text, self.kids = ns, local, list(attrs or []), text, list(kids or [])


def render_xml(root, nsmap, default_ns, rng, decl=True):
    """nsmap: nskey -> (prefix, uri).  default_ns: nskey whose elements are written unprefixed (or None)."""
    def qn(ns, local, is_attr):
        if ns is None:
            return local
        if ns == default_ns and not is_attr:
            return local
        return nsmap[ns][0] + ":" + local

    def rec(n, depth, top):
        ind = "\n" + "  " * depth if pretty else ""
        s = ind + "<" + qn(n.ns, n.local, False)
        if top:
            decls = []
            if default_ns is not None:
                decls.append(f'xmlns="{nsmap[default_ns][1]}"')
            for k, (p, u) in nsmap.items():
                if k != default_ns or any_prefixed_default:
                    decls.append(f'xmlns:{p}="{u}"')
            rng.shuffle(decls)
            s += " " + " ".join(decls)
        for (ans, al), v in n.attrs:
            q = rng.pick(['"', '"', "'"])
            val = esc_attr(v) if q == '"' else esc_attr(v).replace("'", "&apos;")
            s += f" {qn(ans, al, True)}={q}{val}{q}"
        if not n.kids and n.text is None:
            return s + rng.pick(["/>", " />", "></" + qn(n.ns, n.local, False) + ">"])
        s += ">"
        if n.text is not None:
            s += esc_text(n.text)
        for k in n.kids:
            if rng.chance(0.05):
                s += ind + "  <!-- " + rng.pick(["note", "HardDisk", "<Hdd/>", "ovf:/disk/x"]) + " -->"
            s += rec(k, depth + 1, False)
        if n.kids:
            s += ind
        return s + "</" + qn(n.ns, n.local, False) + ">"

    pretty = rng.chance(0.8)
    any_prefixed_default = True     # attributes of the default namespace need a prefix
    body = rec(root, 0, True).lstrip("\n")
    head = rng.pick(['<?xml version="1.0"?>\n', '<?xml version="1.0" encoding="UTF-8"?>\n', ""]) if decl else ""
    return head + body


def dump_tree(e):
    """ElementTree element -> JSON-able [tag, [[k, v]..], text, tail, [kids]]"""
    return [e.tag, [[k, v] for k, v in e.attrib.items()], e.text, e.tail, [dump_tree(k) for k in e]]


def parse_doc(xml):
    from defusedxml import ElementTree
    try:
        return dump_tree(ElementTree.fromstring(xml))
    except Exception:  # noqa: BLE001
        return None


def tree_term(tree):
    """Gallina term for a dumped tree, with a let-bound table for repeated strings."""
    counts = {}

    def count(t):
        tag, attrs, text, tail, kids = t
        for s in [tag] + [x for kv in attrs for x in kv] + [text, tail]:
            if s is not None:
                counts[s] = counts.get(s, 0) + 1
        for k in kids:
            count(k)

    count(tree)
    names = {}
    lets = []
    for s, c in counts.items():
        if c > 1 and len(s) > 2:
            names[s] = f"s{len(names)}"
            lets.append(f"let {names[s]} : str := {cp(s)} in ")

    def st(s):
        return names.get(s) or cp(s)

    def opt(s):
        return "None" if s is None else f"(Some {st(s)})"

    def rec(t):
        tag, attrs, text, tail, kids = t
        a = "[" + "; ".join(f"({st(k)}, {st(v)})" for k, v in attrs) + "]"
        ks = "[" + "; ".join(rec(k) for k in kids) + "]"
        return f"(Elem {st(tag)} {a} {opt(text)} {opt(tail)} {ks})"

    return "".join(lets) + rec(tree)


def res_list(v, elem):
    """parsed Coq `res (list X)` -> ('ok', [..]) | ('err',)"""
    r = core.res_of(v)
    if r[0] == "ok":
        return ("ok", [elem(x) for x in r[1]])
    return r


class XmlSuite(Suite):
    """Shared driver for the three XML formats."""
    shard = 25
    preamble = PRE
    fmt = ""

    def make(self, xml):            # worker side: -> (object, tree root)
        raise NotImplementedError

    def impl(self, case):
        import io
        made = guarded(lambda: self.make(io.StringIO(case["xml"])))
        if exc_of(made):
            return {"ctor": made}
        obj, root = made
        d = guarded(lambda: list(obj.disks()))
        return {"ctor": None, "tree": dump_tree(root), "disks": d,
                "repeat": repeat_view(obj, d, lambda: self.make(io.StringIO(other_doc(self.fmt)))[0])}

    def term(self, root_term):       # -> Gallina: (model result, spec list, wf)
        raise NotImplementedError

    def decode(self, coq_val):       # -> (model ('ok', list)|('err',), spec list, wf bool)
        raise NotImplementedError

    def coq_term(self, case):
        tree = parse_doc(case["xml"])
        if tree is None:
            return None
        return self.term(tree_term(tree))

    def signature(self, case, what, exc=None):
        return f"{self.fmt}:{what}" + (f":{exc}" if exc else "")

    def judge(self, case, impl_res, coq_val):
        if impl_res.get("outcome"):
            return [Finding("impl_fault", f"implementation {impl_res['outcome']}: {impl_res.get('detail', '')}",
                            f"{self.fmt}:{impl_res['outcome']}")]
        tree = parse_doc(case["xml"])
        if tree is None:
            if impl_res["ctor"] is None:
                return [Finding("impl_vs_model", "document rejected by the parser in the harness but accepted by the entry point",
                                f"{self.fmt}:parse")]
            return []
        fs = []
        if impl_res.get("repeat"):
            fs.append(Finding("impl_vs_spec", f"disks() is not stable across calls: {impl_res['repeat']}", f"{self.fmt}:disks:repeat"))
        model, spec, wf = self.decode(coq_val)
        if impl_res["ctor"] is None and impl_res["tree"] != tree:
            fs.append(Finding("impl_vs_model", "the entry point's element tree differs from the oracle parser's tree",
                              f"{self.fmt}:tree"))
        if impl_res["ctor"] is not None:
            got = ("err", impl_res["ctor"]["exc"], impl_res["ctor"]["msg"], "ctor")
        elif exc_of(impl_res["disks"]):
            got = ("err", impl_res["disks"]["exc"], impl_res["disks"]["msg"], "disks")
        else:
            got = ("ok", impl_res["disks"])
        if case.get("valid"):
            if not wf:
                fs.append(Finding("model_vs_spec", f"wf_{self.fmt} rejects a generated well-formed configuration",
                                  f"{self.fmt}:wf"))
            if spec != case["expected"]:
                fs.append(Finding("model_vs_spec", f"spec {spec} != expected by construction {case['expected']}",
                                  f"{self.fmt}:spec:expected"))
        if wf:
            if model != ("ok", spec):
                fs.append(Finding("model_vs_spec", f"model {model} != spec {spec} on a wf configuration",
                                  f"{self.fmt}:model:spec"))
            if got[0] == "err":
                fs.append(Finding("impl_vs_spec", f"{got[3]} raised {got[1]}: {got[2]} (spec: {spec})",
                                  self.signature(case, got[3], got[1])))
            elif got[1] != spec:
                fs.append(Finding("impl_vs_spec", f"disks() = {got[1]} but the hard disks are {spec}",
                                  self.signature(case, "list")))
        if not any(f.kind == "impl_vs_spec" for f in fs):
            if got[0] != model[0] or (got[0] == "ok" and got[1] != model[1]):
                sig = self.outside_domain_signature(case, got, model)
                if sig:
                    fs.append(Finding("impl_vs_spec", f"implementation {got[:3]}; repaired-code model {model} "
                                      f"(document outside the theorem's domain for another reason)", sig))
                else:
                    fs.append(Finding("impl_vs_model", f"implementation {got[:3]} model {model}", f"{self.fmt}:model"))
        return fs

    def outside_domain_signature(self, case, got, model):
        """a difference on an out-of-domain document that is a manifestation of an already characterised defect"""
        return None

    def nontrivial(self, case, impl_res, coq_val):
        if case.get("valid") and case.get("expected") and case.get("excluded", 0) > 0:
            return core.sha(case["xml"].encode("utf-8", "surrogatepass"))
        return None


def strs(v):
    return [to_str(x) for x in v]


def ostrs(v):
    return [to_opt(x, to_str) for x in v]


# ============================================================================= OVF
OVF_NS = "http://schemas.dmtf.org/ovf/envelope/1"
RASD_NS = "http://schemas.dmtf.org/wbem/wscim/1/cim-schema/2/CIM_ResourceAllocationSettingData"
VSSD_NS = "http://schemas.dmtf.org/wbem/wscim/1/cim-schema/2/CIM_VirtualSystemSettingData"
VBOXOVF_NS = "http://www.virtualbox.org/ovf/machine"
ID_POOL = ["file1", "file2", "file3", "vmdisk1", "vmdisk2", "vmdisk3", "disk-1", "f.1", "d_2", "FILE1", "磁盘1", "a b", "x:y",
           "ovf:id", "disk", "file", "0", "r-ü"]


def gen_ovf(rng, tier, adversarial):
    nfiles = rng.weighted([(0, 1), (1, 3), (2, 3), (3, 2), (rng.randint(4, 7), 1)])
    fids = rng.sample(ID_POOL, nfiles)
    files = [{"id": i, "href": fname(rng, EXT_DISK + EXT_ISO)} for i in fids]
    ndisks = rng.randint(0, nfiles + 1)
    dids = rng.sample(ID_POOL, min(ndisks, len(ID_POOL)))
    disks = []
    for i in dids:
        ref = rng.pick(fids) if fids and not rng.chance(0.15) else None
        disks.append({"id": i, "ref": ref})
    href = {f["id"]: f["href"] for f in files}
    dref = {d["id"]: d["ref"] for d in disks}
    items = []
    expected = []
    excluded = 0
    nitems = rng.weighted([(0, 1), (2, 2), (4, 3), (8, 2)])
    for n in range(nitems):
        kind = rng.weighted([("disk", 5), ("cd", 2), ("floppy", 1), ("ctl", 2), ("cpu", 1), ("net", 1)])
        it = {"rt": {"disk": "17", "cd": rng.pick(["15", "16"]), "floppy": "14", "ctl": rng.pick(["5", "6", "20"]),
                     "cpu": rng.pick(["3", "4"]), "net": "10"}[kind], "iid": str(n + 1), "kind": kind}
        if kind in ("disk", "cd", "floppy"):
            via = rng.weighted([("disk", 3), ("file", 2)]) if kind == "disk" else "file"
            pre = rng.pick(["ovf:", ""])
            if via == "disk" and dids:
                d = rng.pick(dids)
                it["host"] = f"{pre}/disk/{d}"
                target = href[dref[d]] if dref[d] is not None else None
            elif fids:
                f = rng.pick(fids)
                it["host"] = f"{pre}/file/{f}"
                target = href[f]
            else:
                it["host"] = None
                target = None
                if kind == "disk":
                    it["rt"] = "15"
                    it["kind"] = kind = "cd"
            if kind == "disk":
                if target is not None:
                    expected.append(target)
                else:
                    excluded += 1
            else:
                excluded += 1
        else:
            if rng.chance(0.2):
                it["host"] = rng.pick(["/dev/x", "ovf:/disk/" + (dids[0] if dids else "none")])
            excluded += 1
        items.append(it)
    flaws = []
    if adversarial:
        flaw = rng.pick(["dangling-fileref", "item-no-host", "bad-scheme", "double-prefix", "slash-id", "dup-file-id",
                         "file-no-id", "unknown-disk", "empty-host", "file-no-href", "rt-space", "dup-disk-id"])
        flaws.append(flaw)
        if flaw == "dangling-fileref":
            disks.append({"id": "dangling", "ref": "nonexistent"})
        elif flaw == "item-no-host":
            items.append({"rt": "17", "iid": "90", "kind": "disk", "host": None})
        elif flaw == "bad-scheme":
            items.append({"rt": "17", "iid": "90", "kind": "disk", "host": rng.pick(["file:///x.vmdk", "ovf:disk/x", "", "/Disk/x"])})
        elif flaw == "double-prefix":
            items.append({"rt": "17", "iid": "90", "kind": "disk", "host": "ovf:ovf:/file/" + (fids[0] if fids else "x")})
        elif flaw == "slash-id":
            files.append({"id": "b", "href": "b.vmdk"})
            items.append({"rt": "17", "iid": "90", "kind": "disk", "host": "ovf:/file/a/b"})
        elif flaw == "dup-file-id" and files:
            files.append({"id": files[0]["id"], "href": "dup.vmdk"})
        elif flaw == "file-no-id":
            files.append({"id": None, "href": "noid.vmdk"})
            disks.append({"id": "dn", "ref": None})
            items.append({"rt": "17", "iid": "91", "kind": "disk", "host": "/disk/dn"})
        elif flaw == "unknown-disk":
            items.append({"rt": "17", "iid": "90", "kind": "disk", "host": "ovf:/disk/unknown"})
        elif flaw == "empty-host":
            items.append({"rt": "17", "iid": "90", "kind": "disk", "host": ""})
        elif flaw == "file-no-href":
            files.append({"id": "nohref", "href": None})
            items.append({"rt": "17", "iid": "90", "kind": "disk", "host": "/file/nohref"})
        elif flaw == "rt-space":
            items.append({"rt": " 17 ", "iid": "90", "kind": "disk", "host": "/file/" + (fids[0] if fids else "x")})
        elif flaw == "dup-disk-id" and disks:
            disks.append({"id": disks[0]["id"], "ref": fids[-1] if fids else None})
    # ---- build the document
    style = rng.weighted([("default", 4), ("prefixed", 2), ("odd-prefix", 2)])
    nsmap = {"ovf": ("ovf", OVF_NS), "rasd": ("rasd", RASD_NS), "vssd": ("vssd", VSSD_NS), "vbox": ("vbox", VBOXOVF_NS)}
    default_ns = "ovf"
    if style == "prefixed":
        default_ns = None
    elif style == "odd-prefix":
        nsmap["ovf"] = (rng.pick(["o", "env", "ovf1"]), OVF_NS)
        nsmap["rasd"] = (rng.pick(["r", "rs", "RASD"]), RASD_NS)
        default_ns = rng.pick(["ovf", None])
    O = lambda l, a=None, t=None, kids=None: X("ovf", l, a, t, kids)  # noqa: E731
    R = lambda l, t: X("rasd", l, None, t)  # noqa: E731
    refs = O("References", kids=[O("File", ([(("ovf", "id"), f["id"])] if f["id"] is not None else [])
                                   + ([(("ovf", "href"), f["href"])] if f["href"] is not None else [])
                                   + ([(("ovf", "size"), "12345")] if rng.chance(0.3) else [])) for f in files])
    dsec = O("DiskSection", kids=[O("Info", t="List of the virtual disks")] + [
        O("Disk", [(("ovf", "capacity"), "1024"), (("ovf", "diskId"), d["id"])]
          + ([(("ovf", "fileRef"), d["ref"])] if d["ref"] is not None else [])
          + [(("ovf", "format"), "http://www.vmware.com/interfaces/specifications/vmdk.html#streamOptimized")]
          + ([(("vbox", "uuid"), "d3f38cfc-d512-425c-9ca8-5c046492a9a8")] if rng.chance(0.3) else []))
        for d in disks])
    item_nodes = []
    for it in items:
        kids = [R("Caption", it["kind"] + it["iid"]), R("ElementName", it["kind"]), R("InstanceID", it["iid"]),
                R("ResourceType", it["rt"])]
        if it.get("host") is not None:
            kids.append(R("HostResource", it["host"]))
        if rng.chance(0.5):
            kids.append(R("Parent", "3"))
        if rng.chance(0.2):
            kids.append(R("Description", rng.pick(["17", "Disk Image", "ovf:/disk/vmdisk1"])))
        rng.shuffle(kids)
        item_nodes.append(O("Item", kids=kids))
    hw = O("VirtualHardwareSection", kids=[O("Info", t="Virtual hardware requirements"),
                                             O("System", kids=[X("vssd", "InstanceID", None, "0")])] + item_nodes)
    vs_kids = [O("Info", t="A virtual machine"), hw]
    if rng.chance(0.3):
        # look-alikes elsewhere: an Item outside the hardware section, a machine description in another namespace
        vs_kids.append(O("ProductSection", kids=[O("Item", kids=[R("ResourceType", "17"), R("HostResource", "ovf:/file/decoy")])]))
        excluded += 1
    if rng.chance(0.3):
        vs_kids.append(X("vbox", "Machine", [((None, "name"), "x")], None,
                         [X(None, "HardDisk", [((None, "location"), "decoy.vdi"), ((None, "type"), "Normal")])]))
    vs = O("VirtualSystem", [(("ovf", "id"), "vm")], None, vs_kids)
    top = [refs, dsec, O("NetworkSection", kids=[O("Info", t="nets")]), vs]
    if rng.chance(0.2):
        rng.shuffle(top)
    if rng.chance(0.15):
        top.append(O("References", kids=[]))
    root = O("Envelope", [(("ovf", "version"), "1.0")], None, top)
    xml = render_xml(root, nsmap, default_ns, rng)
    case = {"xml": xml, "valid": not adversarial, "style": style, "nfiles": len(files), "ndisks": len(disks),
            "nitems": len(items), "empty_disks": sum(1 for d in disks if d["ref"] is None), "flaws": flaws,
            "excluded": excluded,
            "empty_disk_used": any(it.get("host") and "/disk/" in it["host"] and dref.get(it["host"].split("/")[-1], 0) is None
                                   for it in items)}
    if not adversarial:
        case["expected"] = expected
    return case


class OvfSuite(XmlSuite):
    name = "ovf"
    fmt = "ovf"

    def generate(self, rng, tier):
        n = 1500 if tier == "thorough" else 140
        return [gen_ovf(rng, tier, adversarial=(i % 4 == 3)) for i in range(n)]

    def make(self, fh):
        from dissect.hypervisor.descriptor.ovf import OVF
        o = OVF(fh)
        return o, o.xml

    def term(self, rt):
        return f"let t := {rt} in (ovf_disks t, spec_ovf_disks t, wf_ovf t)"

    def decode(self, v):
        _, m, s, wf = v
        return res_list(m, lambda x: to_opt(x, to_str)), strs(s), to_bool(wf)

    def signature(self, case, what, exc=None):
        if exc == "KeyError" and what == "ctor" and case.get("empty_disks"):
            return "ovf:ctor:disk-without-fileref"
        return super().signature(case, what, exc)

    def outside_domain_signature(self, case, got, model):
        # a <Disk> without fileRef: the unrepaired constructor indexes the references with None (KeyError, or the href of a
        # File that has no id) where an empty disk has no backing file
        if case.get("empty_disks") and (got[0] == "err" and got[1] == "KeyError" and got[3] == "ctor" and "None" in got[2]
                                        or "file-no-id" in case.get("flaws", [])):
            return "ovf:ctor:disk-without-fileref"
        return None

    def dist(self, case):
        return {"valid": case["valid"], "style": case["style"], "nfiles": min(case["nfiles"], 4),
                "empty_disks": min(case["empty_disks"], 2), "nitems": min(case["nitems"], 8),
                "flaw": ",".join(case["flaws"]) or "-", "ndisks_reported": min(len(case.get("expected", [])), 4)}


# ============================================================================= VBox
VBOX_NS = "http://www.virtualbox.org/"


def gen_vbox(rng, tier, adversarial):
    expected = []
    excluded = [0]

    def hd(depth):
        loc = fname(rng, [".vdi", ".VDI", ".vmdk", ".vhd", ".vdi"]) if not rng.chance(0.05) else None
        fmt = rng.weighted([("VDI", 4), ("vdi", 2), ("Vdi", 1), ("VMDK", 2), ("VHD", 1), ("vmdk", 1), (None, 1), ("", 1),
                            ("VDI ", 1)])
        typ = rng.weighted([("Normal", 6), ("Immutable", 1), ("Writethrough", 1), ("MultiAttach", 1), ("Readonly", 1),
                            (None, 3 if depth else 1), ("normal", 1)])
        attrs = [((None, "uuid"), "{%08x-0000-4000-8000-000000000000}" % rng.randrange(1 << 32))]
        if loc is not None:
            attrs.append(((None, "location"), loc))
        if fmt is not None:
            attrs.append(((None, "format"), fmt))
        if typ is not None:
            attrs.append(((None, "type"), typ))
        rng.shuffle(attrs)
        node = X("vb", "HardDisk", attrs)
        if loc is not None and typ == "Normal" and fmt is not None and fmt.lower() == "vdi":
            expected.append(loc)
        else:
            excluded[0] += 1
        if depth < 3:
            for _ in range(rng.weighted([(0, 5), (1, 3), (2, 1)])):
                node.kids.append(hd(depth + 1))
        if rng.chance(0.1):
            node.kids.append(X("vb", "Property", [((None, "name"), "x"), ((None, "value"), "y")]))
        return node

    def registry():
        kids = []
        hds = [hd(0) for _ in range(rng.weighted([(0, 1), (1, 3), (2, 3), (4, 2)]))]
        kids.append(X("vb", "HardDisks", None, None, hds))
        if rng.chance(0.6):
            dv = [X("vb", "Image", [((None, "uuid"), "{1}"), ((None, "location"), fname(rng, EXT_ISO))])
                  for _ in range(rng.randint(0, 2))]
            excluded[0] += len(dv)
            kids.append(X("vb", "DVDImages", None, None, dv))
        if rng.chance(0.3):
            kids.append(X("vb", "FloppyImages", None, None,
                          [X("vb", "Image", [((None, "uuid"), "{2}"), ((None, "location"), "boot.img")])]))
            excluded[0] += 1
        rng.shuffle(kids)
        return X("vb", "MediaRegistry", None, None, kids)

    machine_kids = [registry(),
                    X("vb", "Hardware", None, None, [X("vb", "Memory", [((None, "RAMSize"), "1024")])]),
                    X("vb", "StorageControllers", None, None, [
                        X("vb", "StorageController", [((None, "name"), "SATA"), ((None, "type"), "AHCI")], None, [
                            X("vb", "AttachedDevice", [((None, "type"), "HardDisk"), ((None, "port"), "0")], None,
                              [X("vb", "Image", [((None, "uuid"), "{3}")])])])])]
    rng.shuffle(machine_kids)
    top = [X("vb", "Machine", [((None, "name"), "vm"), ((None, "OSType"), "Linux_64")], None, machine_kids)]
    if rng.chance(0.3):
        top.insert(0, X("vb", "Global", None, None, [registry()]))
    if rng.chance(0.3):
        # look-alikes: HardDisk in no namespace / in a foreign namespace
        top.append(X("other", "HardDisk",
                     [((None, "location"), "decoy.vdi"), ((None, "type"), "Normal"), ((None, "format"), "VDI")]))
        excluded[0] += 1
    root = X("vb", "VirtualBox", [((None, "version"), "1.16-linux")], None, top)
    style = rng.weighted([("default", 4), ("prefixed", 2)])
    nsmap = {"vb": (rng.pick(["vb", "vbox", "v"]), VBOX_NS), "other": ("oth", "urn:example:other")}
    default_ns = "vb" if style == "default" else None
    if adversarial:
        # well-formed XML, but outside what VirtualBox writes: exercised for model fidelity only
        root.kids.append(X("vb", "HardDisk", [((None, "format"), "VDI"), ((None, "type"), "Normal"), ((None, "location"), "")]))
    if default_ns is None and rng.chance(0.3):
        root.kids.append(X(None, "HardDisk", [((None, "location"), "decoy2.vdi"), ((None, "type"), "Normal"),
                                              ((None, "format"), "VDI")]))
        excluded[0] += 1
    xml = render_xml(root, nsmap, default_ns, rng)
    # expected by construction: document order over the final tree
    expected = []

    def walk(n):
        for k in n.kids:
            if k.ns == "vb" and k.local == "HardDisk":
                a = {al: v for (_, al), v in k.attrs}
                if "location" in a and a.get("type") == "Normal" and a.get("format") is not None \
                        and a["format"].lower() == "vdi":
                    expected.append(a["location"])
            walk(k)

    walk(root)
    case = {"xml": xml, "valid": True, "style": style, "expected": expected, "excluded": excluded[0],
            "nhd": len(expected) + excluded[0]}
    if adversarial:
        case["valid"] = False
        del case["expected"]
    return case


class VBoxSuite(XmlSuite):
    name = "vbox"
    fmt = "vbox"

    def generate(self, rng, tier):
        n = 1200 if tier == "thorough" else 110
        return [gen_vbox(rng, tier, adversarial=(i % 8 == 7)) for i in range(n)]

    def make(self, fh):
        from dissect.hypervisor.descriptor.vbox import VBox
        o = VBox(fh)
        return o, o._xml

    def term(self, rt):
        return f"let t := {rt} in (vbox_disks t, spec_vbox_disks t, true)"

    def decode(self, v):
        _, m, s, wf = v
        return res_list(m, to_str), strs(s), to_bool(wf)

    def dist(self, case):
        return {"valid": case["valid"], "style": case["style"], "nhd": min(case["nhd"], 8),
                "ndisks_reported": min(len(case.get("expected", [])), 4)}


# ============================================================================= PVS
def gen_pvs(rng, tier, adversarial):
    expected = []
    excluded = 0
    devs = []
    for _ in range(rng.weighted([(0, 1), (1, 2), (3, 3), (6, 2)])):
        kind = rng.weighted([("Hdd", 5), ("CdRom", 2), ("Fdd", 1), ("NetworkAdapter", 1)])
        kids = [X(None, "Index", None, str(rng.randrange(4))), X(None, "Enabled", None, "1"),
                X(None, "EmulatedType", None, "1")]
        name = fname(rng, [".hdd", ".hdd", ".iso", ""])
        has = not rng.chance(0.15)
        if has:
            sn = X(None, "SystemName", None, name)
            if adversarial and rng.chance(0.5):
                sn = X(None, "SystemName", None, rng.pick([None, ""]))
                name = None
            kids.insert(rng.randrange(0, len(kids) + 1), sn)
            if rng.chance(0.1):
                kids.append(X(None, "SystemName", None, "second.hdd"))
            if rng.chance(0.3):
                kids.append(X(None, "UserFriendlyName", None, name or "x"))
        if kind == "Hdd" and rng.chance(0.3):
            kids.append(X(None, "Partition", None, None, [X(None, "SystemName", None, "/dev/sda1")]))
        devs.append(X(None, kind, [((None, "id"), str(len(devs))), ((None, "dyn_lists"), "Partition 0")], None, kids))
        if kind == "Hdd" and has:
            expected.append(name)
        else:
            excluded += 1
    rng.shuffle(devs)
    expected = []
    for d in devs:
        if d.local == "Hdd":
            sns = [k for k in d.kids if k.local == "SystemName"]
            if sns:
                expected.append(sns[0].text)
    hw = X(None, "Hardware", [((None, "dyn_lists"), "Fdd 0 CdRom 1 Hdd 9")], None,
           [X(None, "Cpu", None, None, [X(None, "Number", None, "2")])] + devs)
    top = [X(None, "Identification", None, None, [X(None, "VmName", None, "vm"), X(None, "SystemName", None, "not-a-disk")]),
           hw, X(None, "Settings", None, None, [X(None, "General", None, None, [X(None, "OsType", None, "9")])])]
    if rng.chance(0.2):
        # an Hdd nested deeper (the query is a descendant search)
        top.append(X(None, "Extra", None, None, [X(None, "Group", None, None, [
            X(None, "Hdd", None, None, [X(None, "SystemName", None, "nested.hdd")])])]))
        expected.append("nested.hdd")
    root = X(None, "ParallelsVirtualMachine", [((None, "schemaVersion"), "1.0")], None, top)
    xml = render_xml(root, {}, None, rng)
    case = {"xml": xml, "valid": not adversarial and all(e for e in expected), "excluded": excluded,
            "nhdd": len(expected)}
    if case["valid"]:
        case["expected"] = expected
    return case


class PvsSuite(XmlSuite):
    name = "pvs"
    fmt = "pvs"

    def generate(self, rng, tier):
        n = 1000 if tier == "thorough" else 90
        return [gen_pvs(rng, tier, adversarial=(i % 6 == 5)) for i in range(n)]

    def make(self, fh):
        from dissect.hypervisor.descriptor.pvs import PVS
        o = PVS(fh)
        return o, o._xml

    def term(self, rt):
        return f"let t := {rt} in (Ok (pvs_disks t), spec_pvs_disks t, wf_pvs t)"

    def decode(self, v):
        _, m, s, wf = v
        wf = to_bool(wf)
        model = res_list(m, lambda x: to_opt(x, to_str))
        if wf and model[0] == "ok" and all(x is not None for x in model[1]):
            pass
        return model, strs(s), wf

    def judge(self, case, impl_res, coq_val):
        # the model yields `str | None` per Hdd; on wf configurations every entry is a str
        return super().judge(case, impl_res, coq_val)

    def dist(self, case):
        return {"valid": case["valid"], "nhdd": min(case["nhdd"], 6)}


class VmxLockedSuite(Suite):
    """Encrypted .vmx files whose disks are declared in the encrypted part (C15's writer around C18's configurations): the
    disk list after unlock_with_phrase is the list of the same configuration stored in the clear — also when disks() was
    already asked for while the file was still locked, and on an object that was refused a wrong passphrase first."""
    name = "vmx_locked"
    shard = 50

    def generate(self, rng, tier):
        from harness.props import c15
        out = []
        for i in range(60 if tier == "thorough" else 10):
            b = c15.base_case(rng, i, "quick")
            cfg = gen_vmx(rng, tier, False)["text"]
            if cfg and not cfg.endswith("\n"):
                cfg += "\n"
            # the clear-text part may set a key that the encrypted part sets too (a template's disk, another casing of the
            # key): the encrypted part is merged over it, as a later line of one file would be
            lines = [ln for ln in cfg.split("\n") if " = " in ln and not ln.lstrip().startswith("#")]
            if lines and rng.chance(0.6):
                k = rng.pick(lines).split(" = ")[0].strip()
                k = rng.pick([k, k.upper(), k.lower()])
                if all(k.lower() != vk.lower() for vk, _ in b["visible"]):
                    b["visible"].append((k, rng.pick(["template.vmdk", "scsi-hardDisk", "cdrom-image", "TRUE", "FALSE"])))
            good = b["pairs"][b["good"]]
            iv = bytes(rng.randrange(256) for _ in range(16))
            b["cfg"] = cfg.encode().hex()
            b["cfg_blob"] = c15.seal_blob(bytes.fromhex(good["K"]), iv, cfg.encode(), good["mac"]).hex()
            visible = "".join(f'{k} = "{v}"\n' for k, v in b["visible"])
            out.append({"text": c15.render_vmx(b), "pw": b["pw"], "plain": visible + cfg, "order": i % 3})
        return out

    def impl(self, case):
        from dissect.hypervisor.descriptor.vmx import VMX
        out = {}
        try:
            v = VMX.parse(case["text"])
            if case["order"] == 0:
                out["locked"] = list(v.disks())              # asked while still locked
            elif case["order"] == 1:
                try:
                    v.unlock_with_phrase(case["pw"] + "?")
                    out["wrong"] = "accepted"
                except Exception:  # noqa: BLE001
                    out["locked"] = list(v.disks())
            v.unlock_with_phrase(case["pw"])
            out["after"] = list(v.disks())
            out["again"] = list(v.disks())
            out["plain"] = list(VMX.parse(case["plain"]).disks())
        except Exception as e:  # noqa: BLE001
            out["exc"] = f"{type(e).__name__}: {str(e)[:120]}"
        return out

    def judge(self, case, impl_res, coq_val):
        if impl_res.get("outcome"):
            return [Finding("impl_fault", f"vmx: implementation {impl_res['outcome']}", "vmx:locked:" + impl_res["outcome"])]
        if "exc" in impl_res or impl_res.get("wrong"):
            return [Finding("impl_vs_spec", f"vmx: unlocking a well-formed encrypted configuration failed: {impl_res}", "vmx:locked:exc")]
        fs = []
        how = ["after disks() on the locked file", "after a refused passphrase", "directly"][case["order"]]
        if impl_res["after"] != impl_res["plain"] or impl_res["again"] != impl_res["plain"]:
            fs.append(Finding("impl_vs_spec", f"vmx: disks() {how}: {impl_res['after']} / {impl_res['again']}; the same configuration "
                              f"in the clear lists {impl_res['plain']}", "vmx:locked:disks"))
        return fs

    def nontrivial(self, case, impl_res, coq_val):
        return core.sha(case["text"].encode()) if impl_res.get("plain") else None

    def dist(self, case):
        return {"order": case["order"]}


SUITES = {"vmx": VmxSuite(), "vmx_locked": VmxLockedSuite(), "ovf": OvfSuite(), "vbox": VBoxSuite(), "pvs": PvsSuite()}


# ----------------------------------------------------------------------------- static: alphabet of lower()
def static_check(ctx):
    """str.lower is modelled exactly only below 256 and on caseless code points: check that every string the
    generators can place in a lower-cased position (setting names, device types, VirtualBox formats) stays inside
    that alphabet."""
    fs = []
    pool = CLASSES + [t for t, _ in DEVTYPES if t] + DEV_PROPS + CTL_PROPS + UNRELATED + CLASSY_OK + CLASSY_BAD + \
        ["VDI", "vdi", "Vdi", "VMDK", "VHD", "vmdk", "VDI "] + NAME_POOL + ["fileName", "deviceType"]
    for s in pool:
        for v in (s, s.upper() if s.isascii() else s):
            if v.lower() != model_lower(v):
                fs.append(Finding("model_vs_spec", f"generator alphabet leaves the domain of Model.Text.lower: {v!r}",
                                  "c18:alphabet"))
    return fs
