"""C13 — lazy access: I/O proportional to the request, correct at multi-terabyte scale."""
from __future__ import annotations

import struct

from harness import core, fmt_vhdx
from harness.core import Z
from harness.main import Finding
from harness.props import c01, c02, c03, c04, c05, c06
from harness.main import Suite
from harness.readers import ReaderSuite, call

PROPERTY = "C13"
PROPS_FILE = "Props/C13.v"
MODEL_FILES = ["Model/Io.v", "Model/Vhd.v", "Model/Vdi.v", "Model/Vhdx.v", "Model/Hds.v"]
META = {
    "category": "proof",
    "text": "Coq theorems: any reader meeting the stream contract fetches at most len bytes from its backing files for an "
            "in-range request of len bytes, and the block walker performs at most len/unit + 2 table look-ups — bounds that "
            "mention neither table contents, file length nor the amount of allocated data (instances: VHD, VDI, VHDX, HDS; "
            "QCOW2/VMDK in C01/C02); wide offsets decode without truncation; table caches: a working set within the capacity loads "
            "each table once, and several readers side by side with one cache each (the extents of a VMDK) load each table of "
            "each reader once under any interleaving (Proofs/LruCost.v, LruMulti.v). The scale claim is validated by correspondence on "
            "virtual images of 2^40..2^46 bytes whose tables and data sit beyond 2^32 sectors, with a counting backing file: "
            "data-region reads must equal the model plan's file segments exactly, metadata reads must stay within the bound, "
            "open-time I/O must not move when the allocated fraction is swept.",
    "design_ref": "DESIGN.md §6 C13",
    "note": "Trusted: Coq kernel; hand models; SparseFile I/O accounting. OS read-ahead and Python buffering are not exhibited.",
    "technique": "Coq proof (I/O bounds on the model plan) + differential correspondence with a counting sparse backing file",
    "rule": "per format huge sparse images (virtual size 2^40..2^46, block/cluster 1..256 MiB, 0..512 allocated units at file "
            "offsets up to the format limit), requests around allocated units and at random huge offsets; sweep of the allocated "
            "count at fixed geometry. Non-trivial = request touches an allocated unit or crosses a unit boundary; distinct by "
            "case hash.",
    "trusted_base": ["SparseFile accounting (harness/core.py)"],
    "assumptions": [],
}
MB = 1 << 20


def pick_alloc(rng, nunits, k):
    s = set()
    while len(s) < min(k, nunits):
        s.add(rng.randrange(nunits))
    return sorted(s)


def near_requests(rng, size, unit, alloc, align, n=5):
    reqs = []
    for _ in range(n):
        if alloc and rng.chance(0.7):
            u = rng.pick(alloc)
            a = u * unit + rng.pick([0, unit - 4096, unit // 2, rng.randrange(0, unit)])
            a -= rng.pick([0, 4096, 8192]) if rng.chance(0.3) else 0
        else:
            a = rng.randrange(0, size)
        a = max(0, min(a, size - 1))
        a -= a % align
        ln = rng.pick([align, 4096, 65536, 3 * 4096 + align])
        ln = max(align, ln - ln % align)
        ln = min(ln, size - a)
        ln -= ln % align
        if ln <= 0:
            continue
        reqs.append(["raw", a, ln])
    if alloc:
        # sequential access inside one allocated unit (two, three reads in a row, each continuing where the last stopped),
        # then a jump: what a request costs does not depend on the requests before it
        u = rng.pick(alloc)
        step = max(align, 8192 - 8192 % align)
        a0 = u * unit + rng.pick([0, step, (unit // 2) - (unit // 2) % step])
        for k in range(rng.randint(2, 3)):
            if a0 + (k + 1) * step <= min(size, (u + 1) * unit):
                reqs.append(["raw", a0 + k * step, step])
        far = rng.pick(alloc) * unit
        if far + align <= size:
            reqs.append(["raw", far, align])
    return reqs or [["raw", 0, align]]


class IoSuite(ReaderSuite):
    """ReaderSuite + I/O accounting. Subclasses give meta_regions(case) -> [(off, len)], entry_bytes, eager (table read at
    open / first use), unit(case)."""
    entry_bytes = 4
    eager = False
    shard = 10

    def impl(self, case):
        files = self.build_files(case)
        fh = files["file"]
        out = {"open": None, "reqs": [], "io": []}
        try:
            v = self.open_impl(case, files)
        except Exception as e:  # noqa: BLE001
            out["open"] = {"outcome": "exc", "exc": type(e).__name__, "msg": str(e)[:200]}
            return out
        out["size"] = int(v.size)
        out["open_bytes"] = fh.bytes_read
        out["open_max_read"] = max([r[3] for r in fh.log if r[0] == "read"] or [0])
        for kind, a, b in case["reqs"]:
            fh.reset_counters()
            out["reqs"].append(call(v._read, a, b))
            out["io"].append({"ranges": list(fh.ranges), "bytes": fh.bytes_read})
        return out

    def judge(self, case, impl_res, coq_val):
        fs = super().judge(case, impl_res, coq_val)
        if impl_res.get("outcome") or impl_res.get("open") is not None:
            return fs
        fmt = self.fmt
        regions = self.meta_regions(case)
        unit = self.unit(case)

        def is_meta(o, n):
            return any(o < ro + rl and ro < o + n for ro, rl in regions)
        # open-time I/O is bounded by the metadata, never touches the data region
        meta_total = sum(l for _, l in regions)
        if impl_res["open_bytes"] > meta_total + 4096:
            fs.append(Finding("impl_vs_spec", f"open read {impl_res['open_bytes']} bytes; mapping metadata is {meta_total}",
                              f"{fmt}:io:open"))
        first_table_load_seen = False
        for (kind, a, b), io, cv in zip(case["reqs"], impl_res["io"], coq_val):
            _, model_v, _ = cv
            m = core.res_of(model_v)
            if m[0] != "ok":
                continue
            fsize = case["file_size"]
            want = [(s[1], min(s[2], fsize - s[1])) for s in core.plan_of(m[1]) if s[0] == "SFile" and s[2] > 0 and s[1] < fsize]
            data = [(o, n) for o, n in io["ranges"] if not is_meta(o, n)]
            meta = sum(n for o, n in io["ranges"] if is_meta(o, n))
            if data != want:
                fs.append(Finding("impl_vs_model", f"raw({a},{b}): data-region reads {data[:4]} differ from the model plan's "
                                  f"file segments {want[:4]}", f"{fmt}:io:data-reads"))
            if sum(n for _, n in data) > b + 2 * self.sector_size(case):
                fs.append(Finding("impl_vs_spec", f"raw({a},{b}): fetched {sum(n for _, n in data)} data bytes for a request of "
                                  f"{b}", f"{fmt}:io:data-bytes"))
            bound = (b // unit + 2) * self.entry_bytes + self.extra_meta(case)
            if self.eager and not first_table_load_seen:
                bound += meta_total
                first_table_load_seen = True
            if meta > bound:
                fs.append(Finding("impl_vs_spec", f"raw({a},{b}): {meta} metadata bytes read, bound {bound}",
                                  f"{fmt}:io:meta-bytes"))
        return fs

    def extra_meta(self, case):
        return 0

    def nontrivial(self, case, impl_res, coq_val):
        for cv in coq_val or []:
            plan = core.plan_of(cv[2])
            if len(plan) >= 2 or any(s[0] == "SFile" for s in plan):
                return core.sha(core.jdump(case).encode())
        return None


# ----------------------------------------------------------------------------- VHD
class VhdHuge(IoSuite):
    name = "vhd_huge"
    fmt = "vhd"
    entry_bytes = 4
    preamble = c04.VhdSuite.preamble

    def generate(self, rng, tier):
        out = []
        n = 200 if tier == "thorough" else 14
        for i in range(n):
            spb = 4096
            nblocks = rng.pick([1 << 19, (1 << 20) - 1, 700001])
            k = [0, 1, 8, 64, 512][i % 5]
            alloc = pick_alloc(rng, nblocks, k)
            unit = 1 + spb
            top = (1 << 32) - 2 - unit * (k + 2)
            ent = {}
            for j, b in enumerate(alloc):
                ent[b] = rng.weighted([(top + unit * j, 3), (9000 + unit * (3 * j + 1), 2)])
            size = nblocks * spb * 512
            c = {"kind": "dynamic", "legacy511": False, "size": size, "block_size": spb * 512, "max_entries": nblocks,
                 "table_offset": 1536, "ent": sorted(ent.items()), "body_end": ((1 << 32) - 1) * 512,
                 "salt": rng.randrange(1 << 30), "alloc_k": k, "file_size": ((1 << 32) - 1) * 512 + 512}
            c["reqs"] = near_requests(rng, size, spb * 512, alloc, 512)
            out.append(c)
        return out

    def build_files(self, case):
        raw = bytearray(b"\xff" * (4 * case["max_entries"]))
        for b, v in case["ent"]:
            struct.pack_into(">I", raw, 4 * b, v)
        chunks = {0: c04.build_footer(case["size"], 512, 3) + b"\x00",
                  512: c04.build_dyn_header(case["table_offset"], case["max_entries"], case["block_size"]),
                  case["table_offset"]: bytes(raw),
                  case["body_end"]: c04.build_footer(case["size"], 512, 3) + b"\x00"}
        return {"file": core.SparseFile(case["body_end"] + 512, chunks, salt=case["salt"])}

    def open_impl(self, case, files):
        from dissect.hypervisor.disk.vhd import VHD
        return VHD(files["file"])

    def coq_img(self, case):
        return (f"{{| d_size := {Z(case['size'])}; d_block_size := {Z(case['block_size'])}; "
                f"d_max_entries := {Z(case['max_entries'])}; "
                f"d_bat := tbl {core.zpairs(case['ent'])} 4294967295 {Z(case['max_entries'])} |}}")

    def model_term(self, case, kind, a, b):
        return f"dyn_read img (fuel_for {Z(b // 512 + 1)}) {Z(a)} {Z(b)}"

    def spec_fn(self, case):
        return "(Vhd.guest_src img)"

    def meta_regions(self, case):
        return [(0, 1536), (case["table_offset"], 4 * case["max_entries"]), (case["body_end"] - 512, 1024)]

    def unit(self, case):
        return case["block_size"]

    def dist(self, case):
        return {"alloc_k": case["alloc_k"], "size_log2": case["size"].bit_length() - 1, "in_use": bool(case.get("in_use"))}


# ----------------------------------------------------------------------------- VDI
class VdiHuge(IoSuite):
    name = "vdi_huge"
    fmt = "vdi"
    eager = True
    preamble = c05.VdiSuite.preamble

    def generate(self, rng, tier):
        out = []
        n = 200 if tier == "thorough" else 14
        for i in range(n):
            bs = rng.pick([MB, 16 * MB])
            nblocks = rng.pick([1 << 20, (1 << 20) + 77, 1 << 19])
            k = [0, 1, 8, 64, 512][i % 5]
            alloc = pick_alloc(rng, nblocks, k)
            ent = {b: rng.weighted([((1 << 31) - 1 - j, 3), (j * 3 + 1, 2)]) for j, b in enumerate(alloc)}
            size = nblocks * bs - rng.pick([0, 512 * 77])
            data_offset = 512 + 4 * nblocks + (-(4 * nblocks)) % 512
            # the data area need not start right behind the block map (reserved / relocated map area): what lies between
            # is nobody's business at open time
            data_offset += [0, 0, 64 * MB, 768 * MB][i % 4]
            c = {"kind": "plain", "size": size, "block_size": bs, "nblocks": nblocks, "ent": sorted(ent.items()),
                 "blocks_offset": 512, "data_offset": data_offset, "file_size": data_offset + (1 << 31) * bs,
                 "salt": rng.randrange(1 << 30), "alloc_k": k}
            c["reqs"] = near_requests(rng, size, bs, alloc, 1)
            out.append(c)
        return out

    def build_files(self, case):
        raw = bytearray(b"\xff" * (4 * case["nblocks"]))
        for b, v in case["ent"]:
            struct.pack_into("<i", raw, 4 * b, v)
        hdr = c05.build_header({**case, "map": [0] * 0}) if False else None
        h = struct.pack("<64sIIIII256sIIIIIIIQIIII16s16s16s16s",
                        b"<<< Oracle VM VirtualBox Disk Image >>>\n", 0xBEDA107F, 0x00010001, 0x190, 1, 0, b"",
                        case["blocks_offset"], case["data_offset"], 0, 0, 0, 512, 0, case["size"], case["block_size"], 0,
                        case["nblocks"], len(case["ent"]), b"\x01" * 16, b"\x02" * 16, b"\x00" * 16, b"\x00" * 16)
        return {"file": core.SparseFile(case["file_size"], {0: h, case["blocks_offset"]: bytes(raw)}, salt=case["salt"])}

    def open_impl(self, case, files):
        from dissect.hypervisor.disk.vdi import VDI
        return VDI(files["file"])

    def coq_img(self, case):
        return (f"{{| v_size := {Z(case['size'])}; v_bs := {Z(case['block_size'])}; v_data := {Z(case['data_offset'])}; "
                f"v_map := tbl {core.zpairs(case['ent'])} (-1) {Z(case['nblocks'])}; v_parent := false |}}")

    def model_term(self, case, kind, a, b):
        return f"vdi_read img (vdi_fuel {Z(b // case['block_size'] + 2)}) {Z(a)} {Z(b)}"

    def spec_fn(self, case):
        return "(vdi_src img)"

    def meta_regions(self, case):
        return [(0, 512), (case["blocks_offset"], 4 * case["nblocks"])]

    def unit(self, case):
        return case["block_size"]

    def dist(self, case):
        return {"alloc_k": case["alloc_k"], "size_log2": case["size"].bit_length() - 1, "in_use": bool(case.get("in_use"))}


# ----------------------------------------------------------------------------- VHDX
class VhdxHuge(IoSuite):
    name = "vhdx_huge"
    fmt = "vhdx"
    entry_bytes = 8
    preamble = c03.VhdxSuite.preamble

    def generate(self, rng, tier):
        out = []
        n = 200 if tier == "thorough" else 14
        for i in range(n):
            bs = rng.pick([32 * MB, 256 * MB])
            ss = rng.pick([512, 4096])
            nblocks = rng.pick([1 << 17, (1 << 18) - 3]) if bs == 256 * MB else rng.pick([1 << 19, 1 << 18])
            k = [0, 1, 8, 64, 512][i % 5]
            alloc = pick_alloc(rng, nblocks, k)
            step = bs // MB
            ent = {}
            for j, b in enumerate(alloc):
                ent[b] = rng.weighted([(((1 << 44) - 1) // step * step - step * (j + 1), 3), ((64 + j) * step, 2)])
            size = nblocks * bs
            c = {"kind": "nodiff", "size": size, "block_size": bs, "sector_size": ss, "nblocks": nblocks,
                 "ent": sorted(ent.items()), "bat_offset": 4 * MB, "file_size": (1 << 44) * MB,
                 "salt": rng.randrange(1 << 30), "alloc_k": k}
            c["reqs"] = near_requests(rng, size, bs, alloc, ss)
            out.append(c)
        return out

    def _full(self, case):
        ent = dict(case["ent"])
        blocks = _LazyBlocks(case["nblocks"], ent)
        return blocks

    def build_files(self, case):
        cr = fmt_vhdx.chunk_ratio(case["block_size"], case["sector_size"])
        nb = case["nblocks"]
        total = nb + (nb - 1) // cr
        raw = bytearray(8 * total)
        for b, mb in case["ent"]:
            struct.pack_into("<Q", raw, 8 * (b + b // cr), 6 | (mb << 20))
        small = {"size": case["size"], "block_size": case["block_size"], "sector_size": case["sector_size"], "blocks": [],
                 "bat_offset": case["bat_offset"], "file_size": case["file_size"], "salt": case["salt"]}
        sf = fmt_vhdx.build(small)
        chunks = dict(sf._chunks)
        chunks[case["bat_offset"]] = bytes(raw)
        return {"file": core.SparseFile(case["file_size"], chunks, salt=case["salt"])}

    def open_impl(self, case, files):
        from dissect.hypervisor.disk.vhdx import VHDX
        return VHDX(files["file"])

    def coq_img(self, case):
        cr = fmt_vhdx.chunk_ratio(case["block_size"], case["sector_size"])
        nb = case["nblocks"]
        total = nb + (nb - 1) // cr
        ents = [(b + b // cr, 6 | (mb << 20)) for b, mb in case["ent"]]
        return (f"{{| x_size := {Z(case['size'])}; x_bs := {Z(case['block_size'])}; x_ss := {Z(case['sector_size'])}; "
                f"x_has_parent := false; x_bat := tbl {core.zpairs(ents)} 0 {Z(total)}; x_fbyte := (fun _ => 0) |}}")

    def model_term(self, case, kind, a, b):
        return f"vhdx_read img (vhdx_fuel {Z(b // case['sector_size'] + 2)}) {Z(a)} {Z(b)}"

    def spec_fn(self, case):
        return "(vhdx_src img)"

    def granule(self, case):
        return case["sector_size"]

    def sector_size(self, case):
        return case["sector_size"]

    def meta_regions(self, case):
        return [(0, 3 * MB + MB), (case["bat_offset"], 8 * (case["nblocks"] + case["nblocks"] // 16 + 2))]

    def unit(self, case):
        return case["block_size"]

    def dist(self, case):
        return {"alloc_k": case["alloc_k"], "size_log2": case["size"].bit_length() - 1, "ss": case["sector_size"]}


class _LazyBlocks:
    def __init__(self, n, ent):
        self.n, self.ent = n, ent


# ----------------------------------------------------------------------------- HDS
class HdsHuge(IoSuite):
    name = "hds_huge"
    fmt = "hds"
    eager = True
    preamble = c06.HdsSuite.preamble

    def generate(self, rng, tier):
        out = []
        n = 200 if tier == "thorough" else 14
        for i in range(n):
            ms = 2048
            ncl = rng.pick([1 << 20, (1 << 21) + 5])
            k = [0, 1, 8, 64, 512][i % 5]
            alloc = pick_alloc(rng, ncl, k)
            ent = {b: rng.weighted([((1 << 32) - 2 - j, 3), (10 + 2 * j, 2)]) for j, b in enumerate(alloc)}
            size = ncl * ms * 512
            c = {"kind": "v2", "version": 2, "m_sectors": ms, "size": size, "ncl": ncl, "ent": sorted(ent.items()),
                 "first_block": 10 * ms, "file_size": (1 << 32) * ms * 512, "salt": rng.randrange(1 << 30), "alloc_k": k,
                 "in_use": i % 2 == 1}
            c["reqs"] = near_requests(rng, size, ms * 512, alloc, 1)
            out.append(c)
        return out

    def build_files(self, case):
        raw = bytearray(4 * case["ncl"])
        for b, v in case["ent"]:
            struct.pack_into("<I", raw, 4 * b, v)
        hdr = c06.build_header({**case, "bat": _Len(case["ncl"])})
        return {"file": core.SparseFile(case["file_size"], {0: hdr, 64: bytes(raw)}, salt=case["salt"])}

    def open_impl(self, case, files):
        from dissect.hypervisor.disk.hdd import HDS
        return HDS(files["file"])

    def coq_img(self, case):
        cs = case["m_sectors"] * 512
        return (f"{{| h_size := {Z(case['size'])}; h_cs := {Z(cs)}; h_mult := {Z(case['m_sectors'])}; "
                f"h_bat := tbl {core.zpairs(case['ent'])} 0 {Z(case['ncl'])}; h_parent := false |}}")

    def model_term(self, case, kind, a, b):
        return f"hds_read img (hds_fuel {Z(b // (case['m_sectors'] * 512) + 2)}) {Z(a)} {Z(b)}"

    def spec_fn(self, case):
        return "(hds_src img)"

    def meta_regions(self, case):
        return [(0, 64 + 4 * case["ncl"])]

    def unit(self, case):
        return case["m_sectors"] * 512

    def dist(self, case):
        return {"alloc_k": case["alloc_k"], "size_log2": case["size"].bit_length() - 1, "in_use": bool(case.get("in_use"))}


class _Len(list):
    """a stand-in whose len() is the table length (the header only needs the count)"""
    def __init__(self, n):
        super().__init__()
        self._n = n

    def __len__(self):
        return self._n


# ----------------------------------------------------------------------------- VMDK / QCOW2: measured I/O bound
class IoBound(Suite):
    """Model-free I/O accounting for the readers whose plan-level theorems live in C01/C02: every request must cost
    file I/O bounded by the request plus a few allocation units and mapping tables, even when the backing file carries
    tens of MiB of unrelated allocated data behind the touched region (a read that runs to EOF is then obvious)."""
    TAIL = 96 * MB
    shard = 50

    def judge(self, case, impl_res, coq_val):
        fmt = self.fmt
        if impl_res.get("outcome"):
            return [Finding("impl_fault", f"{fmt}: implementation {impl_res['outcome']} {impl_res.get('detail', '')}",
                            f"{fmt}:io:{impl_res['outcome']}")]
        if impl_res.get("open") is not None:
            return []          # opening problems are C01/C02's business
        fs = []
        unit, table = impl_res["unit"], impl_res["table"]
        if impl_res["open_bytes"] > impl_res["open_bound"]:
            fs.append(Finding("impl_vs_spec", f"{fmt}: open read {impl_res['open_bytes']} bytes, mapping metadata bound "
                              f"{impl_res['open_bound']}", f"{fmt}:io:open"))
        for (kind, a, b), io in zip(impl_res["reqs"], impl_res["io"]):
            if io is None:
                continue
            if io.get("diff"):
                fs.append(Finding("impl_vs_spec", f"{fmt}: {kind}({a},{b}) returned bytes that differ from the guest content at "
                                  f"+{io['diff'][0]} (lengths {io['diff'][1]}/{io['diff'][2]})", f"{fmt}:io:content"))
            n = io["returned"]
            units = n // unit + 3
            bound = n + units * 3 * unit + (n // max(1, impl_res["coverage"]) + 2) * table + 65536
            if io["bytes"] > bound or io["max_read"] > max(4 * unit, n + 2 * unit, table) + 65536:
                fs.append(Finding("impl_vs_spec", f"{fmt}: {kind}({a},{b}) returned {n} bytes but read {io['bytes']} bytes "
                                  f"from the backing files (largest single read {io['max_read']}); bound {bound}",
                                  f"{fmt}:io:bytes"))
        return fs

    def nontrivial(self, case, impl_res, coq_val):
        if impl_res.get("io") and any(i and i["bytes"] > 0 for i in impl_res["io"]):
            return core.sha(core.jdump(case).encode())
        return None


class VmdkIo(IoBound):
    name = "vmdk_io"
    fmt = "vmdk"

    def generate(self, rng, tier):
        out = []
        n = 400 if tier == "thorough" else 40
        while len(out) < n:
            c = c02.gen_case(rng, "quick")
            c["fsize"] = c["fsize"] + self.TAIL
            c["with_parent"] = False
            out.append(c)
        return out

    def impl(self, case):
        from dissect.hypervisor.disk.vmdk import VMDK
        fh, infl = c02.build_image(case)
        out = {"open": None, "reqs": [], "io": []}
        try:
            v = VMDK(fh)
        except Exception as e:  # noqa: BLE001
            out["open"] = {"exc": type(e).__name__}
            return out
        d = v.disks[0]
        gs = int(d.header.grain_size) * 512 if case["kind"] != "flat" else 65536
        gt = (int(d._grain_table_size) * (8 if getattr(d, "is_sesparse", False) else 4)) if case["kind"] != "flat" else 0
        gd = (int(d._grain_directory_size) * (8 if getattr(d, "is_sesparse", False) else 4)) if case["kind"] != "flat" else 0
        out.update(unit=max(512, gs), table=max(512, gt), coverage=max(1, gs * max(1, gt // 4)),
                   open_bytes=fh.bytes_read, open_bound=2 * gd + 8 * 65536 + 2 * gt)
        for kind, a, b in [r[:3] for r in case["reqs"]]:
            if kind not in ("raw", "bytes", "sectors"):
                continue
            fh.reset_counters()
            try:
                if kind == "raw":
                    r = v._read(a, b)
                elif kind == "sectors":
                    r = v.read_sectors(a, b)
                else:
                    v.seek(a)
                    r = v.read(b)
            except Exception:  # noqa: BLE001
                out["reqs"].append([kind, a, b])
                out["io"].append(None)
                continue
            out["reqs"].append([kind, a, b])
            io = {"returned": len(r), "bytes": fh.bytes_read,
                  "max_read": max([x[3] for x in fh.log if x[0] == "read"] or [0])}
            # correct at scale: the bytes are the guest bytes of the generator's intent (python oracle of C02)
            s0, cnt, skip, want = c02.spec_range(case, kind, a, b)
            if cnt <= 40000:
                exp = c02.SUITES["vmdk"].intent_bytes(case, fh, infl, s0, cnt)[skip:skip + want]
                got = r[:want]
                if got != exp[:len(got)] or (kind != "raw" and len(got) != len(exp)):
                    io["diff"] = [core.first_diff(got, exp), len(got), len(exp)]
            out["io"].append(io)
        return out

    def dist(self, case):
        return {"kind": case["kind"], "compressed": bool(case.get("cgrains"))}


class Qcow2Io(IoBound):
    name = "qcow2_io"
    fmt = "qcow2"

    def generate(self, rng, tier):
        out = []
        n = 400 if tier == "thorough" else 40
        while len(out) < n:
            c = c01.gen_case(rng, "quick")
            for _ in range(60):
                # every other image keeps its clusters (compressed ones included) around and beyond 4 GiB / 16 TiB
                if len(out) % 2 or c.get("place") in ("4g", "4g+", "16t"):
                    break
                c = c01.gen_case(rng, "quick")
            c["file_size"] = c["file_size"] + self.TAIL
            if c.get("datafile"):
                c["data_size"] = c["data_size"] + self.TAIL
            out.append(c)
        return out

    def impl(self, case):
        from dissect.hypervisor.disk import qcow2 as Q
        fh, data, backing = c01.build_files(case)
        out = {"open": None, "reqs": [], "io": []}
        bk = case["backing"]
        barg = None
        if bk is not None:
            barg = backing if bk.get("size") is not None else Q.ALLOW_NO_BACKING_FILE
        try:
            q = Q.QCow2(fh, data_file=data, backing_file=barg)
        except Exception as e:  # noqa: BLE001
            out["open"] = {"exc": type(e).__name__}
            return out
        cs = int(q.cluster_size)
        files = [f for f in (fh, data, backing) if f is not None]
        out.update(unit=cs, table=cs, coverage=cs * int(q.l2_size), open_bytes=fh.bytes_read,
                   open_bound=8 * int(q.header.l1_size) + 4 * cs + 65536)
        for kind, a, b in [r[:3] for r in case["reqs"]]:
            if kind not in ("raw", "bytes"):
                continue
            if b < 0 or b > 8 * MB:
                b = min(8 * MB, max(0, int(q.size) - a))
            for f in files:
                f.reset_counters()
            try:
                if kind == "raw":
                    r = q._read(a, b)
                else:
                    q.seek(a)
                    r = q.read(b)
            except Exception:  # noqa: BLE001
                out["reqs"].append([kind, a, b])
                out["io"].append(None)
                continue
            out["reqs"].append([kind, a, b])
            io = {"returned": len(r), "bytes": sum(f.bytes_read for f in files),
                  "max_read": max([x[3] for f in files for x in f.log if x[0] == "read"] or [0])}
            # correct at scale: the bytes are the guest bytes of the generator's intent (python oracle of C01)
            want = max(0, min(b, int(q.size) - a))
            exp = c01.intent_bytes(case, a, want, (fh, data, backing))
            got = r[:want]
            if got != exp:
                io["diff"] = [core.first_diff(got, exp), len(got), len(exp)]
            out["io"].append(io)
        return out

    def dist(self, case):
        return {"cluster_bits": case["cluster_bits"], "ext": case["ext"], "datafile": case["datafile"],
                "place": case.get("place")}



class Qcow2L2Cache(Suite):
    """Amortised metadata I/O: small reads that cycle over a handful of L2 tables (far fewer than any reasonable cache holds)
    load each table once, whatever the cluster size.  Images of 6..12 L2 tables with 64 KiB, 1 MiB and 2 MiB clusters (up to
    6 TiB virtual), one data cluster per table, three round-robin passes of 4 KiB reads."""
    name = "qcow2_l2cache"
    fmt = "qcow2"
    per_case_timeout = 120.0

    def generate(self, rng, tier):
        out = []
        for cb in (16, 20, 21) if tier != "thorough" else (12, 16, 18, 20, 21, 21):
            cs = 1 << cb
            l2n = cs // 8
            ntab = rng.randint(6, 12)
            clusters, l2tabs = {}, {}
            for k in range(ntab):
                l2tabs[str(k)] = (4 + k) * cs
                g = k * l2n + rng.randrange(0, l2n)
                clusters[str(g)] = {"t": "normal", "host": (40 + k) * cs, "copied": True}
            case = {"cluster_bits": cb, "ext": False, "datafile": False, "version": 3, "header_length": 104,
                    "l1_size": ntab, "l1_offset": cs, "rc_offset": 3 * cs, "l2tabs": l2tabs, "clusters": clusters,
                    "backing": None, "backing_name_off": 200, "size": ntab * l2n * cs, "salt": rng.randrange(1 << 30),
                    "file_size": (60 + ntab) * cs, "data_size": 0}
            order = sorted(int(g) for g in clusters)
            reqs = []
            for rnd in range(3):
                for g in order:
                    reqs.append([g * cs + 4096 * rng.randrange(0, cs // 4096), 4096])
            case["reqs2"] = reqs
            out.append(case)
            if cb in (16, 21):
                out.append(dict(case, via_snapshot=True))
        return out

    def impl(self, case):
        from dissect.hypervisor.disk import qcow2 as Q
        fh, data, backing = c01.build_files(case)
        if case.get("via_snapshot"):
            # one internal snapshot whose L1 table is the active one: the same mapping read through QCow2Snapshot.open()
            cs = 1 << case["cluster_bits"]
            ent = struct.pack(">QIHHIIQII", case["l1_offset"], case["l1_size"], 1, 8, 0, 0, 0, 0, 16) + \
                struct.pack(">QQ", 0, case["size"]) + b"1" + b"snap-one"
            hdr = bytearray(fh.content(0, 512))
            struct.pack_into(">I", hdr, 60, 1)
            struct.pack_into(">Q", hdr, 64, 2 * cs)
            fh._chunks = list(fh._chunks) + [(0, bytes(hdr)), (2 * cs, ent)]
        try:
            q = Q.QCow2(fh)
            st = q.snapshots[0].open() if case.get("via_snapshot") else q
        except Exception as e:  # noqa: BLE001
            return {"open": {"exc": type(e).__name__, "msg": str(e)[:100]}}
        fh.reset_counters()
        total, wrong = 0, 0
        for a, n in case["reqs2"]:
            st.seek(a)
            r = st.read(n)
            total += len(r)
            if r != c01.intent_bytes(case, a, n, (fh, data, backing)):
                wrong += 1
        return {"open": None, "bytes": fh.bytes_read, "returned": total, "wrong": wrong,
                "max_read": max([x[3] for x in fh.log if x[0] == "read"] or [0])}

    def judge(self, case, impl_res, coq_val):
        if impl_res.get("outcome"):
            return [Finding("impl_fault", f"qcow2: implementation {impl_res['outcome']}", "qcow2:l2cache:" + impl_res["outcome"])]
        if impl_res.get("open") is not None:
            return [Finding("impl_vs_spec", f"qcow2: well-formed image refused: {impl_res['open']}", "qcow2:l2cache:open")]
        fs = []
        cs = 1 << case["cluster_bits"]
        ntab = len(case["l2tabs"])
        nreq = len(case["reqs2"])
        # every table once + the L1 table + per request the stream buffer around the 4 KiB asked for
        bound = ntab * cs + 8 * case["l1_size"] + cs + nreq * (4096 + 2 * 65536)
        if impl_res["bytes"] > bound:
            fs.append(Finding("impl_vs_spec", f"qcow2: {nreq} reads of 4 KiB cycling over {ntab} L2 tables of {cs} bytes read "
                              f"{impl_res['bytes']} bytes from the image; loading each table once needs at most {bound}",
                              "qcow2:l2cache:bytes"))
        if impl_res["wrong"]:
            fs.append(Finding("impl_vs_spec", f"qcow2: {impl_res['wrong']} of {nreq} reads returned wrong bytes",
                              "qcow2:l2cache:content"))
        return fs

    def nontrivial(self, case, impl_res, coq_val):
        return core.sha(core.jdump(case).encode())

    def dist(self, case):
        return {"cluster_bits": case["cluster_bits"], "tables": len(case["l2tabs"]), "via_snapshot": bool(case.get("via_snapshot"))}


class VmdkGtCache(Suite):
    """Amortised metadata I/O over a multi-extent VMDK: 2..4 sparse extents of 40..110 grain tables each (every extent's
    working set below the 128 tables its reader keeps, the sum above), one grain per table, five round-robin passes of
    one-sector reads over all tables of all extents.  Each table is loaded once: the passes cost the mapping metadata
    plus a small multiple of the requested bytes, not (passes x tables)."""
    name = "vmdk_gtcache"
    fmt = "vmdk"
    per_case_timeout = 120.0
    GS, GTE, PASSES = 8, 128, 5     # sectors per grain, entries per table (one sector of table), passes

    def generate(self, rng, tier):
        out = []
        for _ in range(8 if tier == "thorough" else 3):
            nx = rng.randint(2, 4)
            tabs = [rng.randint(40, 110) for _ in range(nx)]
            while sum(tabs) <= 140:
                tabs[rng.randrange(nx)] = rng.randint(90, 120)
            out.append({"tables": tabs, "salt": rng.randrange(1 << 30), "slot": [rng.randrange(self.GTE) for _ in range(sum(tabs))]})
        return out

    def build(self, case):
        files, base, k = [], 0, 0
        for xi, t in enumerate(case["tables"]):
            gs, gte = self.GS, self.GTE
            cap = t * gte * gs
            g0 = 2 + t                                       # first grain sector: header, directory (<= 1 sector), t tables
            chunks = {0: c02.kdmv_header(1, cap, gs, 0, 0, gte, 1, overhead=g0),
                      512: b"".join(struct.pack("<I", 2 + i) for i in range(t)).ljust(512, b"\0")}
            where = []
            for i in range(t):
                slot = case["slot"][k]
                k += 1
                tab = bytearray(512)
                struct.pack_into("<I", tab, 4 * slot, g0 + i * gs)
                chunks[(2 + i) * 512] = bytes(tab)
                where.append((base + (i * gte + slot) * gs, (g0 + i * gs) * 512))
            fh = core.SparseFile((g0 + t * gs) * 512, chunks, salt=case["salt"] + xi)
            files.append((fh, where, (2 * 512, (2 + t) * 512)))
            base += cap
        return files

    def impl(self, case):
        from dissect.hypervisor.disk.vmdk import VMDK
        files = self.build(case)
        try:
            v = VMDK([f for f, _, _ in files])
        except Exception as e:  # noqa: BLE001
            return {"open": {"exc": type(e).__name__, "msg": str(e)[:100]}}
        for f, _, _ in files:
            f.reset_counters()
        wrong = nreq = 0
        for rnd in range(self.PASSES):
            for f, where, _ in files:
                for gsec, foff in where:
                    r = v.read_sectors(gsec + rnd, 1)
                    nreq += 1
                    if r != f.content(foff + rnd * 512, 512):
                        wrong += 1
        tbytes = 0
        for f, _, (lo, hi) in files:
            tbytes += sum(x[3] for x in f.log if x[0] == "read" and lo <= x[1] < hi)
        return {"open": None, "table_bytes": tbytes, "bytes": sum(f.bytes_read for f, _, _ in files), "wrong": wrong, "nreq": nreq}

    def judge(self, case, impl_res, coq_val):
        if impl_res.get("outcome"):
            return [Finding("impl_fault", f"vmdk: implementation {impl_res['outcome']}", "vmdk:gtcache:" + impl_res["outcome"])]
        if impl_res.get("open") is not None:
            return [Finding("impl_vs_spec", f"vmdk: well-formed extents refused: {impl_res['open']}", "vmdk:gtcache:open")]
        fs = []
        ntab = sum(case["tables"])
        tsize = self.GTE * 4
        # every table once (twice allowed) + a few grains and sectors per request
        bound = 2 * ntab * tsize + impl_res["nreq"] * (3 * self.GS * 512 + 4 * 512)
        if impl_res["table_bytes"] > 2 * ntab * tsize or impl_res["bytes"] > bound:
            fs.append(Finding("impl_vs_spec", f"vmdk: {self.PASSES} passes over {ntab} grain tables of {tsize} bytes in {len(case['tables'])} "
                              f"extents ({case['tables']}, each below the per-extent cache) read {impl_res['table_bytes']} table "
                              f"bytes, {impl_res['bytes']} bytes in all; loading each table once needs {ntab * tsize} "
                              f"(bound {bound} in all)", "vmdk:gtcache:bytes"))
        if impl_res["wrong"]:
            fs.append(Finding("impl_vs_spec", f"vmdk: {impl_res['wrong']} of {impl_res['nreq']} reads returned wrong bytes",
                              "vmdk:gtcache:content"))
        return fs

    def nontrivial(self, case, impl_res, coq_val):
        return core.sha(core.jdump(case).encode())

    def dist(self, case):
        return {"extents": len(case["tables"]), "tables": sum(case["tables"])}


SUITES = {"qcow2_l2cache": Qcow2L2Cache(), "vmdk_gtcache": VmdkGtCache(), "vmdk_io": VmdkIo(), "qcow2_io": Qcow2Io(), "vhd_huge": VhdHuge(), "vdi_huge": VdiHuge(), "vhdx_huge": VhdxHuge(), "hds_huge": HdsHuge()}
