"""C02 — VMDK: every byte range of a sparse/flat extent reads as guest content."""
from __future__ import annotations

import struct
import zlib

from harness import core
from harness.core import Z, zpairs
from harness.main import Finding, Suite
from harness.readers import call, judge_read, keep_alive, outcome_of

PROPERTY = "C02"
PROPS_FILE = "Props/C02.v"
MODEL_FILES = ["Model/Vmdk.v"]
META = {
    "category": "proof",
    "text": "Coq theorems: the model of SparseDisk (header/footer selection, grain-directory and grain-table lookup incl. "
            "SE-sparse entry decoding with the masks taken from the source, the get_runs coalescer, run execution incl. the "
            "per-grain loop over consolidated compressed runs), RawDisk and VMDK._read/read_sectors returns exactly the "
            "guest bytes for every geometry, table content, physical placement and request, terminates for arbitrary "
            "tables, and an aligned request running past the end of the disk succeeds with the in-range prefix; the model is "
            "tied to vmdk.py by generated constants (Gen/VmdkTables.v, Gen/Consts.v, Gen/Layouts.v) and by differential "
            "correspondence on generated images (impl vs model vs spec, byte for byte, plus get_runs output run for run).",
    "design_ref": "DESIGN.md §6 C02",
    "note": "Trusted: Coq kernel; hand-written model Model/Vmdk.v (of the code with fixes/C02-*.diff applied) validated "
            "against the code on the generated cases; zlib as an oracle (Infl sources; the harness stores really deflated "
            "grains); Gen/*.v from the translator; cstruct/AlignedStream behaviour as exercised.",
    "technique": "Coq proof of model-refines-spec + differential correspondence model/implementation",
    "rule": "images: kind hosted/hosted+footer/COWD/SE-sparse/flat; grain size from {1,8,16,128,3,5,7}; grain-table entries "
            "1/4/512 (COWD 4096, SE 64/128/4096); capacity not a multiple of the grain nor of 16 sectors, up to > 2^32 sectors; "
            "grain states absent-table/absent/zero/data; placement asc/desc/swapped pairs/duplicates/random gaps/high; "
            "compressed on/off with embedded LBA on/off, one- and multi-sector compressed grains; requests read_sectors, "
            "get_runs, raw _read (incl. past the end), stream seek+read. Non-trivial = the spec plan of some request has >= 2 "
            "segments or >= 2 source kinds; distinct by the whole case.",
    "trusted_base": ["Model/Vmdk.v is hand-written (correspondence-checked, not proved against Python)",
                     "zlib.decompress is an oracle: Infl d k = byte k of the inflated grain stored at sector d"],
    "assumptions": ["file handles behave as io.RawIOBase files (SparseFile stand-in)",
                    "data grains lie inside the file (a short read at EOF is outside the property)"],
}

SECTOR = 512
GD_AT_END = 0xFFFFFFFFFFFFFFFF
F_COMPRESSED = 0x10000
F_LBA = 0x20000
SE_MAGIC = 0xCAFEBABE

DESCRIPTOR = ('# Disk DescriptorFile\nversion=1\nCID=fffffffe\nparentCID=ffffffff\ncreateType="monolithicSparse"\n\n'
              '# Extent description\nRW {cap} SPARSE "x.vmdk"\n\n# The Disk Data Base\n#DDB\n\nddb.adapterType = "ide"\n')


# ----------------------------------------------------------------------------- image construction
def kdmv_header(flags, capacity, grain_size, desc_off, desc_size, num_gte, gd_off, overhead=0, compress=0):
    h = struct.pack("<4sIIQQQQIQQQB4sH", b"KDMV", 1 if not flags & F_COMPRESSED else 3, flags, capacity, grain_size,
                    desc_off, desc_size, num_gte, 0, gd_off, overhead, 0, b"\n \r\n", compress)
    return h + b"\x00" * (512 - len(h))


def cowd_header(flags, capacity, grain_size, gd_off, num_gde):
    h = struct.pack("<4sIIIIIII", b"COWD", 1, flags, capacity, grain_size, gd_off, num_gde, 0)
    return h + b"\x00" * (512 - len(h))


def se_header(capacity, grain_size, gt_sectors, gd_off, gd_sectors, gts_off, gts_sectors, grains_off, magic=SE_MAGIC):
    vals = [magic, 0x200000001, capacity, grain_size, gt_sectors, 0, 0, 0, 0, 0,
            1, 1, 2, 1, 3, 0, gd_off, gd_sectors, gts_off, gts_sectors, 0, 0, 0, 0, grains_off, 0]
    h = struct.pack("<26Q", *vals)
    return h + b"\x00" * (512 - len(h))


def grain_data(case, gidx, variant):
    """the guest content of a compressed grain (position-stamped; variant 0 compresses well, 1 does not)"""
    gsz = case["grain_size"] * SECTOR
    raw = core.stamp(gidx * gsz, gsz, case["salt"] ^ 0x5A5A)
    if variant == 1:
        return raw
    if variant == 2:
        # a pattern-filled grain: its whole compressed stream (plus marker) fits inside one sector
        return bytes([raw[0]]) * gsz
    if variant >= 1000:
        # a grain whose compressed stream is (as close as possible to) variant-1000 bytes long: the spill-over
        # boundary of the 4- and 12-byte grain markers (stream + marker around one sector)
        target = variant - 1000
        lo, hi = 0, gsz
        best = bytes(gsz)
        while lo <= hi:
            k = (lo + hi) // 2
            cand = raw[:k] + bytes(gsz - k)
            n = len(zlib.compress(cand, 6))
            if n == target:
                return cand
            if n < target:
                best = cand
                lo = k + 1
            else:
                hi = k - 1
        # fine tune byte by byte from the largest not-too-long candidate
        k = len(best.rstrip(b"\x00"))
        for kk in range(k, min(gsz, k + 40)):
            cand = raw[:kk] + bytes(gsz - kk)
            if len(zlib.compress(cand, 6)) >= target:
                return cand
        return best
    b = bytearray(gsz)
    b[0::5] = raw[0::5]
    return bytes(b)


def compressed_grain(case, gidx, variant):
    data = grain_data(case, gidx, variant)
    comp = zlib.compress(data, 6)
    if case["flags"] & F_LBA:
        hdr = struct.pack("<QI", gidx * case["grain_size"], len(comp))
    else:
        hdr = struct.pack("<I", len(comp))
    return hdr, comp, data


def words(case):
    """-> (u32 dict, u64 dict) byte offset -> value of every table word the image stores"""
    w = 8 if case["kind"] == "sesparse" else 4
    tab = {}
    for i, v in case["gd"]:
        tab[case["gd_off"] * SECTOR + w * i] = v
    for tsec, ents in case["tables"]:
        for i, v in ents:
            tab[tsec * SECTOR + w * i] = v
    return tab


def build_image(case):
    """-> (SparseFile, infl map: grain sector -> (inflated data, stream offset, stream length))"""
    kind = case["kind"]
    if kind == "flat":
        return core.SparseFile(case["fsize"], {}, salt=case["salt"]), {}
    chunks = {}
    w = 8 if kind == "sesparse" else 4
    pk = "<Q" if w == 8 else "<I"
    # tables: zero-filled regions with the listed entries
    gd_bytes = bytearray(case["gd_size"] * w)
    for i, v in case["gd"]:
        gd_bytes[i * w:(i + 1) * w] = struct.pack(pk, v)
    gd_alloc = (len(gd_bytes) + SECTOR - 1) // SECTOR * SECTOR
    chunks[case["gd_off"] * SECTOR] = bytes(gd_bytes) + b"\x00" * (gd_alloc - len(gd_bytes))
    for tsec, ents in case["tables"]:
        tb = bytearray((case["gt_size"] * w + SECTOR - 1) // SECTOR * SECTOR)
        for i, v in ents:
            tb[i * w:(i + 1) * w] = struct.pack(pk, v)
        chunks[tsec * SECTOR] = bytes(tb)
    infl = {}
    for sec, gidx, variant in case.get("cgrains", []):
        hdr, comp, data = compressed_grain(case, gidx, variant)
        chunks[sec * SECTOR] = hdr + comp
        infl[sec] = (data, sec * SECTOR + len(hdr), len(comp))
    if kind == "hosted":
        desc_off, desc_size = case["desc"]
        if desc_size:
            txt = DESCRIPTOR.format(cap=case["capacity"]).encode()
            chunks[desc_off * SECTOR] = txt + b"\x00" * (desc_size * SECTOR - len(txt))
        if case["footer"]:
            chunks[0] = kdmv_header(case["flags"], case["capacity"], case["grain_size"], desc_off, desc_size,
                                    case["num_gte"], GD_AT_END, compress=1)
            fdesc = case.get("footer_desc", [desc_off, desc_size])
            chunks[case["fsize"] - 1024] = kdmv_header(case["flags"], case["capacity"], case["grain_size"], fdesc[0],
                                                       fdesc[1], case["num_gte"], case["gd_off"], compress=1)
            chunks[case["fsize"] - 512] = b"\x00" * 512
        else:
            chunks[0] = kdmv_header(case["flags"], case["capacity"], case["grain_size"], desc_off, desc_size,
                                    case["num_gte"], case["gd_off"], compress=1 if case["flags"] & F_COMPRESSED else 0)
    elif kind == "cowd":
        chunks[0] = cowd_header(case["flags"], case["capacity"], case["grain_size"], case["gd_off"], case["gd_size"])
    elif kind == "sesparse":
        chunks[0] = se_header(case["capacity"], case["grain_size"], case["gt_sectors"], case["gd_off"], case["gd_sectors"],
                              case["gts_off"], case["gts_sectors"], case["grains_off"])
        chunks[512] = struct.pack("<4Q", SE_MAGIC, 0, 0, 0) + b"\x00" * 480
    return core.SparseFile(case["fsize"], chunks, salt=case["salt"]), infl


# ----------------------------------------------------------------------------- generator
STATES = ("absent", "zero", "data")


def gen_sparse(rng, tier, kind):
    c = {"kind": kind, "salt": rng.randrange(1 << 30)}
    gs = rng.weighted([(1, 3), (8, 3), (16, 3), (128, 2), (3, 1), (5, 1), (7, 1)])
    huge = rng.chance(0.06) and kind != "cowd"
    if kind == "hosted":
        gt_size = rng.weighted([(1, 2), (4, 4), (512, 3), (3, 1), (96, 2), (100, 1)])      # not only powers of two
        footer = rng.chance(0.4)
        comp = rng.chance(0.6 if footer else 0.25)
        lba = comp and rng.chance(0.6)
        c["flags"] = 1 | (F_COMPRESSED if comp else 0) | (F_LBA if lba else 0)
        c["footer"] = footer
        c["num_gte"] = gt_size
    elif kind == "cowd":
        gt_size = 4096
        c["flags"] = 3
        comp = False
    else:
        gt_sectors = rng.weighted([(1, 4), (2, 2), (64, 2), (3, 1)])
        gt_size = gt_sectors * 64
        c["gt_sectors"] = gt_sectors
        c["flags"] = 0
        comp = False
    if huge:
        gs = 128
        if kind == "hosted":
            gt_size = c["num_gte"] = 512
        else:
            gt_size, c["gt_sectors"] = 4096, 64
    maxg = 48 if tier == "thorough" else 28
    # number of guest grains with interesting state (the low ones; for huge disks also a window at the top)
    if gt_size <= 4:
        ngr = rng.randint(1, maxg)
    else:
        ngr = rng.weighted([(rng.randint(1, maxg), 5), (gt_size + rng.randint(-3, 6), 1 if gs <= 16 else 0),
                            (rng.randint(1, 6), 1)])
        ngr = max(1, ngr)
    cut = rng.weighted([(0, 2), (rng.randrange(0, gs), 3)])
    capacity = max(1, ngr * gs - cut)
    ngr = (capacity + gs - 1) // gs
    windows = [(0, ngr)]
    if huge:
        capacity = (1 << 32) + rng.randrange(1, 1 << 20) * gs - cut
        if kind == "hosted" and rng.chance(0.3):
            capacity = (1 << 32) - gs * rng.randrange(0, 4) - cut       # just below / at 2^32
        top = (capacity + gs - 1) // gs
        k = rng.randint(2, 12)
        windows = [(0, min(ngr, 10)), (top - k, top)]
        if rng.chance(0.5):
            mid = ((1 << 32) // gs) - rng.randint(0, 3)
            if windows[0][1] < mid < top - k - 8:
                windows.insert(1, (mid, mid + rng.randint(2, 6)))
    c.update(capacity=capacity, grain_size=gs, gt_size=gt_size, huge=huge)
    cover = gt_size * gs
    if kind == "hosted":
        gd_size = (capacity + cover - 1) // cover
    elif kind == "cowd":
        gd_size = (capacity + cover - 1) // cover + rng.pick([0, 0, 1, 3])
    else:
        need = (capacity + cover - 1) // cover
        gd_sectors = (need + 63) // 64 + rng.pick([0, 0, 1])
        c["gd_sectors"] = gd_sectors
        gd_size = gd_sectors * 64
    c["gd_size"] = gd_size
    # grain states
    mode = rng.weighted([("all", 3), ("mixed", 6), ("sparse", 2), ("none", 1)])
    grains = {}
    for lo, hi in windows:
        for g in range(lo, hi):
            if mode == "all":
                st = "data"
            elif mode == "none":
                st = rng.weighted([("absent", 2), ("zero", 1)])
            elif mode == "sparse":
                st = rng.weighted([("absent", 5), ("zero", 2), ("data", 2)])
            else:
                st = rng.weighted([("absent", 2), ("zero", 2), ("data", 6)])
            grains[g] = st
    # whole tables absent (GD entry 0) for some directories
    dirs = sorted({g // gt_size for g in grains})
    absent_dirs = {d for d in dirs if len(dirs) > 1 and rng.chance(0.2)}
    for g in list(grains):
        if g // gt_size in absent_dirs:
            grains[g] = "notable"
    c["mode"] = mode
    # ---- file layout (sectors)
    w = 8 if kind == "sesparse" else 4
    gt_alloc = (gt_size * w + SECTOR - 1) // SECTOR
    gd_alloc = (gd_size * w + SECTOR - 1) // SECTOR
    cur = 1
    desc = [0, 0]
    if kind == "hosted" and rng.chance(0.4):
        desc = [cur, rng.pick([1, 2, 20])]
        cur += desc[1]
    if kind == "sesparse":
        cur = 2 + rng.randrange(0, 3)
    meta_after = kind == "hosted" and c["footer"]          # stream-optimised: metadata after the grains
    used_dirs = [d for d in dirs if d not in absent_dirs]
    table_sector = {}

    def place_meta(cur):
        order = rng.weighted([("gd-first", 3), ("gt-first", 2)])
        if kind == "sesparse":
            order = "gd-first"
        if order == "gd-first":
            c["gd_off"] = cur
            cur += gd_alloc + rng.pick([0, 0, 1])
        if kind == "sesparse":
            c["gts_off"] = cur
            # table index -> sector gts_off + idx * gt_sectors ; indices need not follow directory order
            idxs = list(range(len(used_dirs) + rng.pick([0, 0, 2])))
            rng.shuffle(idxs)
            # table numbers using the upper bits of the 32-bit index field (tables far away in the sparse file)
            hi = rng.pick([65536, 70001, (1 << 20) + 3, (1 << 31) + 1]) if rng.chance(0.12) else 0
            idxs = [i + hi if (hi and k % 2 == 0) else i for k, i in enumerate(idxs)]
            for d, ti in zip(used_dirs, idxs):
                table_sector[d] = (cur + ti * c["gt_sectors"], ti)
            c["gts_sectors"] = (max(idxs) + 1 if idxs else 0) * c["gt_sectors"]
            c["meta_end"] = cur + c["gts_sectors"]
            cur += (len(idxs) + 1) * c["gt_sectors"]
        else:
            ds = list(used_dirs)
            if rng.chance(0.4):
                rng.shuffle(ds)
            for d in ds:
                table_sector[d] = (cur, None)
                cur += gt_alloc + rng.pick([0, 0, 0, 1])
        if order != "gd-first":
            c["gd_off"] = cur
            cur += gd_alloc
        return cur

    if not meta_after:
        cur = place_meta(cur)
    cur = max(2, cur + rng.pick([0, 0, 1, 7]))             # sector numbers 0 and 1 are the absent / zero-grain codes
    if kind == "sesparse":
        c["grains_off"] = cur if not rng.chance(0.3) else cur + rng.randrange(0, 64)
        cur = c["grains_off"]
    # ---- physical placement of data grains
    data_g = sorted(g for g, st in grains.items() if st == "data")
    place = rng.weighted([("asc", 4), ("desc", 2), ("swap", 2), ("dup", 1), ("random", 3), ("high", 1), ("ascgap", 2)])
    if comp and place == "high":
        place = "asc"
    c["place"] = place
    phys = {}                                              # grain -> sector
    cgrains = []
    if comp:
        # compressed grains: variable physical size; pitch 'gs' makes consolidated runs possible
        pitch_gs = rng.chance(0.5)
        order = list(data_g)
        if place == "desc":
            order.reverse()
        elif place == "swap":
            for i in range(0, len(order) - 1, 2):
                order[i], order[i + 1] = order[i + 1], order[i]
        elif place == "random":
            rng.shuffle(order)
        prev = None
        for g in order:
            if place == "dup" and prev is not None and rng.chance(0.3):
                phys[g] = phys[prev]
                continue
            variant = rng.weighted([(0, 9), (1, 4), (2, 4), (1000 + rng.randint(494, 516), 4 if gs >= 2 else 0)])
            hdr, cdata, _ = compressed_grain(c | {"grain_size": gs}, g, variant)
            need = (len(hdr) + len(cdata) + SECTOR - 1) // SECTOR
            if pitch_gs and need > gs:
                variant = 0
                hdr, cdata, _ = compressed_grain(c | {"grain_size": gs}, g, variant)
                need = (len(hdr) + len(cdata) + SECTOR - 1) // SECTOR
            step = gs if (pitch_gs and need <= gs) else need
            if place in ("random", "ascgap") and rng.chance(0.3):
                cur += rng.randrange(1, 2 * gs + 2)
            phys[g] = cur
            cgrains.append([cur, g, variant])
            cur += step
            prev = g
        end_data = cur
    else:
        slots = list(range(len(data_g)))
        if place == "desc":
            slots.reverse()
        elif place == "swap":
            for i in range(0, len(slots) - 1, 2):
                slots[i], slots[i + 1] = slots[i + 1], slots[i]
        elif place in ("random", "high"):
            rng.shuffle(slots)
        base = cur
        if place == "high":
            if kind == "sesparse":
                # cluster numbers above 2^32 sectors, exercising the 12 high bits of the 60-bit cluster field
                cl = rng.pick([(1 << 32) // gs + 5, (1 << 36) // gs + 1, (1 << 48) + 3, (1 << 50) + (1 << 20) + 1])
                base = c["grains_off"] + cl * gs
            else:
                base = (1 << 32) - 1 - gs * (len(data_g) + 3) - rng.randrange(0, 100)
        gap = 0
        for g, s in zip(data_g, slots):
            if place in ("random", "ascgap") and rng.chance(0.3):
                gap += rng.randrange(1, 3) * (gs if kind == "sesparse" else rng.randrange(1, gs + 2))
            phys[g] = base + s * gs + gap
        if place == "dup":
            for a, b in zip(data_g, data_g[1:]):
                if rng.chance(0.3):
                    phys[b] = phys[a]
        cur = max([cur] + [s + gs for s in phys.values()]) if place != "high" else cur + 8
        end_data = max([cur] + [s + gs for s in phys.values()])
    c["cgrains"] = cgrains
    if meta_after:
        cur = place_meta(cur + rng.pick([0, 1]))
    # ---- tables
    tables = {}
    for g, st in sorted(grains.items()):
        d, i = divmod(g, gt_size)
        if st == "notable":
            continue
        tsec = table_sector[d][0]
        ent = tables.setdefault(tsec, [])
        if kind == "sesparse":
            if st == "absent":
                v = rng.pick([0, 0x1000000000000000, 0x1000000000000000 | rng.randrange(1 << 40)])
            elif st == "zero":
                v = 0x2000000000000000 | (rng.randrange(1 << 30) if rng.chance(0.2) else 0)
            else:
                cl, r = divmod(phys[g] - c["grains_off"], gs)
                assert r == 0 and 0 <= cl < (1 << 60)
                v = 0x3000000000000000 | ((cl & 0xFFF) << 48) | (cl >> 12)
        else:
            v = {"absent": 0, "zero": 1}.get(st, phys.get(g))
        if v:
            ent.append([i, v])
    for d in used_dirs:
        tables.setdefault(table_sector[d][0], [])
    c["tables"] = sorted([k, v] for k, v in tables.items())
    gd = []
    for d in used_dirs:
        if kind == "sesparse":
            gd.append([d, 0x1000000000000000 | table_sector[d][1]])
        else:
            gd.append([d, table_sector[d][0]])
    # SE-sparse: absent directories sometimes carry a malformed (ignored) entry instead of 0
    c["gd"] = gd
    c["desc"] = desc
    fsize = cur * SECTOR
    if not comp and kind != "x":
        fsize = max(fsize, end_data * SECTOR)
    fsize = max(fsize, c.get("meta_end", 0) * SECTOR)
    if kind == "hosted" and c["footer"]:
        fsize = (fsize // SECTOR + 1 + rng.pick([0, 1])) * SECTOR + 1024   # footer marker sector, footer, EOS
        if desc[1] and rng.chance(0.5):
            c["footer_desc"] = [0, 0]
    else:
        fsize += rng.pick([0, 0, 512, 100])
        last_g = (capacity - 1) // gs
        if (not comp and not meta_after and capacity % gs and phys.get(last_g) is not None and place != "high"
                and all(phys[last_g] >= s + gs for g2, s in phys.items() if g2 != last_g)
                and phys[last_g] * SECTOR >= c.get("meta_end", 0) * SECTOR and rng.chance(0.6)):
            # the last guest grain is partial (capacity is not a multiple of the grain size), allocated and physically last,
            # and only its guest-visible sectors are stored: the file ends less than a grain behind its start
            fsize = (phys[last_g] + capacity % gs) * SECTOR
    c["fsize"] = fsize
    c["states"] = sorted([g, st, phys.get(g, 0)] for g, st in grains.items())
    c["windows"] = windows
    c["reqs"] = gen_reqs(rng, c, windows)
    return c


def gen_flat(rng, tier):
    nsect = rng.pick([1, 3, 15, 16, 17, 100, 5000, 83])
    c = {"kind": "flat", "salt": rng.randrange(1 << 30), "capacity": nsect, "grain_size": 16, "fsize": nsect * SECTOR,
         "huge": False, "windows": [(0, (nsect + 15) // 16)], "place": "flat", "mode": "flat", "flags": 0}
    c["reqs"] = gen_reqs(rng, c, c["windows"])
    return c


def gen_reqs(rng, c, windows):
    gs = c["grain_size"]
    cap = c["capacity"]
    gt = c.get("gt_size", 4)
    reqs = []
    nreq = 7

    def pick_sector():
        lo, hi = rng.pick(windows)
        a = lo * gs
        b = min(cap, hi * gs)
        return rng.randrange(a, max(a + 1, b))

    for _ in range(nreq):
        k = rng.weighted([("sectors", 3), ("dsectors", 2), ("runs", 3), ("raw", 3), ("bytes", 4)])
        if c["kind"] == "flat" and k in ("runs",):
            k = "sectors"
        s = pick_sector()
        span = rng.weighted([(1, 1), (gs, 2), (2 * gs + 1, 3), (5 * gs + 3, 2), (gt * gs + gs, 1), (cap, 1)])
        cnt = max(1, min(cap - s, rng.randint(1, max(1, span)), 700))
        if k in ("sectors", "dsectors", "runs"):
            if rng.chance(0.15):
                cnt = max(1, min(cap - s, 700))                # up to the end of the extent
            reqs.append([k, s, cnt])
        elif k == "raw":
            cnt = rng.randint(1, max(1, min(700, 3 * gs)))
            if rng.chance(0.5):
                s = max(0, cap - rng.randint(1, 2 * gs + 16))
                cnt = min(700, cap - s + rng.randint(0, 2 * gs + 16))   # up to / past the end
            reqs.append(["raw", s * SECTOR, max(1, cnt) * SECTOR])
        else:
            size = cap * SECTOR
            off = s * SECTOR + rng.randrange(0, SECTOR)
            if rng.chance(0.3):
                off = max(0, size - rng.randint(0, (2 * gs + 20) * SECTOR))
            n = rng.weighted([(rng.randint(0, 600), 2), (rng.randint(0, min(5 * gs + 3, 700) * SECTOR + 100), 4),
                              (-1 if size - off < 400_000 else 1000, 1), (min(size, 300_000), 1)])
            reqs.append(["bytes", off, n])
    # one request well above a MiB where the extent is large enough: long runs of absent / zero grains are only
    # exercised by requests longer than any fixed zero buffer
    if cap > 2600 and c["kind"] != "flat":
        s0 = pick_sector()
        s0 = max(0, min(s0, cap - 2600))
        reqs.append(["sectors", s0, min(cap - s0, rng.randint(2200, 6000))])
    # history on one object: the extent read front to back in equal chunks (a position or table remembered from the
    # previous request must not leak into the next one), for extents small enough to scan
    if cap <= 3000 and rng.chance(0.5):
        step = rng.pick([gs, 2 * gs, 16, 7, gt * gs])
        step = max(1, min(step, 700))
        kind = rng.pick(["sectors", "dsectors"]) if c["kind"] != "flat" else "sectors"
        for s in range(0, cap, step):
            reqs.append([kind, s, min(step, cap - s)])
            if len(reqs) > 60:
                break
    return reqs


def gen_case(rng, tier):
    kind = rng.weighted([("hosted", 9), ("cowd", 2), ("sesparse", 5), ("flat", 1)])
    if kind == "flat":
        return gen_flat(rng, tier)
    c = gen_sparse(rng, tier, kind)
    # a delta link: grains absent from the extent come from the parent at the same sector (zero grains do not)
    c["with_parent"] = rng.chance(0.35)
    c["parent_salt"] = rng.randrange(1 << 30)
    return c


class ParentDisk:
    """the parent of a delta extent as SparseDisk sees it: read_sectors(sector, count) in whole-disk coordinates"""

    def __init__(self, sectors, salt):
        self.sf = core.SparseFile(sectors * SECTOR, {}, salt=salt)

    def read_sectors(self, sector, count):
        return self.sf.content(sector * SECTOR, count * SECTOR)


def parent_of(case):
    return ParentDisk(case["capacity"], case["parent_salt"]) if case.get("with_parent") else None


# ----------------------------------------------------------------------------- Coq rendering
def hdr_term(b: bytes) -> str:
    b = bytes(b)
    core_len = len(b.rstrip(b"\x00"))
    return "(" + core.zlist(list(b[:core_len])) + f" ++ repeat 0 {len(b) - core_len}%nat)"


def file_term(case, fh):
    """Gallina vfile for the image of a sparse case"""
    hdrs = [(0, fh.content(0, 512))]
    if case["kind"] == "hosted" and case["footer"]:
        hdrs.append((case["fsize"] - 1024, fh.content(case["fsize"] - 1024, 512)))
    # (a table rather than nested ifs: elaborating `if` around long list literals under several lets is exponential in Coq)
    hfun = "hlook [" + "; ".join(f"({Z(o)}, {hdr_term(b)})" for o, b in hdrs) + "]"
    tab = words(case)
    u32 = dict(tab) if case["kind"] != "sesparse" else {}
    u64 = dict(tab) if case["kind"] == "sesparse" else {}
    for sec, gidx, variant in case.get("cgrains", []):
        raw = fh.content(sec * SECTOR, 12)
        u32[sec * SECTOR] = struct.unpack_from("<I", raw, 0)[0]
        u32[sec * SECTOR + 8] = struct.unpack_from("<I", raw, 8)[0]
    return (f"{{| f_size := {Z(case['fsize'])}; f_hdr := {hfun}; "
            f"f_u32 := look {zpairs(sorted(u32.items()))}; f_u64 := look {zpairs(sorted(u64.items()))} |}}")


PLAN_KINDS = ("sectors", "dsectors", "raw", "bytes")


def spec_range(case, kind, a, b):
    """(first sector, sector count, byte skip, want_len) of the spec plan a request needs"""
    size = case["capacity"] * SECTOR
    if kind in ("sectors", "dsectors", "runs"):
        return a, b, 0, b * SECTOR
    if kind == "raw":
        want = max(0, min(b, size - a))
        return a // SECTOR, (want + SECTOR - 1) // SECTOR, 0, want
    if a >= size:
        return 0, 0, 0, 0
    n = size - a if b < 0 else min(b, size - a)
    s0 = a // SECTOR
    s1 = (a + n + SECTOR - 1) // SECTOR
    return s0, s1 - s0, a - s0 * SECTOR, n


class VmdkSuite(Suite):
    name = "vmdk"
    shard = 12
    preamble = ("From Coq Require Import ZArith List.\nImport ListNotations.\nOpen Scope Z_scope.\n"
                "From DH Require Import Base.Plan Base.Table Model.Vmdk.\n"
                "Definition look (l : list (Z * Z)) (o : Z) : Z := match assoc_z l o with Some v => v | None => 0 end.\n"
                "Fixpoint hlook (l : list (Z * list Z)) (o : Z) : list Z := match l with [] => [] | (k, v) :: r => if k =? o then v else hlook r o end.\n"
                "Definition sp_info (sp : sparse) := [if sp_se sp then 1 else 0; sp_flags sp; sp_capacity sp; "
                "sp_grain_size sp; sp_gd_size sp; sp_gt_size sp; sp_gd_off sp].\n"
                "Definition run4 (r : run) := let '(a, b, c, d) := r in [a; b; c; d].\n"
                "Definition runs_out (r : res (list run)) := match r with Ok l => Ok (map run4 l) | Err => Err | Fuel => Fuel end.\n")

    def generate(self, rng, tier):
        n = 2200 if tier == "thorough" else 170
        from harness.readers import with_twins
        return with_twins([gen_case(rng, tier) for _ in range(n)], rng)

    # -- implementation side
    def impl(self, case):
        from dissect.hypervisor.disk.vmdk import VMDK
        fh, _ = build_image(case)
        out = {"open": None, "reqs": []}
        try:
            v = keep_alive(VMDK(fh))
        except Exception as e:  # noqa: BLE001
            import traceback
            where = ""
            for fr in reversed(traceback.extract_tb(e.__traceback__)):
                if "hypervisor" in fr.filename:
                    where = f"{fr.name}:{fr.lineno}"
                    break
            out["open"] = {"outcome": "exc", "exc": type(e).__name__, "msg": str(e)[:200], "where": where}
            return out
        out["size"] = int(v.size)
        d = v.disks[0]
        if case.get("with_parent"):
            d.parent = parent_of(case)          # as VMDK.__init__ does for a monolithic sparse delta (sparse_disk.parent = ...)
        if case["kind"] != "flat":
            out["info"] = [int(bool(d.is_sesparse)), int(d.header.flags), int(d.header.capacity), int(d.header.grain_size),
                           int(d._grain_directory_size), int(d._grain_table_size)]
        for k, (kind, a, b) in enumerate(case["reqs"]):
            if k % 2 == 1:
                fh.seek((abs(a) * 7 + k * 4099) % max(1, fh.size))      # the handle is the caller's: it may have been used meanwhile
            if kind == "sectors":
                out["reqs"].append(call(v.read_sectors, a, b))
            elif kind == "dsectors":
                out["reqs"].append(call(d.read_sectors, a, b))
            elif kind == "runs":
                r = call(d.get_runs, a, b)
                if isinstance(r, list):
                    r = {"runs": [[int(t), int(o), int(n), -1 if p is None else int(p)] for t, o, n, p in r]}
                out["reqs"].append(r)
            elif kind == "raw":
                out["reqs"].append(call(v._read, a, b))
            else:
                def f(a=a, b=b):
                    v.seek(a)
                    r = v.read(b)
                    return r if v.tell() == a + len(r) else {"outcome": "exc", "exc": "PositionError",
                                                             "msg": f"tell {v.tell()} after reading {len(r)} at {a}"}
                out["reqs"].append(call(f))
        return out

    # -- Coq side
    def coq_term(self, case):
        plan_items, run_items = [], []
        if case["kind"] == "flat":
            for kind, a, b in case["reqs"]:
                s0, cnt, _, _ = spec_range(case, kind, a, b)
                spec = f"spec_plan flat_src 512 {Z(s0 * SECTOR)} {Z(cnt)}"
                if kind in ("sectors",):
                    model = f"vmdk_read_sectors v {Z(a)} {Z(b)}"
                elif kind == "dsectors":
                    model = f"Ok (map (fun s => (0, s)) (raw_read_sectors 0 0 {Z(a)} {Z(b)}))"
                elif kind == "raw":
                    model = f"vmdk_read v {Z(a)} {Z(b)}"
                else:
                    model = "Err"
                plan_items.append(f"({model}, {spec})")
            return (f"let v := mk_vmdk [XRaw {Z(case['fsize'])} 0] in "
                    f"(Ok (v_size v, [0; 0; 0; 0; 0; 0; 0]), ([" + "; ".join(plan_items) + "] : list (res xplan * list seg)), "
                    "@nil (res (list (list Z))), "
                    "@nil (Z * (Z * Z)))")
        fh, _ = build_image(case)
        hp = core.cbool(bool(case.get("with_parent")))
        for kind, a, b in case["reqs"]:
            s0, cnt, _, _ = spec_range(case, kind, a, b)
            spec = f"spec_plan (guest_src f sp 0 {hp}) 512 {Z(s0 * SECTOR)} {Z(cnt)}"
            if kind == "sectors":
                model = f"vmdk_read_sectors v {Z(a)} {Z(b)}"
            elif kind == "dsectors":
                model = (f"match sparse_read_sectors f sp 0 {hp} (fuel_for {Z(b)}) {Z(a)} {Z(b)} with "
                         f"Ok p => Ok (map (fun s => (0, s)) p) | Err => Err | Fuel => Fuel end")
            elif kind == "raw":
                model = f"vmdk_read v {Z(a)} {Z(b)}"
            elif kind == "runs":
                run_items.append(f"runs_out (sparse_get_runs f sp 0 (fuel_for {Z(b)}) {Z(a)} {Z(b)})")
                continue
            else:
                model = "Err"
            plan_items.append(f"({model}, {spec})")
        cg = "; ".join(f"({Z(sec)}, cgrain_range f sp {Z(sec)})" for sec, _, _ in case.get("cgrains", []))
        return (f"let f := {file_term(case, fh)} in match open_sparse f with "
                f"| Ok sp => let v := mk_vmdk [XSparse f sp {hp}] in "
                f"(Ok (v_size v, sp_info sp), ([" + "; ".join(plan_items) + "] : list (res xplan * list seg)), "
                f"([" + "; ".join(run_items) + "] : list (res (list (list Z)))), ([" + cg + "] : list (Z * (Z * Z)))) "
                "| Err => (Err, [], [], []) | Fuel => (Fuel, [], [], []) end")

    # -- judging
    def intent_bytes(self, case, fh, infl, first_sector, count):
        """expected guest bytes straight from the generator's description (independent of Coq)"""
        if case["kind"] == "flat":
            return fh.content(first_sector * SECTOR, count * SECTOR)
        gs = case["grain_size"]
        st = {g: (s, p) for g, s, p in case["states"]}
        comp = bool(case["flags"] & F_COMPRESSED)
        par = parent_of(case)
        out = []
        for s in range(first_sector, first_sector + count):
            g, o = divmod(s, gs)
            state, phys = st.get(g, ("absent", 0))
            if state in ("absent", "notable") and par is not None:
                out.append(par.read_sectors(s, 1))
            elif state != "data":
                out.append(b"\x00" * SECTOR)
            elif comp:
                out.append(infl[phys][0][o * SECTOR:(o + 1) * SECTOR])
            else:
                out.append(fh.content((phys + o) * SECTOR, SECTOR))
        return b"".join(out)

    def judge(self, case, impl_res, coq_val):
        fs = []
        kindname = case["kind"] + ("+footer" if case.get("footer") else "")
        if impl_res.get("outcome"):
            return [Finding("impl_fault", f"implementation {impl_res['outcome']}: {impl_res.get('detail', '')}",
                            f"vmdk:{kindname}:open:" + impl_res["outcome"])]
        _, open_v, plan_vals, run_vals, cg_vals = coq_val
        model_open = core.res_of(open_v)
        if impl_res["open"] is not None:
            o = impl_res["open"]
            fs.append(Finding("impl_vs_spec", f"open failed on a well-formed {kindname} image: {o['exc']} at {o['where']} "
                              f"({o['msg'][:80]})", f"vmdk:{kindname}:open:exc:{o['exc']}"))
            if model_open[0] != "ok":
                fs.append(Finding("model_vs_spec", "the model also refuses this well-formed image", "vmdk:open:mvs"))
            return fs
        if model_open[0] != "ok":
            return [Finding("impl_vs_model", f"model refuses the image ({model_open[0]}), implementation opens it",
                            f"vmdk:{kindname}:open:model")]
        size = model_open[1][1]
        info = [size] + list(model_open[1][2])
        if impl_res["size"] != case["capacity"] * SECTOR:
            fs.append(Finding("impl_vs_spec", f"size {impl_res['size']} != capacity*512 {case['capacity'] * SECTOR}",
                              f"vmdk:{kindname}:size"))
        if size != impl_res["size"]:
            fs.append(Finding("impl_vs_model", f"model size {size} != implementation {impl_res['size']}", "vmdk:size:model"))
        if case["kind"] != "flat" and info[1:7] != impl_res["info"]:
            fs.append(Finding("impl_vs_model", f"derived geometry differs: model {info[1:7]} implementation {impl_res['info']}",
                              f"vmdk:{kindname}:geometry"))
        fh, infl = build_image(case)

        def infl_fn(d, k, n):
            if d not in infl:
                raise KeyError(f"no compressed grain stored at sector {d}")
            return infl[d][0][k:k + n]

        par = parent_of(case)

        def mat(p):
            return core.materialise(p, file=fh, infl=infl_fn, parent=(lambda o, n: par.sf.content(o, n)) if par else None)

        # compressed-grain header arithmetic
        for cv in cg_vals:
            _, sec, (_, off, ln) = cv
            if (off, ln) != infl[sec][1:]:
                fs.append(Finding("impl_vs_model", f"model hands zlib bytes [{off},+{ln}) for the grain at sector {sec}, the "
                                  f"image stores the stream at [{infl[sec][1]},+{infl[sec][2]})", "vmdk:cgrain:model"))
        pi = ri = 0
        for (kind, a, b), r in zip(case["reqs"], impl_res["reqs"]):
            label = f"{kind}({a},{b})"
            sig = f"vmdk:{kindname}:{kind}"
            if kind == "runs":
                mv = core.res_of(run_vals[ri])
                ri += 1
                if isinstance(r, dict) and "runs" in r:
                    if mv[0] != "ok" or [list(x) for x in mv[1]] != r["runs"]:
                        fs.append(Finding("impl_vs_model", f"{label}: get_runs {r['runs'][:6]} but model {str(mv)[:200]}",
                                          sig + ":model"))
                else:
                    io = outcome_of(r)
                    fs.append(Finding("impl_vs_spec", f"{label}: get_runs raised {io[1:3]} inside the extent", sig + ":exc"))
                    if mv[0] == "ok":
                        fs.append(Finding("impl_vs_model", f"{label}: model returns runs", sig + ":model-ok-impl-exc"))
                continue
            _, model_v, spec_v = plan_vals[pi]
            pi += 1
            s0, cnt, skip, want = spec_range(case, kind, a, b)
            try:
                spec_plan = core.plan_of(spec_v)
                full = mat(spec_plan)
            except KeyError as e:
                fs.append(Finding("model_vs_spec", f"{label}: spec plan names an unknown inflate unit: {e}", sig + ":spec-infl"))
                continue
            intent = self.intent_bytes(case, fh, infl, s0, cnt)
            if full != intent:
                d = core.first_diff(full, intent)
                fs.append(Finding("model_vs_spec", f"{label}: Coq specification differs from the generator's intent at +{d}",
                                  sig + ":spec-intent"))
            if kind == "bytes":
                exp = full[skip:skip + want]
                fs += judge_read(label, r, None, [], want, lambda p, exp=exp: exp, exact_len=True, sig=sig)
            else:
                mres = core.res_of(model_v)
                if mres[0] == "ok":
                    mres = ("ok", [x[2] for x in mres[1]])          # drop the extent index
                fs += judge_read(label, r, mres, spec_plan, want, mat, exact_len=False, sig=sig)
        return fs

    def nontrivial(self, case, impl_res, coq_val):
        kinds = set()
        multi = False
        for cv in (coq_val[2] if coq_val else []):
            plan = core.plan_of(cv[2])
            if len(plan) >= 2:
                multi = True
            kinds |= {s[0] for s in plan}
        if multi or len(kinds) >= 2:
            return core.sha(core.jdump(case).encode())
        return None

    def dist(self, case):
        d = {"kind": case["kind"] + ("+footer" if case.get("footer") else ""), "grain_size": case["grain_size"],
             "place": case["place"], "mode": case["mode"], "huge": case["huge"],
             "cap_mod16": case["capacity"] % 16 == 0, "cap_mod_grain": case["capacity"] % case["grain_size"] == 0,
             "compressed": bool(case["flags"] & F_COMPRESSED), "lba": bool(case["flags"] & F_LBA)}
        if case["kind"] != "flat":
            d["gt_size"] = case["gt_size"]
            d["gd_gt_128"] = case["gd_size"] > 128
            d["se_table_index_hi"] = any(v & 0xFFFF0000 for _, v in case["gd"]) if case["kind"] == "sesparse" else False
            d["multi_sector_cgrain"] = any(v == 1 for _, _, v in case.get("cgrains", []))
        d["req_kinds"] = ",".join(sorted({r[0] for r in case["reqs"]}))
        return d


SUITES = {"vmdk": VmdkSuite()}


# ----------------------------------------------------------------------------- C11 helper: decompression bomb
def build_bomb(case):
    """A stream-optimised extent whose single compressed grain (grain_size sectors) inflates to case['inflated'] bytes.
    -> SparseFile.  Used by corpus/C11/vmdk-inflate-bomb.json (property C11 owns the judgement: reading sector 0
    must not allocate more than the grain)."""
    gs = case["grain_size"]
    comp = zlib.compress(b"\x00" * case["inflated"], 9)
    hdr = struct.pack("<QI", 0, len(comp))
    nsect = (len(hdr) + len(comp) + SECTOR - 1) // SECTOR
    gt_sector = 8 + nsect
    fsize = (gt_sector + 2 + 1) * SECTOR + 1024
    flags = 1 | F_COMPRESSED | F_LBA
    chunks = {
        # (the copy at sector 0 only says where the real header is: its other fields may be stale)
        0: kdmv_header(flags, gs, case.get("front_grain_size", gs), 0, 0, 512, GD_AT_END, compress=1),
        8 * SECTOR: hdr + comp,
        gt_sector * SECTOR: struct.pack("<I", 8) + b"\x00" * (2048 - 4),
        (gt_sector + 1) * SECTOR: struct.pack("<I", gt_sector) + b"\x00" * 508,
        fsize - 1024: kdmv_header(flags, gs, gs, 0, 0, 512, gt_sector + 1, compress=1),
        fsize - 512: b"\x00" * 512,
    }
    return core.SparseFile(fsize, chunks, salt=case.get("salt", 0))

from harness.readers import under_O, under_debug, under_bufsize  # noqa: E402
SUITES["vmdk_pyO"] = under_O(SUITES["vmdk"])
SUITES["vmdk_dbg"] = under_debug(SUITES["vmdk"])
SUITES["vmdk_buf12288"] = under_bufsize(SUITES["vmdk"], 12288)
SUITES["vmdk_buf1536"] = under_bufsize(SUITES["vmdk"], 1536, n=4)
