"""C08 — a disk stream behaves as an immutable byte array under any access history."""
from __future__ import annotations

import copy
import os

from harness import core
from harness.core import Z
from harness.main import Finding, Suite
from harness.props import c01, c02, c03, c04, c05, c06
from harness.readers import call, outcome_of

PROPERTY = "C08"
PROPS_FILE = "Props/C08.v"
MODEL_FILES = ["Model/AlignedStream.v", "Model/Lru.v", "Model/Vhd.v", "Model/Vdi.v", "Model/Vhdx.v", "Model/Hds.v",
               "Model/Qcow2.v", "Model/Vmdk.v"]
META = {
    "category": "proof",
    "text": "BYTE LEVEL PER FORMAT (Props/C08.v §7): for every well-formed VHD (dynamic, fixed), VDI, VHDX, HDS, QCOW2 image and VMDK sparse extent, every permitted buffer size, every content of the backing files and every finite history, the stream returns the slices of the immutable guest array. Coq theorems: (1) the AlignedStream state machine (seek/read/peek/readoffset/tell with its alignment buffer) over "
            "any back end honouring a stated contract produces, for every finite history, exactly the outputs of an immutable "
            "array with a cursor; (2) every reader's _read (VHD dynamic/fixed, VDI, VHDX, HDS) honours that contract for every "
            "alignment that is a multiple of its sector size, including requests past the end; (3) lru_cache memoisation is "
            "invisible for every capacity and key history; (4) hence results do not depend on the buffer size. Tied to the "
            "code by differential correspondence on operation histories: synthetic back ends against the real AlignedStream "
            "and real reader classes at several DISSECT_STREAM_BUFFER_SIZE values.",
    "design_ref": "DESIGN.md §6 C08",
    "note": "Trusted: Coq kernel; Model/AlignedStream.v is a hand-written model of the external dissect.util.stream class, "
            "validated by correspondence only; ranges stand for the bytes a back end returned (each reader theorem gives their "
            "content); QCOW2/VMDK back-end contracts are proved in C01/C02; thread interleavings on the stream lock are outside "
            "the model.",
    "technique": "Coq proof (invariant + simulation over operation histories) + differential correspondence on histories",
    "rule": "histories of 1..40 operations from seek SET/CUR/END (negative, beyond size), read 0/1/align±1/k*align/-1/past end/"
            "invalid, readinto, peek, readoffset, tell; synthetic back ends (exact, over-returning, full-chunk) at alignments "
            "{1,2,7,16,512,8192}; real VHD/VDI/VHDX/HDS images at buffer sizes {512|sector, 4096, 8192, 65536, 2 MiB}. "
            "Non-trivial = history with >= 3 reads of which one is misaligned and one crosses an alignment boundary; "
            "distinct by case hash.",
    "trusted_base": ["Model/AlignedStream.v models external code (dissect.util 3.x AlignedStream) by hand"],
    "assumptions": ["single-threaded use of a stream"],
}


# ----------------------------------------------------------------------------- histories
def gen_ops(rng, size, align, n_ops):
    ops = []
    for _ in range(n_ops):
        k = rng.weighted([("seek", 4), ("read", 6), ("peek", 2), ("readoffset", 2), ("tell", 1), ("readinto", 1)])
        def some_pos():
            return rng.weighted([(rng.randrange(0, size + 1), 4), (max(0, rng.randrange(0, size // align + 2) * align
                                                                   + rng.pick([-1, 0, 0, 1])), 3),
                                 (size + rng.randint(0, 2 * align), 1), (max(0, size - rng.randint(0, align + 3)), 2)])
        def some_n():
            return rng.weighted([(0, 1), (1, 1), (align - 1, 1), (align, 1), (align + 1, 1),
                                 (align * rng.randint(1, 4), 2), (align * rng.randint(1, 3) + rng.randint(1, align), 2),
                                 (-1, 1), (rng.randint(0, max(1, min(size, 4 * align + 50))), 4), (size + 10, 1)])
        if k == "seek":
            w = rng.pick([0, 0, 1, 2])
            if w == 0:
                p = -rng.randint(1, 5) if rng.chance(0.05) else some_pos()
            elif w == 1:
                p = rng.randint(-2 * align - 3, 2 * align + 3)
            else:
                p = rng.weighted([(-rng.randint(0, min(size, 3 * align) + 2), 4), (rng.randint(0, align), 1)])
            ops.append(["seek", p, w])
        elif k in ("read", "readinto"):
            n = -2 if (k == "read" and rng.chance(0.03)) else some_n()
            if k == "readinto" and n < 0:
                n = align
            ops.append([k, n])
        elif k == "peek":
            ops.append(["peek", some_n()])
        elif k == "readoffset":
            ops.append(["readoffset", some_pos(), some_n()])
        else:
            ops.append(["tell"])
    return ops


def run_ops(stream, ops):
    """worker side: apply a history; returns list of outputs (bytes | int | exc dict)"""
    out = []
    for op in ops:
        k = op[0]
        if k == "seek":
            out.append(call(stream.seek, op[1], op[2]))
        elif k == "read":
            out.append(call(stream.read, op[1]))
        elif k == "readinto":
            def f(n=op[1]):
                b = bytearray(n)
                got = stream.readinto(b)
                return bytes(b[:got])
            out.append(call(f))
        elif k == "peek":
            out.append(call(stream.peek, op[1]))
        elif k == "readoffset":
            out.append(call(stream.readoffset, op[1], op[2]))
        else:
            out.append(call(stream.tell))
    return out


def coq_ops(ops):
    items = []
    for op in ops:
        k = op[0]
        if k == "seek":
            items.append(f"OpSeek {Z(op[1])} {['SEEK_SET', 'SEEK_CUR', 'SEEK_END'][op[2]]}")
        elif k in ("read", "readinto"):
            items.append(f"OpRead {Z(op[1])}")
        elif k == "peek":
            items.append(f"OpPeek {Z(op[1])}")
        elif k == "readoffset":
            items.append(f"OpReadOffset {Z(op[1])} {Z(op[2])}")
        else:
            items.append("OpTell")
    return "[" + "; ".join(items) + "]"


def compare_history(ops, impl_outs, model_v, spec_v, content, fmt):
    """content: function (start, len) -> bytes for positions of the array."""
    fs = []
    mres = core.res_of(model_v)
    model_outs = None
    if mres[0] == "ok":
        model_outs = mres[1]
    else:
        fs.append(Finding("model_vs_spec", f"stream model returned {mres[0]} on a history", f"{fmt}:stream:model-{mres[0]}"))
    for i, op in enumerate(ops):
        io = outcome_of(impl_outs[i]) if not isinstance(impl_outs[i], int) else ("pos", impl_outs[i])
        so = spec_v[i]
        label = f"op#{i} {op}"
        # impl vs spec
        if so == "OutErr":
            if io[0] != "exc":
                fs.append(Finding("impl_vs_spec", f"{label}: expected an exception, got {io[0]}", f"{fmt}:stream:noexc"))
        elif so[0] == "OutPos":
            if io != ("pos", so[1]):
                fs.append(Finding("impl_vs_spec", f"{label}: position {io} != array position {so[1]}", f"{fmt}:stream:pos"))
        else:
            want = b"".join(content(s, l) for (_, s, l) in so[1])
            if io[0] != "ok":
                fs.append(Finding("impl_vs_spec" if io[0] == "exc" else "impl_fault",
                                  f"{label}: implementation {io[:3]} where the array yields {len(want)} bytes",
                                  f"{fmt}:stream:{io[0]}"))
            elif io[1] != want:
                d = core.first_diff(io[1], want)
                fs.append(Finding("impl_vs_spec", f"{label}: returned {len(io[1])} bytes, array slice has {len(want)}; "
                                  f"first difference at +{d}", f"{fmt}:stream:bytes"))
        # impl vs model
        if model_outs is not None:
            mo = model_outs[i]
            if mo == "OutErr":
                if io[0] != "exc":
                    fs.append(Finding("impl_vs_model", f"{label}: model raises, implementation {io[0]}", f"{fmt}:stream:m-exc"))
            elif mo[0] == "OutPos":
                if io != ("pos", mo[1]):
                    fs.append(Finding("impl_vs_model", f"{label}: model position {mo[1]}, implementation {io}",
                                      f"{fmt}:stream:m-pos"))
            else:
                mb = b"".join(content(s, l) for (_, s, l) in mo[1])
                if io[0] == "ok" and io[1] != mb:
                    fs.append(Finding("impl_vs_model", f"{label}: model ranges {mo[1][:4]} differ from implementation "
                                      f"({len(io[1])} vs {len(mb)} bytes)", f"{fmt}:stream:m-bytes"))
                if so != "OutErr" and so[0] == "OutBytes":
                    want = b"".join(content(s, l) for (_, s, l) in so[1])
                    if mb != want:
                        fs.append(Finding("model_vs_spec", f"{label}: model ranges differ from the array", f"{fmt}:stream:mvs"))
    return fs


def history_nontrivial(ops, align):
    reads = [o for o in ops if o[0] in ("read", "peek", "readoffset", "readinto")]
    big = [o for o in reads if (o[-1] == -1 or o[-1] > align)]
    return len(reads) >= 3 and len(big) >= 1


# ----------------------------------------------------------------------------- suite A: synthetic back ends
class SynthSuite(Suite):
    name = "synth"
    shard = 60
    preamble = ("From Coq Require Import ZArith List.\nImport ListNotations.\nOpen Scope Z_scope.\n"
                "From DH Require Import Base.Plan Model.AlignedStream.\n")

    def generate(self, rng, tier):
        n = 3000 if tier == "thorough" else 300
        out = []
        for _ in range(n):
            align = rng.pick([1, 2, 7, 16, 512, 8192])
            size = rng.weighted([(0, 1), (rng.randint(1, 5 * align + 3), 6), (align * rng.randint(1, 5), 3)])
            mode = rng.pick(["exact", "over", "full"])
            slack = rng.randint(1, 2 * align)
            out.append({"size": size, "align": align, "mode": mode, "slack": slack, "salt": rng.randrange(1 << 20),
                        "ops": gen_ops(rng, size, align, rng.randint(1, 40))})
        return out

    @staticmethod
    def blen(case, off, ln):
        if case["mode"] == "exact":
            return max(0, min(ln, case["size"] - off))
        if case["mode"] == "over":
            return max(0, min(ln, case["size"] + case["slack"] - off))
        return ln

    def impl(self, case):
        from dissect.util.stream import AlignedStream

        suite = self

        class Synth(AlignedStream):
            def _read(self, offset, length):
                return core.stamp(offset, suite.blen(case, offset, length), case["salt"])

        return run_ops(Synth(case["size"], case["align"]), case["ops"])

    def coq_term(self, case):
        size, align = case["size"], case["align"]
        if case["mode"] == "exact":
            b = f"(fun off len => Ok (Z.max 0 (Z.min len ({size} - off))))"
        elif case["mode"] == "over":
            b = f"(fun off len => Ok (Z.max 0 (Z.min len ({size + case['slack']} - off))))"
        else:
            b = "(fun off len => Ok len)"
        ops = coq_ops(case["ops"])
        return f"(run_outs {size} {align} {b} {ops}, spec_run {size} 0 {ops})"

    def judge(self, case, impl_res, coq_val):
        if isinstance(impl_res, dict):
            return [Finding("impl_fault", f"implementation {impl_res}", "synth:stream:" + str(impl_res.get("outcome")))]
        _, model_v, spec_v = coq_val
        return compare_history(case["ops"], impl_res, model_v, spec_v,
                               lambda s, l: core.stamp(s, l, case["salt"]), "synth")

    def nontrivial(self, case, impl_res, coq_val):
        return core.sha(core.jdump(case).encode()) if history_nontrivial(case["ops"], case["align"]) else None

    def dist(self, case):
        return {"align": case["align"], "mode": case["mode"], "nops": len(case["ops"]) // 10 * 10,
                "size_vs_align": "0" if case["size"] == 0 else ("<" if case["size"] < case["align"] else
                                                                  ("mult" if case["size"] % case["align"] == 0 else "other"))}


# ----------------------------------------------------------------------------- suite B: real readers
READERS = {
    "vhd": (c04, "vhd"),
    "vdi": (c05, "vdi"),
    "vhdx": (c03, "vhdx"),
    "hds": (c06, "hds"),
}


class ReaderStreamSuite(Suite):
    """Histories on real reader classes at one stream buffer size (set through the environment, as users do)."""
    shard = 8
    per_case_timeout = 60.0

    def __init__(self, bufsize):
        self.bufsize = bufsize
        self.name = f"readers_{bufsize}"
        self.env = {"DISSECT_STREAM_BUFFER_SIZE": bufsize}
        self.preamble = ("From Coq Require Import ZArith List.\nImport ListNotations.\nOpen Scope Z_scope.\n"
                         "From DH Require Import Base.Plan Base.Table Model.AlignedStream Model.Vhd Model.Vdi Model.Vhdx "
                         "Model.Hds.\n")

    def generate(self, rng, tier):
        n = 160 if tier == "thorough" else 16
        out = []
        for i in range(n):
            fmt = ["vhd", "vdi", "vhdx", "hds"][i % 4]
            mod, sname = READERS[fmt]
            want_many = fmt == "vhd" and i == 0       # one VHD whose table has more than 16384 entries
            for _ in range(600 if want_many else 50):
                c = mod.gen_case(rng, "quick")
                if want_many and c.get("max_entries", 0) <= 16384:
                    continue
                if c["size"] <= (10 if want_many else 6) * (1 << 20) and not (fmt == "vhdx" and self.bufsize % c["sector_size"]):
                    break
            else:
                continue
            c = copy.deepcopy(c)
            c.pop("reqs", None)
            out.append({"fmt": fmt, "img": c, "bufsize": self.bufsize,
                        "ops": gen_ops(rng, c["size"], self.bufsize, rng.randint(3, 25))})
        return out

    def _suite(self, case):
        mod, sname = READERS[case["fmt"]]
        return mod.SUITES[sname]

    def impl(self, case):
        import dissect.util.stream as st
        if st.STREAM_BUFFER_SIZE != case["bufsize"]:
            return {"outcome": "crash", "detail": f"buffer size not applied: {st.STREAM_BUFFER_SIZE}"}
        s = self._suite(case)
        img = case["img"]
        if case["fmt"] == "vhd":
            from dissect.hypervisor.disk.vhd import VHD
            stream = VHD(c04.build_image(img))
        else:
            stream = s.open_impl(img, s.build_files(img))
        if stream.align != case["bufsize"]:
            return {"outcome": "crash", "detail": f"align {stream.align}"}
        return run_ops(stream, case["ops"])

    def _reader_terms(self, case):
        """-> (img term, bread term (fun off len => res plan), gsrc term, granule)"""
        fmt, img = case["fmt"], case["img"]
        size = img["size"]
        if fmt == "vhd":
            if img["kind"] == "fixed":
                return "tt", f"(fun off len => Ok (fixed_read {size} off len))", "fixed_src", 512
            term = c04.SUITES["vhd"].coq_term({**img, "reqs": []})
            dterm = term[len("let d := "):term.rindex(" in [")]
            return dterm, "(fun off len => dyn_read img (fuel_for (len / 512 + 2)) off len)", "(Vhd.guest_src img)", 512
        s = self._suite(case)
        if fmt == "vdi":
            return s.coq_img(img), "(fun off len => vdi_read img (vdi_fuel (len / 512 + 2)) off len)", "(vdi_src img)", \
                s.granule(img)
        if fmt == "vhdx":
            return s.coq_img(img), "(fun off len => vhdx_read img (vhdx_fuel (len / 512 + 2)) off len)", "(vhdx_src img)", \
                img["sector_size"]
        return (s.coq_img(img) if img["kind"] != "plain" else "tt"), \
            ("(fun off len => hds_read img (hds_fuel (len / 512 + 2)) off len)" if img["kind"] != "plain" else
             f"(fun off len => Ok [SFile off (Z.min len ({size} - off))])"), \
            ("(hds_src img)" if img["kind"] != "plain" else "File"), 512

    def coq_term(self, case):
        size, align = case["img"]["size"], case["bufsize"]
        imgt, bread, gsrc, g = self._reader_terms(case)
        ops = coq_ops(case["ops"])
        cnt = (size + g - 1) // g
        return (f"let img := {imgt} in (run_outs {size} {align} (blen_plan {bread}) {ops}, "
                f"spec_run {size} 0 {ops}, spec_plan {gsrc} {g} 0 {cnt})")

    def judge(self, case, impl_res, coq_val):
        fmt = case["fmt"]
        if isinstance(impl_res, dict):
            return [Finding("impl_fault", f"implementation {impl_res}", f"{fmt}:stream:" + str(impl_res.get("outcome")))]
        _, model_v, spec_v, disk_plan = coq_val
        img = case["img"]
        if fmt == "vhd":
            disk = core.materialise(core.plan_of(disk_plan), file=c04.build_image(img))[:img["size"]]
        else:
            s = self._suite(case)
            disk = s.materialiser(img, s.build_files(img))(core.plan_of(disk_plan))[:img["size"]]
        if len(disk) != img["size"]:
            return [Finding("coq_error", f"whole-disk spec plan has {len(disk)} bytes, disk {img['size']}")]
        return compare_history(case["ops"], impl_res, model_v, spec_v, lambda s, l: disk[s:s + l], fmt)

    def nontrivial(self, case, impl_res, coq_val):
        return core.sha(core.jdump(case).encode()) if history_nontrivial(case["ops"], 512) else None

    def dist(self, case):
        return {"fmt": case["fmt"], "bufsize": case["bufsize"], "nops": len(case["ops"]) // 5 * 5,
                "size_mod_buf": case["img"]["size"] % case["bufsize"] == 0}

    def describe(self, case):
        d = dict(case)
        return d


class Qcow2VmdkStreamSuite(Suite):
    """Histories on QCow2 / VMDK streams at one buffer size. The array content is the generators' own intent oracle
    (independent of Coq); the model is the stream state machine over the reader models of C01 / C02."""
    shard = 6
    per_case_timeout = 90.0

    def __init__(self, fmt, bufsize):
        self.fmt = fmt
        self.bufsize = bufsize
        self.name = f"{fmt}_{bufsize}"
        self.env = {"DISSECT_STREAM_BUFFER_SIZE": bufsize}
        self.preamble = (c01.Qcow2Suite.preamble if fmt == "qcow2" else c02.VmdkSuite.preamble) + \
            "From DH Require Import Model.AlignedStream.\n"

    def generate(self, rng, tier):
        n = 80 if tier == "thorough" else 8
        out = []
        tries = 0
        while len(out) < n and tries < 6000:
            tries += 1
            if self.fmt == "qcow2":
                # (the first image has a compressed cluster whose stream needs one sector more than a cluster)
                # (... and the second one an external data file whose offset 0 holds a cluster)
                c = c01.gen_case(rng, "quick") if len(out) >= 2 else \
                    c01.gen_case_where(rng, "quick", lambda k: (c01.needs_wide_csize(k) if not out else c01.has_datafile_cluster0(k))
                                       and 0 < k["size"] <= 3 * (1 << 20), tries=20000)
                size = c["size"]
            else:
                c = c02.gen_case(rng, "quick")
                size = (c["capacity"] * 512) if c["kind"] != "flat" else c["fsize"] // 512 * 512
                # the first two images of every suite are stream-optimised (compressed grains): two such extents alive in
                # one process must not see each other's grains
                if len(out) < 2 and not (c["kind"] != "flat" and c["flags"] & c02.F_COMPRESSED):
                    continue
                if len(out) == 1:
                    # ... and the second one has the layout of the first (same grain sectors) with other content
                    c = copy.deepcopy(out[0]["img"])
                    c["salt"] = (c["salt"] ^ 0x5A5A5A) & ((1 << 30) - 1)
                    size = c["capacity"] * 512
            if size > 3 * (1 << 20) or size <= 0:
                continue
            c = copy.deepcopy(c)
            c.pop("reqs", None)
            ops = gen_ops(rng, size, self.bufsize, rng.randint(3, 25))
            if len(out) < 2:
                ops += [["seek", 0, 0], ["read", -1]]          # the directed images are also read from start to end in one go
            out.append({"fmt": self.fmt, "img": c, "size": size, "bufsize": self.bufsize, "ops": ops})
        return out

    def _open(self, case):
        img = case["img"]
        if self.fmt == "qcow2":
            from dissect.hypervisor.disk import qcow2 as Q
            fh, data, backing = c01.build_files(img)
            bk = img["backing"]
            barg = None
            if bk is not None:
                barg = backing if bk.get("size") is not None else Q.ALLOW_NO_BACKING_FILE
            return Q.QCow2(fh, data_file=data, backing_file=barg)
        from dissect.hypervisor.disk.vmdk import VMDK
        fh, _ = c02.build_image(img)
        v = VMDK(fh)
        if img.get("with_parent"):
            v.disks[0].parent = c02.parent_of(img)          # a delta link: absent grains come from the parent
        return v

    def impl(self, case):
        import dissect.util.stream as st
        if st.STREAM_BUFFER_SIZE != case["bufsize"]:
            return {"outcome": "crash", "detail": f"buffer size not applied: {st.STREAM_BUFFER_SIZE}"}
        stream = self._open(case)
        if int(stream.size) != case["size"]:
            return {"outcome": "crash", "detail": f"size {int(stream.size)} != {case['size']}"}
        return run_ops(stream, case["ops"])

    def coq_term(self, case):
        size, align, img = case["size"], case["bufsize"], case["img"]
        ops = coq_ops(case["ops"])
        if self.fmt == "qcow2":
            lay = c01.layout(img)
            return (f"let im := {c01.coq_image(img, lay)} in "
                    f"(run_outs {size} {align} (blen_plan (fun off len => qcow2_read im (fuel_for im len) off len)) {ops}, "
                    f"spec_run {size} 0 {ops})")
        if img["kind"] == "flat":
            return (f"let v := mk_vmdk [XRaw {Z(img['fsize'])} 0] in "
                    f"(run_outs {size} {align} (blen_plan (fun off len => match vmdk_read v off len with Ok p => Ok (plan_of_x p) "
                    f"| Err => Err | Fuel => Fuel end)) {ops}, spec_run {size} 0 {ops})")
        fh, _ = c02.build_image(img)
        return (f"let f := {c02.file_term(img, fh)} in match open_sparse f with "
                f"| Ok sp => let v := mk_vmdk [XSparse f sp {core.cbool(bool(img.get('with_parent')))}] in "
                f"(run_outs {size} {align} (blen_plan (fun off len => match vmdk_read v off len with Ok p => Ok (plan_of_x p) "
                f"| Err => Err | Fuel => Fuel end)) {ops}, spec_run {size} 0 {ops}) "
                f"| _ => (Err, []) end")

    def judge(self, case, impl_res, coq_val):
        fmt = self.fmt
        if isinstance(impl_res, dict):
            return [Finding("impl_fault", f"implementation {impl_res}", f"{fmt}:stream:" + str(impl_res.get("outcome")))]
        _, model_v, spec_v = coq_val
        img = case["img"]
        if fmt == "qcow2":
            files = c01.build_files(img)

            def content(s, l):
                return c01.intent_bytes(img, s, l, files)
        else:
            fh, infl = c02.build_image(img)
            vs = c02.VmdkSuite()

            def content(s, l):
                if l <= 0:
                    return b""
                s0 = s // 512
                cnt = (s + l + 511) // 512 - s0
                return vs.intent_bytes(img, fh, infl, s0, cnt)[s - s0 * 512:s - s0 * 512 + l]
        return compare_history(case["ops"], impl_res, model_v, spec_v, content, fmt)

    def nontrivial(self, case, impl_res, coq_val):
        return core.sha(core.jdump(case).encode()) if history_nontrivial(case["ops"], 512) else None

    def dist(self, case):
        return {"fmt": case["fmt"], "bufsize": case["bufsize"], "nops": len(case["ops"]) // 5 * 5}



# ----------------------------------------------------------------------------- differencing VHDX chains as streams
def vhdx_chain_content(case, files):
    """python oracle: (start, len) -> guest bytes of a VHDX chain (c07.VhdxChain case), sector by sector: the topmost layer
    whose block is fully present, or partially present with the sector's bitmap bit set, holds the sector; a block that is
    not present defers to the parent when the layer has one; every other state reads as zeros"""
    ss = case["sector_size"]
    MBb = 1 << 20

    def sector(sec):
        for d, l in enumerate(case["layers"]):
            spb = l["block_size"] // ss
            b, i = divmod(sec, spb)
            st, mb = l["blocks"][b]
            if st == 6:
                return files[d].content(mb * MBb + i * ss, ss)
            if st == 7:
                cr = ((1 << 23) * ss) // l["block_size"]
                sbd = {int(k): v for k, v in l["sb"].items()}
                sbmb = sbd[b // cr][1]
                bm = bytes.fromhex(l["bitmaps"][str(sbmb * MBb + (b % cr) * (spb // 8))])
                if (bm[i // 8] >> (i % 8)) & 1:
                    return files[d].content(mb * MBb + i * ss, ss)
                continue
            if st == 0 and l["has_parent"]:
                continue
            return b"\x00" * ss
        return b"\x00" * ss

    def content(start, ln):
        if ln <= 0:
            return b""
        s0 = start // ss
        s1 = (start + ln + ss - 1) // ss
        buf = b"".join(sector(x) for x in range(s0, s1))
        return buf[start - s0 * ss:start - s0 * ss + ln]
    return content


class VhdxChainStream(Suite):
    """Histories on a differencing VHDX opened by path over its parents (partially present blocks with sector bitmaps),
    at one stream buffer size.  The stream state machine (positions, lengths, exceptions) is the Coq model over an
    abstract back end that meets the contract; the array content is the chain oracle above."""
    shard = 10
    per_case_timeout = 90.0

    def __init__(self, bufsize):
        self.bufsize = bufsize
        self.name = f"vhdxchain_{bufsize}"
        self.env = {"DISSECT_STREAM_BUFFER_SIZE": bufsize}
        self.preamble = ("From Coq Require Import ZArith List.\nImport ListNotations.\nOpen Scope Z_scope.\n"
                         "From DH Require Import Base.Plan Base.Table Model.AlignedStream.\n")

    def generate(self, rng, tier):
        from harness.props import c07
        base = c07.VhdxChain().generate(rng, tier)
        out = []
        for c in base:
            if self.bufsize % c["sector_size"] or len(out) >= (60 if tier == "thorough" else 6):
                continue
            ops = []
            # reads at sector positions that are no multiple of 8 (inside a bitmap byte), of a few sectors
            nsect = c["size"] // c["sector_size"]
            for _ in range(6):
                sec = rng.randrange(0, nsect)
                ops.append(["seek", sec * c["sector_size"] + rng.pick([0, 0, 1, 511]), 0])
                ops.append(["read", rng.randint(1, 24) * c["sector_size"] - rng.pick([0, 0, 3])])
            ops += gen_ops(rng, c["size"], self.bufsize, rng.randint(3, 12))
            # no unbounded reads of multi-MiB disks sector by sector: cap read-to-end to the last 64 KiB
            ops = [o for o in ops if not (o[0] in ("read", "peek", "readoffset") and (o[-1] < 0 or o[-1] > 300000))]
            out.append({"chain": {k: c[k] for k in ("layers", "size", "sector_size")}, "bufsize": self.bufsize, "ops": ops})
        return out

    def impl(self, case):
        import shutil
        import tempfile
        from pathlib import Path

        import dissect.util.stream as st
        from harness import fmt_vhdx
        if st.STREAM_BUFFER_SIZE != case["bufsize"]:
            return {"outcome": "crash", "detail": f"buffer size not applied: {st.STREAM_BUFFER_SIZE}"}
        from dissect.hypervisor.disk.vhdx import VHDX
        ch = case["chain"]
        tmp = tempfile.mkdtemp(prefix="verif_c08x_")
        try:
            for d, l in enumerate(ch["layers"]):
                sf = fmt_vhdx.build(l)
                with open(os.path.join(tmp, f"L{d}.vhdx"), "wb") as fh:
                    fh.truncate(l["file_size"])
                    for off, b in sf._chunks:
                        fh.seek(off)
                        fh.write(b)
                    for stt, mb in l["blocks"]:
                        if stt in (6, 7):
                            fh.seek(mb * (1 << 20))
                            fh.write(sf.content(mb * (1 << 20), l["block_size"]))
            top = VHDX(Path(tmp) / "L0.vhdx")
            if top.align != case["bufsize"]:
                return {"outcome": "crash", "detail": f"align {top.align}"}
            return run_ops(top, case["ops"])
        finally:
            shutil.rmtree(tmp, ignore_errors=True)

    def coq_term(self, case):
        size, align = case["chain"]["size"], case["bufsize"]
        ops = coq_ops(case["ops"])
        return (f"(run_outs {size} {align} (fun off len => Ok (Z.min len ({size} - off))) {ops}, spec_run {size} 0 {ops})")

    def judge(self, case, impl_res, coq_val):
        if isinstance(impl_res, dict):
            return [Finding("impl_fault", f"implementation {impl_res}", "vhdxchain:stream:" + str(impl_res.get("outcome")))]
        from harness import fmt_vhdx
        _, model_v, spec_v = coq_val
        files = [fmt_vhdx.build(l) for l in case["chain"]["layers"]]
        return compare_history(case["ops"], impl_res, model_v, spec_v, vhdx_chain_content(case["chain"], files), "vhdxchain")

    def nontrivial(self, case, impl_res, coq_val):
        return core.sha(core.jdump(case).encode())

    def dist(self, case):
        return {"bufsize": case["bufsize"], "depth": len(case["chain"]["layers"]), "ss": case["chain"]["sector_size"],
                "partial_blocks": sum(1 for l in case["chain"]["layers"] for stt, _ in l["blocks"] if stt == 7)}


# ----------------------------------------------------------------------------- multi-extent VMDKs (and split snapshots) as streams
class VmdkSplitStream(Suite):
    """Histories on a VMDK assembled from a descriptor with several extents (flat, VMFS, hosted / COWD / SE sparse; C10's
    generator), a third of them split snapshot disks over a parent.  The array is the concatenation of the extents as the
    Coq specification of C10 gives it (xspec_plan over the intended extents, materialised with the generator's files)."""
    shard = 4
    per_case_timeout = 90.0

    def __init__(self, bufsize):
        from harness.props import c10
        self.c10 = c10
        self.bufsize = bufsize
        self.name = f"vmdksplit_{bufsize}"
        self.env = {"DISSECT_STREAM_BUFFER_SIZE": bufsize}
        # (the case analysis lives in a preamble function: a `match` under six let-bound file records makes Coq's
        # elaboration of the case term exponential)
        self.preamble = (c10.MultiSuite.preamble + "From DH Require Import Model.AlignedStream.\n"
                         "Definition split_case (hp : bool) (files : list (str * vfile)) (text : str) "
                         "(intent : list (Z * vfile * Z * Z)) (size align : Z) (ops : list sop) :=\n"
                         "  match assemble_p files text, all_ok (map (intent_x hp) intent) with\n"
                         "  | Ok v, Ok xs => (run_outs size align (blen_plan (fun off len => match vmdk_read v off len with "
                         "Ok p => Ok (plan_of_x p) | Err => Err | Fuel => Fuel end)) ops, spec_run size 0 ops, "
                         "xspec_plan (v_disks (mk_vmdk xs)) 0 (size / 512))\n"
                         "  | _, _ => (Err, [], []) end.\n")

    def generate(self, rng, tier):
        n = 30 if tier == "thorough" else 6
        out, tries = [], 0
        while len(out) < n and tries < 20000:
            tries += 1
            c = self.c10.gen_multi(rng, "quick")
            total = sum(e["sectors"] for e in c["extents"])
            if c["mode"] != "descriptor" or total * 512 > 2 * (1 << 20):
                continue
            single_flat = len(c["extents"]) == 1 and c["extents"][0]["type"] == "FLAT" and (c["extents"][0].get("start") or 0) > 0
            if len(out) % 3 == 2:
                if not single_flat:
                    continue                                 # every third case: ONE flat extent that starts inside its file
            elif len(c["extents"]) < 2 or (len(out) % 3 == 0 and not c.get("parent")):
                continue                                     # every third case is a split snapshot over a parent
            c.pop("reqs", None)
            size = total * 512
            out.append({"img": c, "size": size, "bufsize": self.bufsize,
                        "ops": gen_ops(rng, size, self.bufsize, rng.randint(3, 25))})
        return out

    def impl(self, case):
        import shutil
        from pathlib import Path

        import dissect.util.stream as st
        from dissect.hypervisor.disk.vmdk import VMDK
        if st.STREAM_BUFFER_SIZE != case["bufsize"]:
            return {"outcome": "crash", "detail": f"buffer size not applied: {st.STREAM_BUFFER_SIZE}"}
        d = os.path.join(self.c10.SCRATCH, f"s{os.getpid()}")
        shutil.rmtree(d, ignore_errors=True)
        os.makedirs(d)
        try:
            v = VMDK(Path(self.c10.write_case_dir(case["img"], d)))
            if int(v.size) != case["size"]:
                return {"outcome": "crash", "detail": f"size {int(v.size)} != {case['size']}"}
            r = run_ops(v, case["ops"])
            for x in v.disks:
                try:
                    x.fh.close()
                except Exception:  # noqa: BLE001
                    pass
            return r
        finally:
            shutil.rmtree(d, ignore_errors=True)

    def coq_term(self, case):
        img, size, align = case["img"], case["size"], case["bufsize"]
        lets, files, intent = self.c10.files_and_intent_terms(img)
        hp = "true" if img.get("parent") else "false"
        ops = coq_ops(case["ops"])
        return f"{lets}split_case {hp} [{files}] {self.c10.cps(img['text'])} [{intent}] {size} {align} {ops}"

    def judge(self, case, impl_res, coq_val):
        if isinstance(impl_res, dict):
            return [Finding("impl_fault", f"implementation {impl_res}", "vmdk:split-stream:" + str(impl_res.get("outcome")))]
        _, model_v, spec_v, whole = coq_val
        img = case["img"]
        files = [self.c10.extent_file(e) for e in img["extents"]]
        disk = self.c10.mat_with(img, files)(whole)
        if len(disk) != case["size"]:
            return [Finding("coq_error", f"the specification plan of the whole disk yields {len(disk)} bytes, size {case['size']}")]
        return compare_history(case["ops"], impl_res, model_v, spec_v, lambda s0, l: disk[s0:s0 + l], "vmdk-split")

    def nontrivial(self, case, impl_res, coq_val):
        return core.sha(core.jdump(case).encode()) if history_nontrivial(case["ops"], 512) else None

    def dist(self, case):
        return {"bufsize": case["bufsize"], "extents": len(case["img"]["extents"]), "parent": bool(case["img"].get("parent"))}


SUITES = {"synth": SynthSuite()}
for _b in (512, 8192, 131072):
    SUITES[f"vmdksplit_{_b}"] = VmdkSplitStream(_b)
for _f in ("qcow2", "vmdk"):
    for _b in (512, 8192, 131072):
        SUITES[f"{_f}_{_b}"] = Qcow2VmdkStreamSuite(_f, _b)
for _b in (512, 4096, 8192, 65536, 2097152):
    SUITES[f"readers_{_b}"] = ReaderStreamSuite(_b)
for _b in (512, 1536, 8192):
    SUITES[f"vhdxchain_{_b}"] = VhdxChainStream(_b)

# the active disk and the view of an internal snapshot (QCow2Snapshot.open()) read in interleaved histories: each is an
# immutable array of its own (the suite of C07, judged here for the stream property)
from harness.props import c07 as _c07  # noqa: E402
SUITES["qcow2_snapshot"] = _c07.Qcow2Snapshots()
