"""C16 — ESXi envelope and keystore: decrypt round-trips and is authenticated.

Correspondence for Model/Envelope.v and Model/EnvKeystore.v.

* an independent writer (this file) produces version-2 envelopes: header struct, attribute records of all
  12 value types in any order/count, AES-256-GCM over  payload ‖ padding ‖ filler ‖ crypto footer  with the
  stored header block ‖ associated data as AAD, AEAD footer with the tag;
* the implementation is driven through Envelope(fh).decrypt(key, aad), _pack_envelope_header, KeyStore.from_text
  and the command-line entry point tools/envelope.py main() in a scratch directory under /work;
* the Gallina model is evaluated by coqc.  AES-GCM / SHA-256 / PBKDF2 are function arguments of the model: a first
  Coq pass (inside generate) prints the model's call plan (which bytes it hands to which primitive), the harness
  executes the plan with hashlib / pycryptodome and stores the answers in the case ("hint"); the second pass runs
  the model with exactly these answers.  The judge re-executes the primitives on the plan printed by the second
  pass, so a stale or wrong hint is reported, never trusted.
* three-way judge: implementation vs specification (the generator's ground truth: untampered => the original
  payload; header / ciphertext / tag / AAD / key altered => error), implementation vs model, model vs specification.
"""
from __future__ import annotations

import base64
import copy
import hashlib
import io
import os
import re
import shutil
import struct
import sys

from harness import core
from harness.core import Z, zlist
from harness.main import Finding, Suite

PROPERTY = "C16"
PROPS_FILE = "Props/C16.v"
MODEL_FILES = ["Model/Envelope.v", "Model/EnvKeystore.v"]
META = {
    "category": "proof",
    "text": "Coq theorems about the Gallina model of util/envelope.py + tools/envelope.py: attribute codec round trip for "
            "all 12 types in any order, decrypt(seal) = payload for every payload/padding/attribute set/AAD, padding strip "
            "exact, decrypt accepts only if the key hash matched and GCM verification accepted (stored header ‖ AAD, "
            "ciphertext, tag) - hence every alteration is refused unless it is a GCM/SHA-256 forgery -, no plaintext on "
            "error, key derivation = PBKDF2 of the keystore's stored values, CLI writes exactly the decrypted bytes. "
            "Model tied to the code by generated tables (Gen/EnvelopeTables.v, Layouts, Enums, Consts) and by "
            "differential correspondence with real AES-GCM/SHA-256/PBKDF2 executing the model's call plan.",
    "design_ref": "DESIGN.md §6 C16",
    "note": "Partial on cryptographic strength: GCM, SHA-256, PBKDF2 are oracles (function arguments); tamper rejection "
            "is proved as 'accepted => verification accepted the altered tuple'.",
    "technique": "Coq proof (codec round trips, wiring, soundness of acceptance) + differential correspondence with call plans",
    "rule": "envelopes: 4 required + 0..20 extra attributes of all 12 types (boundary ints, NaN/sNaN floats, UTF-8 names), "
            "any order, payload 0..20000 bytes plus one payload of three 4 MiB decrypt chunks (thorough: one, two, three and four chunks), padding "
            "aligned/0/1/random/>4096, AAD none/ESXConfiguration/random, IV 1..64 bytes; tampering: every region of the "
            "header block (struct, attribute type/flag/reserved/name/value, terminator, tail), ciphertext, tag, other "
            "footer fields, AAD, key; exhaustive single-byte sweep of the attribute area + tag of a base envelope; "
            "malformed stream (unknown types, EOF paths, invalid UTF-8, huge lengths, duplicates, wrong gates, "
            "truncation); CLI runs in a scratch directory; keystore texts well-formed and malformed. Non-trivial = clean "
            "round trip with extra attributes or payload, or a rejected alteration, or a keystore that derives a key; "
            "distinct by case content.",
    "trusted_base": ["Model/Envelope.v, Model/EnvKeystore.v are hand-written (correspondence-checked, not proved against Python)",
                     "pycryptodome AES-GCM, hashlib SHA-256/PBKDF2 (executing the model's call plan)",
                     "ciphertext bytes are not shipped to Coq: the model's data range is (BLOCK, size) and is opaque to it"],
    "assumptions": ["oracle hypotheses of the theorems: gcm_dec (gcm_enc p) = p, gcm_ok accepts gcm_tag, |tag| <= 4056",
                    "float32 signalling NaNs are quieted by struct (x86-64 behaviour, modelled as quiet32)"],
}

BLOCK = 4096
HDRSZ = 512
MAGIC = b"DataTransformEnvelope"
AEAD_MAGIC = b"DataTransformAeadFooter"
CF_MAGIC = b"DataTransformCryptoFooter"
CIPHER = b"AES-256-GCM"
SALT = b"This is obfuscation, not encryption. If you want encryption, use TPM."
N_IV, N_KEYINFO, N_CIPHER, N_KEYHASH = b"vmware.iv", b"vmware.keyInfo", b"vmware.cipherName", b"vmware.keyHash"
WIDTH = {1: 1, 2: 2, 3: 4, 4: 8, 5: 1, 6: 2, 7: 4, 8: 8, 9: 4, 10: 8}
SCRATCH = "/work/c16_scratch"


def AESGCM(key, iv):
    from Crypto.Cipher import AES
    return AES.new(key, AES.MODE_GCM, nonce=iv)


# ----------------------------------------------------------------------------- chunks
_RUN = re.compile(rb"(.)\1{7,}", re.S)


def chunks_of(b: bytes):
    out = []
    pos = 0
    for m in _RUN.finditer(b):
        if m.start() > pos:
            out.append(["lit", b[pos:m.start()].hex()])
        out.append(["rep", b[m.start()], m.end() - m.start()])
        pos = m.end()
    if pos < len(b):
        out.append(["lit", b[pos:].hex()])
    return out


def unchunk(spec) -> bytes:
    return b"".join(bytes.fromhex(c[1]) if c[0] == "lit" else bytes([c[1]]) * c[2] for c in spec)


def chunks_term(spec) -> str:
    parts = [f"Lit {zlist(bytes.fromhex(c[1]))}" if c[0] == "lit" else f"Rep {c[1]} {c[2]}" for c in spec]
    return "(unchunk [" + "; ".join(parts) + "])"


def bytes_term(b: bytes) -> str:
    return chunks_term(chunks_of(b)) if len(b) > 24 else zlist(b)


def unrle(pairs) -> bytes:
    return b"".join(bytes([p[1]]) * p[2] for p in pairs)


def file_term(file: bytes) -> str:
    """The file as a Gallina byte list.  The ciphertext (everything between the first and the last block) is
    replaced by zeros: the model only hands that range to the primitives (see decrypt_queries)."""
    if len(file) <= 2 * BLOCK + 32:
        return bytes_term(file)
    spec = chunks_of(file[:BLOCK]) + [["rep", 0, len(file) - 2 * BLOCK]] + chunks_of(file[-BLOCK:])
    return chunks_term(spec)


# ----------------------------------------------------------------------------- the writer
def pack_attr(a) -> bytes:
    if "raw" in a:
        return bytes.fromhex(a["raw"])
    t = a["t"]
    out = bytes([t, a["f"]]) + bytes.fromhex(a.get("rsv", "0000")) + bytes.fromhex(a["n"]) + b"\x00"
    v = a["v"]
    if t in (1, 2, 3, 4, 9, 10):
        out += v.to_bytes(WIDTH[t], "little")
    elif t in (5, 6, 7, 8):
        out += v.to_bytes(WIDTH[t], "little", signed=True)
    elif t == 11:
        out += bytes.fromhex(v) + b"\x00"
    elif t == 12:
        b = bytes.fromhex(v)
        out += struct.pack("<Q", a.get("len", len(b))) + b
    else:
        raise ValueError(t)
    return out


class Built:
    pass


def build(case) -> Built:
    """case -> file bytes, ground truth and the byte regions used to aim alterations."""
    b = Built()
    h = case.get("hdr", {})
    regions = []
    head = bytes.fromhex(h.get("magic", MAGIC.hex())) + bytes.fromhex(h.get("pad", "")).ljust(483, b"\x00") \
        + struct.pack("<II", h.get("size", BLOCK - HDRSZ), h.get("version", 2))
    regions += [("hdr_magic", 0, 21), ("hdr_pad", 21, 504), ("hdr_size", 504, 508), ("hdr_version", 508, 512)]
    body = bytearray()
    for a in case["attrs"]:
        p = pack_attr(a)
        o = HDRSZ + len(body)
        if "raw" not in a:
            nl = len(bytes.fromhex(a["n"])) + 1
            regions += [("attr_type", o, o + 1), ("attr_flag", o + 1, o + 2), ("attr_rsv", o + 2, o + 4),
                        ("attr_name", o + 4, o + 4 + nl), ("attr_value", o + 4 + nl, o + len(p))]
        body += p
    term = bytes.fromhex(h.get("term", "00000000"))
    o = HDRSZ + len(body)
    if term:
        regions += [("term_first", o, o + 1)]
        if len(term) > 1:
            regions += [("term_rest", o + 1, o + len(term))]
    body += term
    fillb = h.get("tailfill", 0)
    hdr = head + bytes(body)
    if len(hdr) < BLOCK:
        regions += [("hdr_tail", len(hdr), BLOCK)]
        hdr += bytes([fillb]) * (BLOCK - len(hdr))
    hdr = hdr[:BLOCK] if h.get("clip", True) else hdr
    b.hdr = hdr
    payload = unchunk(case["payload"])
    pad = unchunk(case["pad"])
    fill = unchunk(case["fill"])
    cf = CF_MAGIC + b"\x00" * 479 + struct.pack("<II", case.get("cf_padding", len(pad)), case.get("cf_version", 2))
    pt = payload + pad + fill + cf
    key = bytes.fromhex(case["key_seal"])
    iv = bytes.fromhex(case["iv"])
    aad = bytes.fromhex(case["aad_seal"])
    if len(key) in (16, 24, 32) and len(iv) > 0:
        c = AESGCM(key, iv)
        c.update(hdr + aad)
        ct, tag = c.encrypt_and_digest(pt)
    else:
        ct, tag = hashlib.shake_128(pt[:64] + key).digest(len(pt)), hashlib.shake_128(key).digest(16)
    f = case.get("ftr", {})
    tag = tag[:f.get("taglen", 16)]
    ftr = AEAD_MAGIC + b"\x00" * 9 + tag + bytes([f.get("fill", 0)]) * (4056 - len(tag)) \
        + struct.pack("<II", f.get("size", len(tag)), f.get("version", 1))
    d0 = len(hdr)
    f0 = d0 + len(ct)
    regions += [("ct", d0, f0), ("ftr_magic", f0, f0 + 23), ("ftr_pad", f0 + 23, f0 + 32),
                ("tag", f0 + 32, f0 + 32 + len(tag)), ("ftr_rest", f0 + 32 + len(tag), f0 + 4088),
                ("ftr_size", f0 + 4088, f0 + 4092), ("ftr_version", f0 + 4092, f0 + 4096)]
    file = bytearray(hdr + ct + ftr)
    if "truncate" in case:
        file = file[:case["truncate"]]
    t = case.get("tamper")
    if t and t["kind"] == "file":
        file[t["off"]] ^= t["xor"]
    for off, hx in case.get("patches", []):
        pb = bytes.fromhex(hx)
        file[off:off + len(pb)] = pb
    b.file = bytes(file)
    b.payload = payload
    b.pt = pt
    b.regions = regions
    b.key = bytes.fromhex(case["key_open"])
    b.aad = bytes.fromhex(case["aad_open"])
    return b


_cache = []


def built(case) -> Built:
    for c, b in _cache:
        if c is case:
            return b
    b = build(case)
    _cache.append((case, b))
    if len(_cache) > 8:
        _cache.pop(0)
    return b


# ----------------------------------------------------------------------------- keystore writer
def b64q(b: bytes, rng=None, quote="=") -> str:
    s = base64.b64encode(b).decode()
    out = []
    for ch in s:
        if ch in quote:
            out.append("%%%02x" % ord(ch) if rng is None or rng.chance(0.5) else "%%%02X" % ord(ch))
        else:
            out.append(ch)
    return "".join(out)


def keystore_text(kid: bytes, d1: bytes, d2: bytes, rng=None, style="esx") -> str:
    q = "=" if style == "esx" else "=+/"
    cfg = f"keyId={b64q(kid, rng, q)}:data1={b64q(d1, rng, q)}:data2={b64q(d2, rng, q)}:version=1"
    if style == "plain":
        cfg = (f"keyId={base64.b64encode(kid).decode()}:data1={base64.b64encode(d1).decode()}"
               f":data2={base64.b64encode(d2).decode()}")
    return f'.encoding = "UTF-8"\nincludeKeyCache = "FALSE"\nmode = "NONE"\nConfigEncData = "{cfg}"\n'


_kdf_cache = {}


def pbkdf2(password: bytes, salt: bytes, hash_name="sha256", iters=100000) -> bytes:
    k = (password, salt, hash_name, iters)
    if k not in _kdf_cache:
        _kdf_cache[k] = hashlib.pbkdf2_hmac(hash_name, password, salt, iters)
    return _kdf_cache[k]


# ----------------------------------------------------------------------------- generators
SNAN32 = [0x7F800001, 0x7FA00000, 0xFF800001, 0x7FBFFFFF, 0xFFBFFFFF]
F32 = [0, 0x80000000, 0x3F800000, 0x7F800000, 0xFF800000, 0x7FC00000, 0x7FC00001, 0xFFC12345, 1, 0x7F7FFFFF, 0x00800000]
F64 = [0, 1 << 63, 0x3FF0000000000000, 0x7FF0000000000000, 0x7FF8000000000000, 0x7FF0000000000001,
       0xFFF4000000000000, 1, 0x7FEFFFFFFFFFFFFF]
NAMES = ["vmware.version", "vmware.created", "vmware.x", "a", "k€y", "ключ", "鍵", "n.0", "vmware.IV", "Vmware.iv",
         "vmware.keyinfo", "x" * 40, "\U0001F511", "vmware.iv2", "p q", "="]
STRS = ["", "a", "AES-128-GCM", "héllo", "日本語", "7e62cec5-6aef-4d7e-838b-cae32eefd251", "x y z", "é" * 20]


def is_snan32(bits):
    return (bits >> 23) & 0xFF == 0xFF and bits & 0x7FFFFF != 0 and not (bits >> 22) & 1


def gen_value(rng, t, snan_ok=True):
    if t in (1, 2, 3, 4):
        w = 8 * WIDTH[t]
        return rng.pick([0, 1, (1 << w) - 1, 1 << (w - 1), rng.randrange(1 << w)])
    if t in (5, 6, 7, 8):
        w = 8 * WIDTH[t]
        return rng.pick([0, -1, 1, -(1 << (w - 1)), (1 << (w - 1)) - 1, rng.randrange(-(1 << (w - 1)), 1 << (w - 1))])
    if t == 9:
        if snan_ok and rng.chance(0.12):
            return rng.pick(SNAN32)
        v = rng.pick(F32 + [rng.randrange(1 << 32)])
        return v | (1 << 22) if is_snan32(v) else v
    if t == 10:
        return rng.pick(F64 + [rng.randrange(1 << 64)])
    if t == 11:
        s = rng.pick(STRS + ["".join(chr(rng.randrange(33, 127)) for _ in range(rng.randrange(1, 30)))])
        return s.encode().hex()
    return rng.pick([b"", b"\x00", rng.randbytes(1), rng.randbytes(16), rng.randbytes(rng.randrange(2, 64)),
                     b"\x00" * 9]).hex()


def gen_attr(rng, used, snan_ok=True, t=None):
    t = t or rng.randint(1, 12)
    for _ in range(50):
        n = rng.pick(NAMES + ["vmware.a%d" % rng.randrange(1000), "",
                              "".join(chr(rng.randrange(33, 127)) for _ in range(rng.randrange(1, 14)))])
        if n.encode() not in used:
            break
    used.add(n.encode())
    return {"t": t, "f": rng.pick([0, 0, 0, 1, 2, 0x80, 0xFF, rng.randrange(256)]), "n": n.encode().hex(),
            "v": gen_value(rng, t, snan_ok)}


def attrs_len(attrs):
    return sum(len(pack_attr(a)) for a in attrs)


def gen_payload(rng, n):
    """a compressible but position-sensitive payload of n bytes"""
    if n <= 24:
        return [["lit", rng.randbytes(n).hex()]] if n else []
    spec = [["lit", rng.randbytes(8).hex()]]
    rem = n - 16
    if n >= 96 and rng.chance(0.3):
        # the payload is opaque: here it holds the format's own magic strings (an archive of envelopes, this library's
        # source, ...), followed by bytes that would read as a footer's padding field
        word = rng.pick([b"DataTransformCryptoFooter", b"DataTransformAeadFooter", b"DataTransformEnvelope\x00"])
        lit = word + rng.pick([b"", b"\x00" * 3, rng.randbytes(4), (1 << rng.randrange(1, 12)).to_bytes(4, "little")])
        if rng.chance(0.5):
            k = rng.randint(1, rem - len(lit) - 1)
            spec.append(["rep", rng.randrange(256), k])
            rem -= k
        spec.append(["lit", lit.hex()])
        rem -= len(lit)
    while rem > 0:
        k = min(rem, rng.randint(8, max(8, min(rem, n // 3 + 8))))
        if k < 8:
            spec.append(["lit", rng.randbytes(k).hex()])
        else:
            spec.append(["rep", rng.randrange(256), k])
        rem -= k
    spec.append(["lit", rng.randbytes(8).hex()])
    return spec


def gen_base(rng, tier, mode="api", snan_ok=True, small=False):
    key = rng.randbytes(32)
    iv = rng.randbytes(rng.weighted([(12, 8), (1, 1), (8, 1), (16, 1), (13, 1), (64, 1)]))
    used = {N_IV, N_KEYINFO, N_CIPHER, N_KEYHASH}
    nx = rng.weighted([(0, 2), (1, 2), (3, 3), (6, 2), (12, 2), (20, 1)])
    if nx == 12 and rng.chance(0.5):
        extras = [gen_attr(rng, used, snan_ok, t=t) for t in range(1, 13)]      # one of every type
    else:
        extras = [gen_attr(rng, used, snan_ok) for _ in range(nx)]
    req = [{"t": 12, "f": 0, "n": N_IV.hex(), "v": iv.hex()},
           {"t": 11, "f": 0, "n": N_KEYINFO.hex(), "v": b"7e62cec5-6aef-4d7e-838b-cae32eefd251".hex()},
           {"t": 11, "f": 0, "n": N_CIPHER.hex(), "v": CIPHER.hex()},
           {"t": 12, "f": 0, "n": N_KEYHASH.hex(), "v": hashlib.sha256(CIPHER + key).hexdigest()}]
    attrs = req + extras
    while HDRSZ + attrs_len(attrs) + 4 > BLOCK:
        attrs.pop()
    order = rng.weighted([("canonical", 2), ("shuffled", 5), ("required_last", 1)])
    if order == "shuffled":
        rng.shuffle(attrs)
    elif order == "required_last":
        attrs = attrs[4:] + attrs[:4]
    if small:
        n = rng.pick([0, 1, 16, 100, 700])
    else:
        n = rng.weighted([(0, 1), (1, 1), (15, 1), (16, 1), (17, 1), (511, 1), (512, 1), (4095, 1), (4096, 1), (4097, 1),
                          (rng.randrange(0, 3000), 6), (rng.randrange(3000, 20000), 2 if tier == 'thorough' else 1)])
    padk = rng.weighted([("aligned", 5), ("zero", 2), ("one", 1), ("random", 3), ("block", 1), ("big", 1), ("wide", 1)])
    # wide: a padding count that needs more than 16 bits of the footer's 32-bit field
    padn = {"aligned": (-n) % BLOCK, "zero": 0, "one": 1, "random": rng.randrange(0, 5000), "block": BLOCK,
            "big": 8191, "wide": rng.pick([65536, 65537, 68632, 131072 + 5, 166936])}[padk]
    if small and padn > 600:
        padn = padn % 600
    pad = [["rep", rng.randrange(256), padn]] if padn >= 8 else ([["lit", rng.randbytes(padn).hex()]] if padn else [])
    if padn >= 16 and rng.chance(0.3):
        pad = [["lit", rng.randbytes(6).hex()], ["rep", rng.randrange(256), padn - 6]]
    fill = [["rep", rng.randrange(256), 3584]]
    if rng.chance(0.2):
        k = rng.randrange(1, 3584)
        fill = [["rep", rng.randrange(256), k], ["rep", rng.randrange(256), 3584 - k]]
    aad = rng.weighted([(b"", 3), (b"ESXConfiguration", 3), (rng.randbytes(rng.randrange(1, 40)), 2),
                        (rng.randbytes(300), 1)])
    if mode == "cli":
        aad = rng.weighted([(b"", 3), (b"ESXConfiguration", 4), ("clé-€".encode(), 1), (b"a b", 1)])
    return {"mode": mode, "attrs": attrs, "order": order, "key_seal": key.hex(), "key_open": key.hex(), "iv": iv.hex(),
            "aad_seal": aad.hex(), "aad_open": aad.hex(), "aad_none": rng.chance(0.5), "payload": gen_payload(rng, n),
            "pad": pad, "padk": padk, "fill": fill, "verify": True, "tamper": None, "kind": "clean"}


HDR_CLASSES = ["hdr_magic", "hdr_pad", "hdr_size", "hdr_version", "attr_type", "attr_flag", "attr_rsv", "attr_name",
               "attr_value", "term_first", "term_rest", "hdr_tail"]
MUST_FAIL = set(HDR_CLASSES) | {"ct", "tag", "ftr_size", "aad", "key"}   # ftr_size: the tag used is data[:size]


def gen_tamper(rng, case):
    """aim one single-byte alteration (or an AAD / key alteration) at a chosen region class"""
    b = build(case)
    cls = rng.weighted([(c, 2) for c in HDR_CLASSES] + [("ct", 8), ("tag", 5), ("ftr_magic", 1), ("ftr_pad", 1),
                                                         ("ftr_rest", 1), ("ftr_size", 1), ("ftr_version", 1),
                                                         ("aad", 5), ("key", 4)])
    c = copy.deepcopy(case)
    xor = rng.weighted([(1 << rng.randrange(8), 2), (rng.randrange(1, 256), 2), (0xFF, 1)])
    if cls == "aad":
        a = bytearray(b.aad)
        op = rng.pick(["flip", "drop", "append", "truncate", "prepend"]) if a else rng.pick(["append", "append0"])
        if op == "flip":
            a[rng.randrange(len(a))] ^= xor
        elif op == "drop":
            a = bytearray()
        elif op == "truncate":
            a = a[:-1]
        elif op == "prepend":
            a = bytearray(b"\x00") + a
        elif op == "append0":
            a = a + b"\x00"
        else:
            a = a + rng.randbytes(1)
        c["aad_open"] = bytes(a).hex()
        c["tamper"] = {"kind": "aad", "cls": "aad", "op": op}
    elif cls == "key":
        k = bytearray(b.key)
        k[rng.randrange(len(k))] ^= xor
        c["key_open"] = bytes(k).hex()
        c["tamper"] = {"kind": "key", "cls": "key"}
    else:
        rs = [r for r in b.regions if r[0] == cls and r[2] > r[1]]
        if not rs:
            rs = [r for r in b.regions if r[0] == "ct"]
            cls = "ct"
        _, s, e = rng.pick(rs)
        if cls == "ct":
            off = rng.weighted([(s, 1), (e - 1, 1), (e - 5, 1), (e - 8, 1), (e - 512, 1), (rng.randrange(s, e), 6),
                                (min(e - 1, s + len(b.payload)), 1)])
        else:
            off = rng.randrange(s, e)
        c["tamper"] = {"kind": "file", "cls": cls, "off": off, "xor": xor}
    c["kind"] = "tamper"
    return c


def sweep(rng, base):
    """every byte of the attribute area + terminator + every tag byte + the footer size field of one base envelope"""
    b = build(base)
    out = []
    for cls, s, e in b.regions:
        if cls.startswith("attr_") or cls.startswith("term") or cls in ("tag", "hdr_size", "hdr_version", "ftr_size"):
            for off in range(s, e):
                xors = [rng.weighted([(1, 1), (0x80, 1), (0xFF, 1), (rng.randrange(1, 256), 2)])]
                if cls in ("ftr_size", "hdr_size", "hdr_version", "attr_type", "tag") and b.file[off]:
                    xors.append(b.file[off])        # directed: the byte becomes 0 (e.g. tag size 16 -> 0)
                if cls == "ftr_size" and b.file[off] == 16:
                    # directed: a shorter tag length (a prefix of the real tag must not authenticate)
                    xors += [16 ^ v for v in (4, 8, 12, 15, 1)]
                for x in dict.fromkeys(xors):
                    c = copy.deepcopy(base)
                    c["tamper"] = {"kind": "file", "cls": cls, "off": off, "xor": x}
                    c["kind"] = "sweep"
                    out.append(c)
    return out


def gen_malformed(rng, tier):
    """envelopes outside the writer's grammar: implementation and model must agree (no specification claim)"""
    c = gen_base(rng, tier, snan_ok=False, small=True)
    c["kind"] = "malformed"
    key = bytes.fromhex(c["key_seal"])
    used = {bytes.fromhex(a["n"]) for a in c["attrs"]}
    what = rng.pick(["unknown_type", "eof_fill", "eof_last", "bad_utf8_name", "bad_utf8_str", "huge_bytes", "dup_name",
                     "missing_req", "cipher_bytes", "cipher_other", "hash_string", "iv_missing", "iv_empty", "iv_string",
                     "iv_int", "ftr_version", "ftr_size", "hdr_version", "hdr_magic", "keylen", "truncate", "corrupt",
                     "type0_mid", "short_term", "verify_off", "cf_padding", "full_block"])
    c["mal"] = what
    A = c["attrs"]

    def find(n):
        return next(i for i, a in enumerate(A) if bytes.fromhex(a["n"]) == n)
    if what == "unknown_type":
        a = gen_attr(rng, used, False)
        raw = bytearray(pack_attr(a))
        raw[0] = rng.pick([13, 14, 0x7F, 0x80, 0xFF, 200])
        if rng.chance(0.3):
            raw = raw[:4 + len(bytes.fromhex(a["n"]))]      # no NUL after the name: EOF before the type check
            c["hdr"] = {"term": "", "tailfill": 65}
            A.append({"raw": bytes(raw).hex()})
        else:
            A.insert(rng.randrange(len(A) + 1), {"raw": bytes(raw).hex()})
    elif what == "eof_fill":
        c["hdr"] = {"term": "", "tailfill": rng.pick([1, 5, 9, 11, 12, 65, 255])}
    elif what == "eof_last":
        # the last attribute runs into the end of the block at a chosen point
        a = gen_attr(rng, used, False)
        p = pack_attr(a)
        room = BLOCK - HDRSZ - attrs_len(A)
        cut = rng.randrange(1, len(p) + 1)
        filler = room - cut
        if filler > 24:
            A.append({"t": 12, "f": 0, "n": b"filler".hex(), "v": (b"\x07" * (filler - 4 - 7 - 8)).hex()})
            A.append({"raw": p[:cut].hex()})
            c["hdr"] = {"term": ""}
    elif what == "bad_utf8_name":
        a = gen_attr(rng, used, False)
        a["n"] = rng.pick(["c328", "e28228", "f0288cbc", "c080", "eda080", "f4908080", "ff", "80", "e080af", "c3"])
        A.insert(rng.randrange(len(A) + 1), a)
    elif what == "bad_utf8_str":
        A.insert(rng.randrange(len(A) + 1), {"t": 11, "f": 0, "n": b"s".hex(),
                                             "v": rng.pick(["c328", "eda080", "f4908080", "fe", "c1bf", "e0a0", "f09f94"])})
    elif what == "huge_bytes":
        A.insert(rng.randrange(len(A) + 1), {"t": 12, "f": 0, "n": b"big".hex(), "v": rng.randbytes(5).hex(),
                                             "len": rng.pick([1 << 63, (1 << 64) - 1, (1 << 63) - 1, 1 << 40, 6, 4, 0,
                                                              4000])})
    elif what == "dup_name":
        i = rng.randrange(len(A))
        a = copy.deepcopy(A[i])
        if rng.chance(0.5) and "t" in a and a["t"] <= 8:
            a["v"] = gen_value(rng, a["t"])
        A.insert(rng.randrange(len(A) + 1), a)
    elif what == "missing_req":
        A.pop(find(rng.pick([N_KEYINFO, N_CIPHER, N_KEYHASH])))
    elif what == "cipher_bytes":
        A[find(N_CIPHER)]["t"] = 12
    elif what == "cipher_other":
        A[find(N_CIPHER)]["v"] = rng.pick([b"AES-128-GCM", b"AES-256-GCM ", b"aes-256-gcm", b"", b"AES-256-CBC"]).hex()
    elif what == "hash_string":
        A[find(N_KEYHASH)] = {"t": 11, "f": 0, "n": N_KEYHASH.hex(), "v": b"abc".hex()}
    elif what == "iv_missing":
        A.pop(find(N_IV))
    elif what == "iv_empty":
        A[find(N_IV)]["v"] = ""
    elif what == "iv_string":
        A[find(N_IV)] = {"t": 11, "f": 0, "n": N_IV.hex(), "v": rng.pick([b"abcdefghijkl", b""]).hex()}
    elif what == "iv_int":
        t = rng.pick([1, 4, 5, 9, 10])
        A[find(N_IV)] = {"t": t, "f": 0, "n": N_IV.hex(), "v": rng.pick([0, 7]) if t < 9 else rng.pick([0, 0x3F800000])}
    elif what == "ftr_version":
        c["ftr"] = {"version": rng.pick([0, 2, 0x101, 1 << 31])}
    elif what == "ftr_size":
        c["ftr"] = {"size": rng.pick([0, 1, 15, 17, 32, 4056, 4057, 5000, (1 << 32) - 1]), "fill": rng.pick([0, 0, 7])}
    elif what == "hdr_version":
        c["hdr"] = {"version": rng.pick([0, 1, 3, 0x102])}
    elif what == "hdr_magic":
        c["hdr"] = {"magic": rng.pick([b"DataTransformEnvelopf", b"dataTransformEnvelope", b"\x00" * 21]).hex()}
    elif what == "keylen":
        k = rng.randbytes(rng.pick([0, 1, 15, 16, 24, 31, 33, 64]))
        c["key_seal"] = c["key_open"] = k.hex()
        A[find(N_KEYHASH)]["v"] = hashlib.sha256(CIPHER + k).hexdigest()
    elif what == "truncate":
        total = BLOCK + len(unchunk(c["payload"])) + len(unchunk(c["pad"])) + 4096 + BLOCK
        c["truncate"] = rng.pick([0, 1, 511, 512, 600, 4095, 4096, 4097, 8191, 8192, 8193, 8192 + 511, 8192 + 512,
                                  total - 1, total - BLOCK, rng.randrange(0, total)])
    elif what == "corrupt":
        o = rng.randrange(HDRSZ, HDRSZ + attrs_len(A) + 4)
        c["patches"] = [[o, rng.randbytes(rng.randrange(2, 12)).hex()]]
    elif what == "type0_mid":
        A.insert(rng.randrange(len(A) + 1), {"raw": "00"})
    elif what == "short_term":
        c["hdr"] = {"term": rng.pick(["00", "0000", "000000"]), "tailfill": rng.pick([0, 3])}
    elif what == "verify_off":
        c["verify"] = False
        if rng.chance(0.7):
            c = gen_tamper(rng, c)
            c["kind"] = "malformed"
            c["mal"] = what
    elif what == "cf_padding":
        c["cf_padding"] = rng.pick([0, 1, 4096, 100000, (1 << 32) - 1, len(unchunk(c["pad"])) + 1])
    elif what == "full_block":
        room = BLOCK - HDRSZ - attrs_len(A) - rng.pick([0, 1, 2, 3, 4])
        if room > 32:
            A.append({"t": 12, "f": 0, "n": b"filler".hex(), "v": (b"\x07" * (room - 4 - 7 - 8)).hex()})
        c["hdr"] = {"term": "00000000", "clip": True}
    return c


# ----------------------------------------------------------------------------- executing the model's call plan
def cmp_view(v, expected: bytes) -> bytes:
    return expected if v == "Same" else unrle(v[1])


def parse_report(v, file: bytes, aad: bytes):
    """parsed Coq value of env_report -> dict ({"open": "err"} when env_open = Err)"""
    r = core.res_of(v)
    if r[0] != "ok":
        return {"open": r[0]}
    _, version, q1, q2, a, packed = r[1]
    _, sha_in, qhash, qiv, keyok = q1
    _, qaad, ct_len, tag = q2
    _, attrs, size = a
    pk = core.res_of(packed)
    return {"open": "ok", "version": version, "sha_in": bytes(sha_in), "hash": aval(qhash),
            "iv": None if qiv == "None" else bytes(qiv[1]), "keyok": keyok == "true",
            "aad": cmp_view(qaad, file[:BLOCK] + aad), "ct_len": ct_len, "tag": bytes(tag),
            "attrs": [attr_of_coq(x) for x in attrs], "size": size,
            "packed": cmp_view(pk[1], file[:BLOCK]) if pk[0] == "ok" else None}


def aval(val):
    return (val[0], bytes(val[1]) if val[0] in ("VStr", "VBytes") else val[1])


def attr_of_coq(x):
    _, name, t, flag, val = x
    return (bytes(name), t, flag) + aval(val)


def execute_plan(rep, file: bytes, key: bytes):
    """run the real primitives on what the model asks -> hint dict"""
    h = {"sha": hashlib.sha256(rep["sha_in"]).hexdigest(), "pt": None, "ok": False}
    if rep["iv"] is not None and rep["keyok"] and rep["ct_len"] >= 0:
        ct = file[BLOCK:BLOCK + rep["ct_len"]]
        c = AESGCM(key, rep["iv"])
        c.update(rep["aad"])
        pt = c.decrypt(ct)
        try:
            c.verify(rep["tag"])
            ok = True
        except ValueError:
            ok = False
        h["pt"] = chunks_of(pt)
        h["ok"] = ok
    return h


def oracle_terms(hint):
    sha = zlist(bytes.fromhex(hint["sha"])) if hint else "[]"
    pt = chunks_term(hint["pt"]) if hint and hint.get("pt") is not None else "[]"
    ok = core.cbool(bool(hint and hint.get("ok")))
    return f"(fun _ => {sha})", f"(fun _ _ _ => {pt})", f"(fun _ _ _ _ _ => {ok})"


PREAMBLE = ("From Coq Require Import ZArith List.\nImport ListNotations.\nOpen Scope Z_scope.\n"
            "From DH Require Import Base.Plan Model.Envelope Model.EnvKeystore.\n")


def exc_info(e):
    return {"exc": type(e).__name__, "msg": str(e)[:160]}


def impl_attr_view(name, a):
    t = int(a.type)
    v = a.value
    if t in range(1, 9):
        return (name.encode(), t, int(a.flag), "VInt", int(v))
    if t == 9:
        return (name.encode(), t, int(a.flag), "VF32", int.from_bytes(struct.pack("<f", v), "little"))
    if t == 10:
        return (name.encode(), t, int(a.flag), "VF64", int.from_bytes(struct.pack("<d", v), "little"))
    if t == 11:
        return (name.encode(), t, int(a.flag), "VStr", v.encode())
    return (name.encode(), t, int(a.flag), "VBytes", bytes(v))


# ----------------------------------------------------------------------------- envelope suite
class EnvelopeSuite(Suite):
    name = "envelope"
    shard = 25
    preamble = PREAMBLE
    per_case_timeout = 60.0

    # -- generation (+ first Coq pass: the model's call plan, executed with the real primitives)
    def generate(self, rng, tier):
        thorough = tier == "thorough"
        cases = []
        n_clean, n_tamper, n_mal, n_sweep, n_cli = (400, 1200, 500, 5, 100) if thorough else (40, 80, 60, 1, 18)
        for want in ("wide", "wide", "big"):           # untampered envelopes with paddings of every field width, always
            for _ in range(400):
                c = gen_base(rng, tier)
                if c["padk"] == want:
                    break
            cases.append(c)
        for _ in range(n_clean):
            cases.append(gen_base(rng, tier))
            if rng.chance(0.4):
                # the decrypt loop under a small read size: many chunks for an ordinary payload (the module constant
                # DECRYPT_CHUNK_SIZE is lowered for this one call; without that constant the case is an ordinary one)
                cases[-1]["chunk"] = rng.pick([16, 512, 1000, 4096])
        for _ in range(n_tamper):
            cases.append(gen_tamper(rng, gen_base(rng, tier, snan_ok=False, small=rng.chance(0.7))))
        for _ in range(n_mal):
            cases.append(gen_malformed(rng, tier))
        for _ in range(n_sweep):
            base = gen_base(rng, tier, snan_ok=False, small=True)
            req = {N_IV.hex(), N_KEYINFO.hex(), N_CIPHER.hex(), N_KEYHASH.hex()}
            extra = [id(a) for a in base["attrs"] if a["n"] not in req][:4]
            base["attrs"] = [a for a in base["attrs"] if a["n"] in req or id(a) in extra]
            cases += sweep(rng, base)
        for _ in range(n_cli):
            cases.append(self.gen_cli(rng, tier))
        # payloads around one, two and three 4 MiB decrypt chunks (the read loop keeps its place over >= 3 chunks),
        # one tampered; the quick tier carries the three-chunk case only
        big = (300000, 4194304 - 4096 - 7, 2 * 4194304 + 17, 3 * 4194304 + 4321) if thorough else ()
        for i, n in enumerate(big):
            c = gen_base(rng, tier)
            c["payload"] = gen_payload(rng, n)
            cases.insert(min(len(cases), i * 30), c)              # spread over different shards
            if i == 0 and thorough:
                cases.insert(45, gen_tamper(rng, c))
        self.add_hints(cases)
        return cases

    def gen_cli(self, rng, tier):
        c = gen_base(rng, tier, mode="cli", snan_ok=rng.chance(0.3))
        kid, d1, d2 = rng.randbytes(16), rng.randbytes(rng.pick([16, 16, 1, 0, 33])), rng.randbytes(rng.pick([16, 16, 2, 31]))
        key = pbkdf2(d1 + SALT, d2)
        c["key_seal"] = c["key_open"] = key.hex()
        for a in c["attrs"]:
            if a.get("n") == N_KEYHASH.hex():
                a["v"] = hashlib.sha256(CIPHER + key).hexdigest()
        c["ks_text"] = keystore_text(kid, d1, d2, rng, rng.pick(["esx", "esx", "all", "plain"]))
        c["pre_out"] = rng.chance(0.5)          # the -o file already exists with other content
        k = rng.weighted([("clean", 5), ("tamper", 3), ("bad_keystore", 1), ("bad_envelope", 1), ("other_keystore", 1)])
        c["cli_kind"] = k
        if k == "tamper":
            def usable(x):
                try:
                    return x["tamper"]["kind"] != "key" and not bytes.fromhex(x["aad_open"]).decode().startswith("-")
                except UnicodeDecodeError:
                    return False
            c2 = gen_tamper(rng, c)
            while not usable(c2):
                c2 = gen_tamper(rng, c)
            c = c2
        elif k == "bad_keystore":
            c["ks_text"] = c["ks_text"].replace('mode = "NONE"', rng.pick(['mode = "TPM"', 'mode = ""', '#mode = "NONE"']))
            c["kind"] = "malformed"
        elif k == "bad_envelope":
            c["hdr"] = {"version": 3}
            c["kind"] = "malformed"
        elif k == "other_keystore":
            c["ks_text"] = keystore_text(kid, d1 + b"x", d2, rng)
            c["key_open"] = pbkdf2(d1 + b"x" + SALT, d2).hex()
            c["tamper"] = {"kind": "key", "cls": "key"}
            c["kind"] = "tamper"
        return c

    def plan_term(self, case):
        b = built(case)
        return f"env_report {file_term(b.file)} {bytes_term(b.key)} {bytes_term(b.aad)}"

    def add_hints(self, cases):
        todo = [c for c in cases if "hint" not in c]
        vals = core.eval_coq("C16_envelope_plan", self.preamble, [self.plan_term(c) for c in todo], shard=self.shard,
                             jobs=12)
        for c, v in zip(todo, vals):
            try:
                rep = parse_report(v, built(c).file, built(c).aad)
            except Exception:  # noqa: BLE001  (coq-error etc.: the second pass reports it)
                c["hint"] = None
                continue
            c["hint"] = execute_plan(rep, built(c).file, built(c).key) if rep["open"] == "ok" else None

    # -- implementation
    def impl(self, case):
        b = build(case)
        if case["mode"] == "cli":
            return self.impl_cli(case, b)
        from dissect.hypervisor.util import envelope as E
        out = {}
        try:
            env = E.Envelope(io.BytesIO(b.file), verify=case.get("verify", True))
        except Exception as e:  # noqa: BLE001
            return {"open": exc_info(e)}
        out["open"] = None
        out["attrs"] = [impl_attr_view(n, a) for n, a in env.attributes.items()]
        out["size"] = int(env.size)
        out["digest"] = bytes(env.digest)
        try:
            out["repack"] = E._pack_envelope_header(env)
        except Exception as e:  # noqa: BLE001
            out["repack"] = exc_info(e)
        aad = b.aad if (b.aad or not case.get("aad_none")) else None
        old_chunk = getattr(E, "DECRYPT_CHUNK_SIZE", None)
        if case.get("chunk") and isinstance(old_chunk, int):
            E.DECRYPT_CHUNK_SIZE = case["chunk"]
        try:
            out["dec"] = ("ok", env.decrypt(b.key, aad))
        except Exception as e:  # noqa: BLE001
            out["dec"] = ("err", exc_info(e))
        finally:
            if isinstance(old_chunk, int):
                E.DECRYPT_CHUNK_SIZE = old_chunk
        # history on one object: an attempt with other associated data (which must be rejected or, when the envelope
        # carries no AAD, is the same call), then the original call again: same verdict, same plaintext
        try:
            try:
                env.decrypt(b.key, (aad or b"") + b"-other")
            except Exception:  # noqa: BLE001
                pass
            again = ("ok", env.decrypt(b.key, aad))
        except Exception as e:  # noqa: BLE001
            again = ("err", exc_info(e))
        if again[0] != out["dec"][0] or (again[0] == "ok" and again[1] != out["dec"][1]):
            out["again"] = [out["dec"][0], again[0]]
        return out

    _hook = {"installed": False, "events": None}

    def impl_cli(self, case, b):
        """tools/envelope.py main() in a fresh scratch directory; every open() is audited"""
        from dissect.hypervisor.tools import envelope as T
        st = EnvelopeSuite._hook
        if not st["installed"]:
            def hook(ev, args):
                if st["events"] is not None and ev == "open":
                    st["events"].append((str(args[0]), str(args[1]), args[2]))
                elif st["events"] is not None and ev in ("os.remove", "os.rename", "os.mkdir", "os.rmdir", "os.truncate",
                                                          "os.chmod", "os.link", "os.symlink", "shutil.rmtree"):
                    st["events"].append((ev, str(args[0]) if args else "", None))
            sys.addaudithook(hook)
            st["installed"] = True
        d = os.path.join(SCRATCH, f"{os.getpid()}_{abs(hash(case['ks_text'])) % 10**8}")
        shutil.rmtree(d, ignore_errors=True)
        os.makedirs(d)
        envp, ksp, outp = (os.path.join(d, n) for n in ("local.tgz.ve", "encryption.info", "out.bin"))
        with open(envp, "wb") as fh:
            fh.write(b.file)
        with open(ksp, "w", encoding="utf-8", newline="") as fh:
            fh.write(case["ks_text"])
        stale = b"stale output that must not survive\n" * 400
        if case.get("pre_out"):
            with open(outp, "wb") as fh:
                fh.write(stale)
        argv = ["envelope-decrypt", envp, "-ks", ksp, "-o", outp]
        if b.aad:
            argv += ["--aad", b.aad.decode("utf-8")]
        old = sys.argv, sys.stderr
        sys.argv = argv
        sys.stderr = io.StringIO()
        st["events"] = []
        res = {}
        try:
            rc = T.main()
            res["run"] = ("ok", rc)
        except SystemExit as e:
            res["run"] = ("err", {"exc": "SystemExit", "msg": f"{e.code!r} {sys.stderr.getvalue()[-200:]}"})
        except Exception as e:  # noqa: BLE001
            res["run"] = ("err", exc_info(e))
        finally:
            events, st["events"] = st["events"], None
            sys.argv, sys.stderr = old
        res["listing"] = sorted(os.listdir(d))
        res["out"] = open(outp, "rb").read() if os.path.exists(outp) else None
        if case.get("pre_out") and res["out"] == stale:
            res["out"] = None                   # untouched: as if absent
        res["inputs_intact"] = open(envp, "rb").read() == b.file and \
            open(ksp, encoding="utf-8", newline="").read() == case["ks_text"]
        writes = [e for e in events if e[2] is None or (isinstance(e[1], str) and any(ch in e[1] for ch in "wax+"))]
        res["foreign_writes"] = [e for e in writes if e[0] != outp]
        shutil.rmtree(d, ignore_errors=True)
        return res

    # -- second Coq pass
    def coq_term(self, case):
        b = built(case)
        if "hint" not in case:          # corpus / replay cases are stored without oracle answers
            self.add_hints([case])
        sha, dec, ok = oracle_terms(case.get("hint"))
        f, k, a = file_term(b.file), bytes_term(b.key), bytes_term(b.aad)
        head = f"let file := {f} in let key := {k} in let aad := {a} in "
        if case["mode"] == "cli":
            ks = zlist([ord(ch) for ch in case["ks_text"]])
            return (head + f"let ks := {ks} in (env_report file key aad, keystore_plan_view ks, "
                    f"let r := cli {sha} {dec} {ok} file (keystore_key (fun _ _ _ _ => key) ks) aad in "
                    f"(match fst r with Ok _ => 0 | Err => 1 | Fuel => 2 end, out_view (snd r)))")
        return (head + f"(env_report file key aad, "
                f"res_map rle (open_decrypt {sha} {dec} {ok} {core.cbool(case.get('verify', True))} file key aad))")

    # -- judge
    def spec(self, case, b):
        """the property's verdict for this case: ('ok', payload) | ('err',) | None (no claim)"""
        if case["kind"] == "malformed":
            return None
        t = case.get("tamper")
        if not t:
            return ("ok", b.payload)
        if t["cls"] in MUST_FAIL:
            return ("err",)
        return None

    def judge(self, case, impl_res, coq_val):
        fs = []
        b = built(case)
        mode = case["mode"]
        cls = (case.get("tamper") or {}).get("cls") or case.get("mal") or "clean"
        sig = f"envelope:{mode}:{case['kind']}:{cls}"
        if impl_res.get("outcome"):
            kind = "impl_fault" if impl_res["outcome"] in ("hang", "crash", "oom") else "impl_vs_model"
            return [Finding(kind, f"implementation {impl_res['outcome']}: {impl_res.get('exc', '')} "
                                  f"{impl_res.get('msg', impl_res.get('detail', ''))}", sig + ":" + impl_res["outcome"])]
        if mode == "cli":
            _, repv, ksv, cliv = coq_val
        else:
            _, repv, decv = coq_val
        rep = parse_report(repv, b.file, b.aad)
        # 1. the oracle answers the model ran with must be the real primitives' answers to the model's own queries
        if rep["open"] == "ok":
            real = execute_plan(rep, b.file, b.key)
            hint = case.get("hint") or {"sha": None, "pt": None, "ok": False}
            if real["sha"] != hint["sha"] or real["ok"] != hint["ok"] or \
                    (real["pt"] is not None and (hint["pt"] is None or unchunk(real["pt"]) != unchunk(hint["pt"]))):
                return [Finding("coq_error", "stale oracle hint: the model's call plan differs from the one the stored "
                                             "answers were computed for (regenerate the case)", sig + ":hint")]
        spec = self.spec(case, b)
        if impl_res.get("again"):
            fs.append(Finding("impl_vs_spec", f"decrypt() on the same Envelope object is {impl_res['again'][0]} the first time "
                              f"and {impl_res['again'][1]} (or another plaintext) after an intervening call", sig + ":again"))
        # 2. model outcome
        if mode == "cli":
            rcode, outv = cliv[1], core.res_of(cliv[2])
            model = ("ok", unrle(outv[1])) if rcode == 0 else (("err",) if rcode == 1 else ("fuel",))
            model_out = None if outv[0] != "ok" else unrle(outv[1])
            ksr = core.res_of(ksv)
            if ksr[0] == "ok":
                # keystore_plan prints a record-free tuple? (mk_kdf id pw salt) -> constructor application
                _, kid, pw, salt = ksr[1]
                if pbkdf2(bytes(pw), bytes(salt)) != b.key and case.get("cli_kind") != "other_keystore":
                    fs.append(Finding("model_vs_spec", "keystore model derives a different key than the writer's",
                                      sig + ":kdf"))
                elif case.get("cli_kind") == "other_keystore" and pbkdf2(bytes(pw), bytes(salt)) != b.key:
                    fs.append(Finding("coq_error", "key hint is not the PBKDF2 of the model's plan", sig + ":kdfhint"))
        else:
            r = core.res_of(decv)
            model = ("ok", unrle(r[1])) if r[0] == "ok" else (r[0],)
        if model[0] == "fuel":
            fs.append(Finding("model_vs_spec", "model ran out of fuel", sig + ":fuel"))
        # 3. implementation outcome
        if mode == "cli":
            run = impl_res["run"]
            impl = ("ok", impl_res["out"]) if run[0] == "ok" else ("err", run[1])
            if run[0] == "ok" and impl_res["out"] is None:
                impl = ("err", {"exc": "NoOutput", "msg": "main returned but wrote no output file"})
            extra = [x for x in impl_res["listing"] if x not in ("local.tgz.ve", "encryption.info", "out.bin")]
            if extra or impl_res["foreign_writes"] or not impl_res["inputs_intact"]:
                fs.append(Finding("impl_vs_spec", f"CLI wrote something else: files {extra}, opens "
                                                  f"{impl_res['foreign_writes'][:3]}, inputs intact "
                                                  f"{impl_res['inputs_intact']}", sig + ":stray-write"))
            if run[0] != "ok" and impl_res["out"]:
                fs.append(Finding("impl_vs_spec", f"CLI failed but left {len(impl_res['out'])} bytes of output",
                                  sig + ":plaintext-on-error"))
            if run[0] != "ok" and model[0] == "err" and (impl_res["out"] is None) != (model_out is None):
                fs.append(Finding("impl_vs_model", f"output file after a failed run: implementation "
                                                   f"{'absent' if impl_res['out'] is None else 'created'}, model "
                                                   f"{'absent' if model_out is None else 'created'}", sig + ":outfile"))
        else:
            if impl_res["open"] is not None:
                impl = ("err", impl_res["open"])
            else:
                impl = impl_res["dec"]
                # parsed state and the packer
                if rep["open"] == "ok":
                    if impl_res["attrs"] != rep["attrs"]:
                        fs.append(Finding("impl_vs_model", f"attributes differ: impl {impl_res['attrs']!r:.300} model "
                                                           f"{rep['attrs']!r:.300}", sig + ":attrs"))
                    if impl_res["size"] != rep["size"] or impl_res["digest"] != rep["tag"]:
                        fs.append(Finding("impl_vs_model", "size/digest differ", sig + ":footer"))
                    rp = impl_res["repack"]
                    if (rp if isinstance(rp, bytes) else None) != rep["packed"]:
                        fs.append(Finding("impl_vs_model", "_pack_envelope_header differs from the model's pack_header",
                                          sig + ":repack"))
                else:
                    fs.append(Finding("impl_vs_model", "implementation opened an envelope the model refuses",
                                      sig + ":open"))
        # 4. three-way comparison
        def same(x, y):
            return x[0] == y[0] and (x[0] != "ok" or x[1] == y[1])

        def show(x):
            if x[0] == "ok":
                return f"ok({len(x[1])} bytes, sha {core.sha(x[1])})"
            return "error" + (f" {x[1].get('exc')}: {x[1].get('msg', '')[:80]}" if len(x) > 1 else "")
        if spec is not None and not same(impl, spec):
            what = "accepted" if impl[0] == "ok" else "refused"
            fs.append(Finding("impl_vs_spec", f"{mode} {case['kind']}/{cls}: implementation {show(impl)}, the property "
                                              f"requires {show(spec)}", f"{sig}:{what}"))
        if model[0] != "fuel" and not same(impl, model):
            fs.append(Finding("impl_vs_model", f"{mode} {case['kind']}/{cls}: implementation {show(impl)}, model "
                                               f"{show(model)}", sig + ":decrypt"))
        if spec is not None and model[0] != "fuel" and not same(model, spec):
            fs.append(Finding("model_vs_spec", f"{mode} {case['kind']}/{cls}: model {show(model)}, property {show(spec)}",
                              sig + ":model"))
        return fs

    def nontrivial(self, case, impl_res, coq_val):
        if case["kind"] == "clean":
            if len(case["attrs"]) > 4 or case["payload"]:
                return core.sha(core.jdump(self.describe(case)).encode())
        elif case["kind"] in ("tamper", "sweep"):
            return core.sha(core.jdump(self.describe(case)).encode())
        return None

    def dist(self, case):
        n = len(unchunk(case["payload"]))
        bucket = "0" if n == 0 else "1-16" if n <= 16 else "17-511" if n < 512 else "512-4095" if n < 4096 else \
            "4096" if n == 4096 else "4097-20000" if n <= 20000 else ">20000"
        types = {a["t"] for a in case["attrs"] if "t" in a}
        d = {"mode": case["mode"], "kind": case["kind"], "payload": bucket, "padding": case["padk"],
             "attrs": len(case["attrs"]), "types": len(types), "order": case["order"],
             "aad": "none" if not case["aad_seal"] else "esx" if bytes.fromhex(case["aad_seal"]) == b"ESXConfiguration"
             else "other", "ivlen": len(case["iv"]) // 2,
             "snan": any(a.get("t") == 9 and is_snan32(a["v"]) for a in case["attrs"])}
        if case.get("tamper"):
            d["tamper"] = case["tamper"]["cls"]
        if case.get("mal"):
            d["malformed"] = case["mal"]
        return d

    def describe(self, case):
        return {k: v for k, v in case.items() if k != "hint"}


# ----------------------------------------------------------------------------- keystore suite
WS = [9, 10, 11, 12, 13, 28, 29, 30, 31, 32, 133, 160, 5760, 8192, 8202, 8232, 8233, 8239, 8287, 12288]
NEAR_WS = [8203, 65279, 6158, 8204, 0x2060, 127, 0, 8, 14, 27, 33]


def gen_keystore(rng, tier):
    kid = rng.randbytes(16)
    d1 = rng.randbytes(rng.pick([16, 16, 16, 0, 1, 2, 3, 15, 17, 32, 33, 50]))
    d2 = rng.randbytes(rng.pick([16, 16, 16, 0, 1, 2, 3, 5, 31, 64]))
    style = rng.pick(["esx", "esx", "all", "plain"])
    text = keystore_text(kid, d1, d2, rng, style)
    c = {"kind": "wellformed", "kid": kid.hex(), "d1": d1.hex(), "d2": d2.hex(), "style": style, "mut": "none"}
    lines = text.split("\n")
    if rng.chance(0.7):
        # transformations that must not change the stored values
        mut = rng.pick(["reorder", "comments", "spaces", "noquotes", "crlf", "extra_keys", "nested", "dup_last_wins",
                        "ws_unicode", "cfg_spaces", "cfg_order", "cfg_dup", "quote_pad", "b64_noise", "b64_nopad2",
                        "dotted_first"])
        c["mut"] = mut
        if mut == "reorder":
            rng.shuffle(lines)
        elif mut == "comments":
            lines = ["# a comment", "   # mode = \"TPM\""] + lines + ["#ConfigEncData = x", ""]
        elif mut == "spaces":
            lines = [("  " + l.replace(" = ", rng.pick(["=", "  =  ", " =", "=  "])) + " \t") for l in lines]
        elif mut == "noquotes":
            lines = [l.replace('"', "") if not l.startswith("ConfigEncData") or rng.chance(0.5) else l for l in lines]
        elif mut == "crlf":
            lines = [l + "\r" for l in lines]
        elif mut == "extra_keys":
            lines = lines[:2] + ['a.b.c = "1"', 'a.b.d = "2"', "a.e = 3", 'other = "x=y"', ".mode = TPM"] + lines[2:]
        elif mut == "nested":
            lines = ["mode.x = 1"] + lines if rng.chance(0.5) else lines + ["ConfigEncData.y = 2"]
            c["kind"] = "malformed"      # mode.x then mode = NONE overwrites; ConfigEncData.y after -> TypeError
        elif mut == "dup_last_wins":
            lines = ['mode = "TPM"', 'ConfigEncData = "keyId=AAAA"'] + lines
        elif mut == "ws_unicode":
            w = "".join(chr(rng.pick(WS[2:])) for _ in range(rng.randrange(1, 4)))
            lines = [w + l + w for l in lines]
        elif mut in ("cfg_spaces", "cfg_order", "cfg_dup", "quote_pad", "b64_noise", "b64_nopad2"):
            i = next(k for k, l in enumerate(lines) if l.startswith("ConfigEncData"))
            cfg = lines[i].split('"')[1]
            opts = cfg.split(":")
            if mut == "cfg_spaces":
                opts = [" " + o.replace("=", " = ", 1) + " " for o in opts]
            elif mut == "cfg_order":
                rng.shuffle(opts)
            elif mut == "cfg_dup":
                opts = ["data1=AAAA", "keyId=Zm9v"] + opts
            elif mut == "quote_pad":
                opts = [o.replace("%3d", "%3D") if rng.chance(0.5) else o.replace("%3D", "%3d") for o in opts]
            elif mut == "b64_noise":
                # characters outside the alphabet are skipped by the non-strict decoder
                def noise(o):
                    n, _, v = o.partition("=")
                    if n in ("keyId", "data1", "data2") and v:
                        k = rng.randrange((v.find("%") if "%" in v else len(v)) + 1)
                        v = v[:k] + rng.pick(["-", "_", "%0a", "%20", "!", ".", "%25"]) + v[k:]
                    return n + "=" + v
                opts = [noise(o) for o in opts]
            elif mut == "b64_nopad2":
                opts = [o + rng.pick(["%3d", "%3d%3d", "%3dQUJD"]) if o.startswith("data") and rng.chance(0.6) else o
                        for o in opts]
                c["kind"] = "malformed"    # extra padding / data after padding: decoder-dependent, model decides
            lines[i] = 'ConfigEncData = "' + ":".join(opts) + '"'
        elif mut == "dotted_first":
            lines = lines + ['.encoding = "x"', '.a.b = "c"']
        text = "\n".join(lines)
    else:
        mut = rng.pick(["none", "none", "mode_tpm", "mode_missing", "mode_empty", "mode_lower", "no_cfg", "cfg_missing_field",
                        "keyid_short", "keyid_long", "b64_bad_len", "b64_nonascii", "pct_high", "pct_bad", "leaf_then_path",
                        "path_then_leaf", "random_line", "empty", "cfg_is_dict", "near_ws", "b64_pad_mid", "only_pad",
                        "pct_utf8", "eq_in_value"])
        c["mut"] = mut
        if mut != "none":
            c["kind"] = "malformed"
        i = next(k for k, l in enumerate(lines) if l.startswith("ConfigEncData"))
        m = next(k for k, l in enumerate(lines) if l.startswith("mode"))
        cfg = lines[i].split('"')[1]
        if mut == "mode_tpm":
            lines[m] = 'mode = "TPM"'
        elif mut == "mode_missing":
            lines.pop(m)
        elif mut == "mode_empty":
            lines[m] = rng.pick(['mode = ""', "mode =", "mode", 'mode = " "'])
        elif mut == "mode_lower":
            lines[m] = rng.pick(['mode = "none"', 'Mode = "NONE"', 'mode = "NONE" x', 'mode = "NONE'])
            if lines[m] == 'mode = "NONE':
                c["kind"] = "wellformed"
        elif mut == "no_cfg":
            lines.pop(i)
        elif mut == "cfg_missing_field":
            opts = [o for o in cfg.split(":") if not o.startswith(rng.pick(["keyId", "data1", "data2"]))]
            lines[i] = 'ConfigEncData = "' + ":".join(opts) + '"'
        elif mut in ("keyid_short", "keyid_long"):
            nk = rng.randbytes(15 if mut == "keyid_short" else rng.pick([17, 32]))
            lines[i] = 'ConfigEncData = "' + cfg.replace(cfg.split(":")[0], "keyId=" + b64q(nk)) + '"'
        elif mut == "b64_bad_len":
            lines[i] = 'ConfigEncData = "' + cfg.replace("data1=", "data1=" + rng.pick(["Q", "QUJDR", "Q%3d%3d", "QQ%3d"])) + '"'
        elif mut == "b64_nonascii":
            lines[i] = 'ConfigEncData = "' + cfg.replace("data2=", "data2=" + rng.pick(["é", " ", "Ω"])) + '"'
        elif mut == "pct_high":
            lines[i] = 'ConfigEncData = "' + cfg.replace("data2=", "data2=" + rng.pick(["%80", "%c3%a9", "%ff", "%C3"])) + '"'
        elif mut == "pct_bad":
            lines[i] = 'ConfigEncData = "' + cfg.replace("data2=", "data2=" + rng.pick(["%", "%4", "%zz", "%%41", "%4g",
                                                                                       "%41", "%2b", "%2F"])) + '"'
            c["kind"] = "malformed"
        elif mut == "leaf_then_path":
            lines = ["a = xbx", rng.pick(["a.b = 1", "a.b.c = 1", "a.z.c = 1"])] + lines
        elif mut == "path_then_leaf":
            lines = ["mode.sub = 1"] + lines
            c["kind"] = "wellformed"
        elif mut == "random_line":
            lines.insert(rng.randrange(len(lines) + 1), "".join(chr(rng.pick([32, 34, 35, 46, 46, 61, 61, 65, 66, 58, 37, 10, 9]))
                                                                for _ in range(rng.randrange(1, 12))))
        elif mut == "empty":
            lines = rng.pick([[], [""], ["#"], ["="], ["."], [". = x"], ["a..b = 1"], [" = "], ["=x"]])
        elif mut == "cfg_is_dict":
            lines[i] = "ConfigEncData.x = 1"
        elif mut == "near_ws":
            w = chr(rng.pick(NEAR_WS))
            lines[m] = rng.pick([w + lines[m], lines[m] + w, "mode" + w + '= "NONE"'])
        elif mut == "b64_pad_mid":
            lines[i] = 'ConfigEncData = "' + cfg.replace("data1=", "data1=" + rng.pick(["%3d", "%3d%3d", "QQ%3d%3d", "QUI%3d",
                                                                                       "QQ%3dQ", "QQ%3d-%3d"])) + '"'
        elif mut == "only_pad":
            lines[i] = 'ConfigEncData = "' + ":".join(["keyId=" + b64q(kid), "data1=" + rng.pick(["", "%3d%3d%3d", "!!!"]),
                                                       "data2=" + rng.pick(["", "%3d", "...."])]) + '"'
        elif mut == "pct_utf8":
            lines[i] = 'ConfigEncData = "' + cfg + ":note=%e2%82%ac:n2=é" + '"'
            c["kind"] = "wellformed"
        elif mut == "eq_in_value":
            lines[i] = 'ConfigEncData = "' + cfg.replace("%3d", "=").replace("%3D", "=") + '"'
            c["kind"] = "wellformed"
        text = "\n".join(lines)
    c["text"] = text
    # history: another keystore with the SAME key id but other key material parsed first in the same process
    # (regenerated key, another host's file): the result depends on this keystore's stored values only
    prior = (len(text) + sum(kid)) % 5 < 2
    if prior:
        c["prior"] = keystore_text(kid, bytes(x ^ 0x5A for x in d1) + b"p", d2[::-1] + b"q", core.Rng(len(text)), "esx")
    return c


class KeystoreSuite(Suite):
    name = "keystore"
    shard = 40
    preamble = PREAMBLE
    per_case_timeout = 30.0

    def generate(self, rng, tier):
        return [gen_keystore(rng, tier) for _ in range(900 if tier == "thorough" else 130)]

    def impl(self, case):
        from dissect.hypervisor.util.envelope import KeyStore
        if case.get("prior"):
            try:
                KeyStore.from_text(case["prior"])
            except Exception:  # noqa: BLE001
                pass
        try:
            ks = KeyStore.from_text(case["text"])
        except Exception as e:  # noqa: BLE001
            return {"res": ("err", exc_info(e))}
        again = KeyStore.from_text(case["text"])
        return {"res": ("ok", bytes(ks.key), ks.id, ks.mode), "again": bytes(again.key) == bytes(ks.key)}

    def coq_term(self, case):
        return f"keystore_plan_view {zlist([ord(ch) for ch in case['text']])}"

    def judge(self, case, impl_res, coq_val):
        sig = f"keystore:{case['kind']}:{case['mut']}"
        if impl_res.get("outcome"):
            kind = "impl_fault" if impl_res["outcome"] in ("hang", "crash", "oom") else "impl_vs_model"
            return [Finding(kind, f"implementation {impl_res['outcome']}: {impl_res.get('exc', '')} {impl_res.get('msg', '')}",
                            sig + ":" + impl_res["outcome"])]
        fs = []
        r = core.res_of(coq_val)
        impl = impl_res["res"]
        model = None
        if r[0] == "ok":
            _, kid, pw, salt = r[1]
            import uuid
            model = ("ok", pbkdf2(bytes(pw), bytes(salt)), str(uuid.UUID(bytes=bytes(kid))))
        spec = None
        if case["kind"] == "wellformed":
            import uuid
            spec = ("ok", pbkdf2(bytes.fromhex(case["d1"]) + SALT, bytes.fromhex(case["d2"])),
                    str(uuid.UUID(bytes=bytes.fromhex(case["kid"]))))

        def eq(a, b):
            if a is None or b is None:
                return (a is None or a[0] != "ok") and (b is None or b[0] != "ok")
            return a[0] == b[0] and (a[0] != "ok" or (a[1] == b[1] and a[2] == b[2]))

        def show(x):
            if x is None or x[0] != "ok":
                return "error" + (f" {x[1]}" if x is not None and len(x) > 1 else "")
            return f"key {x[1].hex()[:16]}.. id {x[2]}"
        if spec is not None and not eq(impl, spec):
            fs.append(Finding("impl_vs_spec", f"keystore {case['mut']}: implementation {show(impl)}, stored values give "
                                              f"{show(spec)}", sig + ":key"))
        if not eq(impl, model):
            fs.append(Finding("impl_vs_model", f"keystore {case['mut']}: implementation {show(impl)}, model {show(model)}",
                              sig + ":model"))
        if spec is not None and not eq(model, spec):
            fs.append(Finding("model_vs_spec", f"keystore {case['mut']}: model {show(model)}, spec {show(spec)}", sig + ":ms"))
        if impl[0] == "ok" and not impl_res.get("again"):
            fs.append(Finding("impl_vs_spec", "key derivation is not deterministic", sig + ":nondet"))
        return fs

    def nontrivial(self, case, impl_res, coq_val):
        if isinstance(impl_res, dict) and impl_res.get("res", ("",))[0] == "ok":
            return core.sha(case["text"].encode())
        return None

    def dist(self, case):
        return {"kind": case["kind"], "mut": case["mut"], "style": case["style"], "d1len": len(case["d1"]) // 2,
                "d2len": len(case["d2"]) // 2}


SUITES = {"envelope": EnvelopeSuite(), "keystore": KeystoreSuite()}
