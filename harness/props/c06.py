"""C06 — Parallels HDS (v1/v2) and plain images: every byte range reads as the guest-visible content."""
from __future__ import annotations

import os
import shutil
import struct
import tempfile
import uuid

from harness import core
from harness.core import Z, zpairs
from harness.main import Finding, Suite
from harness.readers import ReaderSuite, call, gen_requests, outcome_of

PROPERTY = "C06"
PROPS_FILE = "Props/C06.v"
MODEL_FILES = ["Model/Hds.v", "Model/Hdd.v", "Proofs/Layers.v"]
META = {
    "category": "proof",
    "text": "Coq theorems: the HDS reader model (_iter_runs run coalescer with an explicit sparse sentinel, BAT entries in "
            "sectors (v1) or clusters (v2), _read) returns exactly the guest bytes for every BAT, cluster size, physical "
            "placement and request — in particular whatever file offset an allocated cluster has relative to the sparse "
            "run before it — and terminates for arbitrary tables; HDS images are layers of the chain theorem and a .hdd directory split "
            "over several storages, each with its own snapshot chain, reads as the concatenation of the per-storage overlays "
            "(Model/Hdd.v, hdd_read_correct); tied to hdd.py by differential correspondence (hds and hdd_split suites).",
    "design_ref": "DESIGN.md §6 C03–C06",
    "note": "Trusted: Coq kernel; hand-written Model/Hds.v validated against HDS._iter_runs/_read on generated images only; "
            "Gen/Consts.v (SECTOR_SIZE) from the translator; cstruct union/array decoding as exercised.",
    "technique": "Coq proof (invariant over the run coalescer) + differential correspondence",
    "rule": "images: v1/v2, m_Sectors from {1,8,16,128,2048}, 1..12 clusters (thorough ..40), BAT entries 0/allocated, "
            "placement asc/desc/random/gaps/coincidence(file offset of a cluster = length of the sparse run before it)/high; "
            "plain images; requests raw (any offset/length, incl. past the end) and stream. Non-trivial = request touches "
            ">= 2 clusters or >= 2 source kinds; distinct by case hash.",
    "trusted_base": ["Model/Hds.v is hand-written (correspondence-checked, not proved against Python)"],
    "assumptions": ["file handles behave as io.RawIOBase files (SparseFile stand-in)"],
}
SIG1 = b"WithoutFreeSpace"
SIG2 = b"WithouFreSpacExt"


IN_USE = 0x746F6E59          # m_DiskInUse: the image was not closed cleanly; the content it describes is the same


def build_header(case):
    ver = case["version"]
    if ver == 1:
        size_field = struct.pack("<II", case["size"] // 512, 0)
    else:
        size_field = struct.pack("<Q", case["size"] // 512)
    return (struct.pack("<16sIIIII", SIG1 if ver == 1 else SIG2, 2, 16, 1024, case["m_sectors"], len(case["bat"])) +
            size_field + struct.pack("<IIIQ", IN_USE if case.get("in_use") else 0, case["first_block"], 0, 0))


def gen_case(rng, tier):
    if rng.chance(0.08):
        nsect = rng.pick([1, 7, 16, 1000, 5000])
        c = {"kind": "plain", "size": nsect * 512, "salt": rng.randrange(1 << 30)}
        c["reqs"] = gen_requests(rng, c["size"], 4096, n=4)
        c["reqs"] = [r for r in c["reqs"] if r[0] == "bytes"] or [["bytes", 0, -1]]
        return c
    ver = rng.pick([1, 2])
    ms = rng.weighted([(1, 1), (3, 1), (8, 3), (16, 3), (24, 1), (63, 1), (128, 2), (2048, 1)])
    cs = ms * 512
    maxc = 40 if tier == "thorough" else 12
    n = rng.randint(1, maxc if ms < 2048 else 4)
    cut = rng.weighted([(0, 3), (512 * rng.randrange(0, ms), 3)])
    size = max(512, n * cs - cut)
    if size <= (n - 1) * cs:
        size = (n - 1) * cs + 512
    extra = rng.pick([0, 0, 3])
    mode = rng.weighted([("all", 2), ("none", 1), ("alt", 2), ("rand", 5)])
    present = [{"all": True, "none": False, "alt": b % 2 == 1, "rand": rng.chance(0.55)}[mode] for b in range(n)]
    hdr_clusters = (64 + 4 * (n + extra) + cs - 1) // cs
    place = rng.weighted([("asc", 3), ("desc", 2), ("random", 3), ("gaps", 2), ("coincidence", 3), ("high", 1)])
    idx = [b for b in range(n) if present[b]]
    slots = list(range(len(idx)))
    if place == "desc":
        slots.reverse()
    elif place == "random":
        rng.shuffle(slots)
    elif place == "gaps":
        slots = rng.sample(range(3 * len(idx) + 1), len(idx))
    pos = {}
    for b, s in zip(idx, slots):
        pos[b] = hdr_clusters + s
    if place == "coincidence":
        # cluster b stored at file cluster k where k = number of sparse clusters directly before it (from some start)
        used = set()
        for b in idx:
            k = 0
            while b - 1 - k >= 0 and not present[b - 1 - k]:
                k += 1
            cand = [c for c in range(1, k + 1) if c >= hdr_clusters and c not in used]
            if cand and rng.chance(0.8):
                pos[b] = rng.pick(cand)
            else:
                p = hdr_clusters + len(idx) + b
                while p in used:
                    p += 1
                pos[b] = p
            used.add(pos[b])
    elif place == "high":
        top = ((1 << 32) - 1) // (ms if ver == 1 else 1)
        top = min(top, (1 << 32) - 1) // 1
        base = (top // (1 if ver == 2 else 1)) - len(idx) - 5 if ver == 2 else ((1 << 32) - 1) // ms - len(idx) - 5
        for b, s in zip(idx, slots):
            pos[b] = base + s
    bat = []
    unaligned = ver == 1 and ms > 1 and rng.chance(0.5)      # v1 entries are sector offsets: any sector, not only cluster multiples
    for b in range(n + extra):
        if b in pos:
            bat.append((pos[b] * ms + (rng.randrange(ms) if unaligned else 0)) if ver == 1 else pos[b])
        else:
            bat.append(0)
    top = max(pos.values(), default=hdr_clusters)
    c = {"kind": f"v{ver}", "version": ver, "m_sectors": ms, "size": size, "bat": bat, "first_block": hdr_clusters * ms,
         "file_size": (top + 2) * cs, "place": place, "mode": mode, "salt": rng.randrange(1 << 30)}
    c["reqs"] = gen_requests(rng, size, cs, n=6)
    if pos and (c["salt"] >> 2) & 1:
        # no slack: the file ends exactly with its physically last cluster
        c["file_size"] = (max(bat) * 512 + cs) if ver == 1 else (top + 1) * cs
    c["in_use"] = (c["salt"] & 3) == 0          # m_DiskInUse set (derived from the salt: the random stream is unchanged)
    return c


class HdsSuite(ReaderSuite):
    name = "hds"
    fmt = "hds"
    preamble = ("From Coq Require Import ZArith List.\nImport ListNotations.\nOpen Scope Z_scope.\n"
                "From DH Require Import Base.Plan Base.Table Model.Hds.\n")

    def generate(self, rng, tier):
        n = 1500 if tier == "thorough" else 150
        from harness.readers import with_twins
        return with_twins([gen_case(rng, tier) for _ in range(n)], rng)

    def build_files(self, case):
        if case["kind"] == "plain":
            return {"file": core.SparseFile(case["size"], {}, salt=case["salt"])}
        chunks = {0: build_header(case), 64: b"".join(struct.pack("<I", e) for e in case["bat"])}
        return {"file": core.SparseFile(case["file_size"], chunks, salt=case["salt"])}

    def open_impl(self, case, files):
        from dissect.hypervisor.disk import hdd
        if case["kind"] == "plain":
            st = hdd.Storage(0, case["size"] // 512, [])
            return hdd.StorageStream([(st, files["file"])])
        return hdd.HDS(files["file"])

    def coq_img(self, case):
        if case["kind"] == "plain":
            return "tt"
        ent = [(i, e) for i, e in enumerate(case["bat"]) if e != 0]
        cs = case["m_sectors"] * 512
        mult = 1 if case["version"] == 1 else case["m_sectors"]
        return (f"{{| h_size := {Z(case['size'])}; h_cs := {Z(cs)}; h_mult := {Z(mult)}; "
                f"h_bat := tbl {zpairs(ent)} 0 {Z(len(case['bat']))}; h_parent := false |}}")

    def model_term(self, case, kind, a, b):
        if kind == "raw" and case["kind"] != "plain":
            cs = case["m_sectors"] * 512
            return f"hds_read img (hds_fuel {Z(b // cs + 2)}) {Z(a)} {Z(b)}"
        return None

    def spec_fn(self, case):
        return "File" if case["kind"] == "plain" else "(hds_src img)"

    def granule(self, case):
        return 512

    def dist(self, case):
        if case["kind"] == "plain":
            return {"kind": "plain"}
        return {"kind": case["kind"], "m_sectors": case["m_sectors"], "place": case["place"], "mode": case["mode"],
                "size_aligned": case["size"] % (case["m_sectors"] * 512) == 0,
                "req_kinds": ",".join(sorted({r[0] for r in case["reqs"]}))}


SUITES = {"hds": HdsSuite()}


# ----------------------------------------------------------------------------- Parallels .hdd split over several storages
def gen_hds_layers(rng, depth, nsect, extra=0):
    size = (nsect + extra) * 512           # extra: the images are larger than the range their storage declares
    layers = []
    for d in range(depth):
        ms = rng.pick([1, 2, 8])
        ver = rng.pick([1, 2])
        cs = ms * 512
        nc = (size + cs - 1) // cs
        hdr = (64 + 4 * nc + cs - 1) // cs
        slots = list(range(nc))
        rng.shuffle(slots)
        mode = rng.pick(["rand", "alt", "sparse", "dense"])
        bat = []
        for b in range(nc):
            hold = {"rand": rng.chance(0.5), "alt": (b + d) % 2 == 0, "sparse": rng.chance(0.2), "dense": rng.chance(0.9)}[mode]
            pos = hdr + slots[b]
            bat.append((pos * ms if ver == 1 else pos) if hold else 0)
        layers.append({"kind": f"v{ver}", "version": ver, "m_sectors": ms, "size": size, "bat": bat,
                       "first_block": hdr * ms, "file_size": (hdr + nc) * cs, "salt": rng.randrange(1 << 30)})
    return layers


class HddSplit(Suite):
    """A .hdd directory whose disk is split over 2..4 storages, each storage with its own snapshot chain of expanding
    (Compressed) images, optionally a Plain base.  Every storage's chain stands alone: a cluster absent from every layer
    of ITS chain reads as zeros whatever the neighbouring storages hold.  Implementation vs the overlay intent computed
    sector by sector (topmost layer of the storage's own chain that holds the cluster, else zero), concatenated in
    storage order; the per-storage chain and the StorageStream walk are the Coq theorems C07_hds_chain and
    C10_storage_read_correct."""
    name = "hdd_split"
    per_case_timeout = 20.0
    shard = 4
    preamble = ("From Coq Require Import ZArith List.\nImport ListNotations.\nOpen Scope Z_scope.\n"
                "From DH Require Import Base.Plan Base.Table Model.Chain Model.Hds Proofs.Layers Model.Hdd.\n")

    # -- Coq side: Model/Hdd.v (bisect + walk over the storages, each storage read through its own chain of layers)
    @staticmethod
    def layer_terms(st):
        terms = []
        n = len(st["layers"])
        for i, l in enumerate(st["layers"]):
            if st["plain_base"] and i == n - 1:
                terms.append("{| l_read := fun off n => Ok [SFile off n]; l_src := File |}")
                continue
            ent = [(k, e) for k, e in enumerate(l["bat"]) if e != 0]
            cs = l["m_sectors"] * 512
            mult = 1 if l["version"] == 1 else l["m_sectors"]
            terms.append(f"hds_layer {{| h_size := {Z(l['size'])}; h_cs := {Z(cs)}; h_mult := {Z(mult)}; "
                         f"h_bat := tbl {zpairs(ent)} 0 {Z(len(l['bat']))}; h_parent := {core.cbool(i < n - 1)} |}}")
        return terms

    @staticmethod
    def cover(a, b):
        o0 = a - a % 512
        return o0, (a + b + 511) // 512 * 512 - o0

    def coq_term(self, case):
        hs, start = [], 0
        for st in case["storages"]:
            hs.append(f"({Z(start)}, {Z(start + st['nsect'])}, [{'; '.join(self.layer_terms(st))}])")
            start += st["nsect"]
        items = []
        for a, b in case["reqs"]:
            o0, n0 = self.cover(a, b)
            items.append(f"(hdd_read_c hs {Z(o0)} {Z(n0)}, hdd_spec_c hs {Z(o0)} {Z(n0)})")
        return "let hs := [" + "; ".join(hs) + "] in [" + "; ".join(items) + "]"

    def mat(self, case, tagged):
        files = [self._files(st) for st in case["storages"]]
        out = []
        for t in tagged:
            _, idx, seg = t
            seg = tuple(seg)
            if seg[0] == "LSZero":
                out.append(b"\x00" * seg[1])
            elif seg[0] == "LSFile":
                out.append(files[idx][seg[1]].content(seg[2], seg[3]))
            else:
                raise ValueError(f"unexpected segment {seg}")
        return b"".join(out)

    def generate(self, rng, tier):
        n = 120 if tier == "thorough" else 14
        out = []
        for _ in range(n):
            depth = rng.randint(1, 3)
            nst = rng.weighted([(1, 2), (2, 3), (3, 2), (4, 1)])
            directed = len(out) < 2          # the first two disks: ONE storage whose images are larger than its range
            if directed:
                nst = 1
            guids = [rng.getrandbits(128) | 1 for _ in range(depth)]
            explicit_top = rng.chance(0.6)
            if not explicit_top:
                guids[0] = 0x5fbaabe3695840ff92a7860e329aab41
            storages = []
            first_dense = rng.chance(0.6)
            for k in range(nst):
                nsect = rng.randint(4, 48)
                if k == 0 and len(out) % 3 == 2:
                    nsect = rng.pick([15, 31, 47])       # a boundary one sector short of a stream-buffer boundary
                # (the storage's End bounds the disk, not the size in the image headers: images may be larger)
                layers = gen_hds_layers(rng, depth, nsect, extra=rng.pick([5, 120] if directed else [0, 0, 0, 5, 120]))
                if k == 0 and first_dense:
                    for l in layers[:1]:            # the first storage holds data nearly everywhere
                        ex = l["size"] // 512 - nsect
                        l2 = gen_hds_layers(rng, 1, nsect, ex)[0]
                        while sum(1 for e in l2["bat"] if e) * 10 < len(l2["bat"]) * 7:
                            l2 = gen_hds_layers(rng, 1, nsect, ex)[0]
                        l.update(l2)
                storages.append({"nsect": nsect, "layers": layers,
                                 "plain_base": (not directed) and rng.chance(0.2 if depth > 1 else 0.5),
                                 "image_order": rng.sample(range(depth), depth),
                                 # a Plain image may be longer than the range its storage declares (slack behind End):
                                 # the bytes behind End belong to nobody
                                 "plain_pad": rng.pick([0, 0, 3, 16, 40])})
            total = sum(st["nsect"] for st in storages)
            bounds, acc = [], 0
            for st in storages:
                acc += st["nsect"]
                bounds.append(acc)
            reqs = [[0, total * 512]]
            for b in bounds[:-1]:
                # small reads shortly before a storage boundary (the buffer that serves them ends at, or one sector past, it)
                reqs.append([max(0, b * 512 - rng.randint(600, 2000)), rng.randint(1, 500)])
            for _ in range(6):
                b = rng.pick(bounds)
                a = max(0, min(total * 512 - 1, b * 512 - rng.randint(0, 6000))) if rng.chance(0.7) else rng.randrange(total * 512)
                reqs.append([a, rng.randint(1, min(total * 512 - a, 12000))])
            out.append({"storages": storages, "guids": guids, "explicit_top": explicit_top, "total": total,
                        "storage_order": rng.sample(range(nst), nst), "reqs": reqs})
        return out

    @staticmethod
    def _files(st):
        files = [SUITES["hds"].build_files(l)["file"] for l in st["layers"]]
        if st["plain_base"]:
            files[-1] = core.SparseFile((st["nsect"] + st.get("plain_pad", 0)) * 512, {}, salt=st["layers"][-1]["salt"] ^ 0x77)
        return files

    def expected(self, case):
        out = []
        for st in case["storages"]:
            files = self._files(st)
            n = len(files)
            for s in range(st["nsect"]):
                for i, l in enumerate(st["layers"]):
                    if st["plain_base"] and i == n - 1:
                        out.append(files[i].content(s * 512, 512))
                        break
                    ms = l["m_sectors"]
                    e = l["bat"][s // ms]
                    if e:
                        sec = (e if l["version"] == 1 else e * ms) + s % ms
                        out.append(files[i].content(sec * 512, 512))
                        break
                else:
                    out.append(b"\x00" * 512)
        return b"".join(out)

    def impl(self, case):
        from pathlib import Path
        from dissect.hypervisor.disk.hdd import HDD
        tmp = tempfile.mkdtemp(prefix="verif_c06s_")
        try:
            d = os.path.join(tmp, "disk.hdd")
            os.makedirs(d)
            g = lambda v: "{" + str(uuid.UUID(int=v)) + "}"  # noqa: E731
            depth = len(case["guids"])
            blocks, start = {}, 0
            for k, st in enumerate(case["storages"]):
                files = self._files(st)
                images = []
                for i, fh in enumerate(files):
                    fn = f"disk.hdd.{k}.{g(case['guids'][i])}.hds"
                    with open(os.path.join(d, fn), "wb") as w:
                        w.write(fh.content(0, fh.size))
                    typ = "Plain" if (st["plain_base"] and i == depth - 1) else "Compressed"
                    images.append(f"<Image><GUID>{g(case['guids'][i])}</GUID><Type>{typ}</Type><File>{fn}</File></Image>")
                images = "".join(images[i] for i in st["image_order"])
                blocks[k] = (f"<Storage><Start>{start}</Start><End>{start + st['nsect']}</End><Blocksize>8</Blocksize>"
                             f"{images}</Storage>")
                start += st["nsect"]
            shots = []
            for i in range(depth):
                parent = g(case["guids"][i + 1]) if i + 1 < depth else "{00000000-0000-0000-0000-000000000000}"
                shots.append(f"<Shot><GUID>{g(case['guids'][i])}</GUID><ParentGUID>{parent}</ParentGUID></Shot>")
            top = f"<TopGUID>{g(case['guids'][0])}</TopGUID>" if case["explicit_top"] else ""
            xml = ("<?xml version='1.0' encoding='UTF-8'?>\n<Parallels_disk_image Version=\"1.0\">"
                   f"<Disk_Parameters><Disk_size>{case['total']}</Disk_size></Disk_Parameters><StorageData>"
                   + "".join(blocks[k] for k in case["storage_order"]) +
                   f"</StorageData><Snapshots>{top}{''.join(shots)}</Snapshots></Parallels_disk_image>")
            with open(os.path.join(d, "DiskDescriptor.xml"), "w") as w:
                w.write(xml)
            out = {"open": None, "reqs": []}
            try:
                hdd = HDD(Path(d))
                stream = hdd.open()
                other = hdd.open()           # a second stream of the same disk (another consumer of the same HDD object)
            except Exception as e:  # noqa: BLE001
                out["open"] = {"outcome": "exc", "exc": type(e).__name__, "msg": str(e)[:200]}
                return out
            out["size"] = int(stream.size)
            for k, (a, b) in enumerate(case["reqs"]):
                def f(a=a, b=b, k=k):
                    # the request in two parts, the second continuing where the first stopped, with the other stream
                    # used in between (at another place of the disk)
                    stream.seek(a)
                    if b is None or b < 2 or k % 2 == 0:
                        return stream.read(b)
                    r1 = stream.read(b // 2)
                    other.seek((a * 5 + 4096 * k + 512) % max(1, int(other.size)))
                    other.read(1536)
                    return r1 + stream.read(b - b // 2)
                out["reqs"].append(call(f))
            return out
        finally:
            shutil.rmtree(tmp, ignore_errors=True)

    def judge(self, case, impl_res, coq_val):
        if impl_res.get("outcome"):
            return [Finding("impl_fault", f"implementation {impl_res['outcome']}", "hdd:split:" + impl_res["outcome"])]
        if impl_res["open"] is not None:
            return [Finding("impl_vs_spec", f"open failed on a well-formed split disk: {impl_res['open']}", "hdd:split:open")]
        fs = []
        if impl_res["size"] != case["total"] * 512:
            fs.append(Finding("impl_vs_spec", f"size {impl_res['size']} != {case['total'] * 512}", "hdd:split:size"))
        exp = self.expected(case)
        for k, ((a, b), r) in enumerate(zip(case["reqs"], impl_res["reqs"])):
            io = outcome_of(r)
            label = f"bytes({a},{b})"
            if coq_val is not None:
                # three-way: the Coq model of HDD.open()+StorageStream (Model/Hdd.v) and its pointwise spec (hdd_src)
                _, model_v, spec_v = coq_val[k]
                o0, n0 = self.cover(a, b)
                sb = self.mat(case, spec_v)[a - o0:a - o0 + b]
                if sb != exp[a:a + b]:
                    fs.append(Finding("model_vs_spec", f"{label}: hdd_src differs from the per-storage overlay intent",
                                      "hdd:split:spec-intent"))
                m = core.res_of(model_v)
                if m[0] != "ok":
                    fs.append(Finding("model_vs_spec", f"{label}: hdd_read returned {m[0]}", "hdd:split:mvs-" + m[0]))
                else:
                    mb = self.mat(case, m[1])[a - o0:a - o0 + b]
                    if mb != sb:
                        fs.append(Finding("model_vs_spec", f"{label}: hdd_read differs from hdd_src", "hdd:split:mvs"))
                    if io[0] == "ok" and io[1] != mb:
                        fs.append(Finding("impl_vs_model", f"{label}: implementation differs from the model (Model/Hdd.v)",
                                          "hdd:split:model"))
            if io[0] == "ok":
                if io[1] != exp[a:a + b]:
                    dd = core.first_diff(io[1], exp[a:a + b])
                    fs.append(Finding("impl_vs_spec", f"{label}: bytes differ from the per-storage overlay at +{dd} "
                                      f"(sector {(a + dd) // 512})", "hdd:split:bytes"))
            elif io[0] == "exc":
                fs.append(Finding("impl_vs_spec", f"{label}: implementation raised {io[1]} at {io[2]}", f"hdd:split:exc:{io[1]}"))
            else:
                fs.append(Finding("impl_fault", f"{label}: {io[0]}", "hdd:split:" + io[0]))
        return fs

    def nontrivial(self, case, impl_res, coq_val):
        return core.sha(core.jdump(case["reqs"]).encode() + str(case["guids"]).encode())

    def dist(self, case):
        return {"storages": len(case["storages"]), "depth": len(case["guids"])}

    def describe(self, case):
        return {"total": case["total"], "storages": [(st["nsect"], st["plain_base"]) for st in case["storages"]],
                "reqs": case["reqs"]}


SUITES["hdd_split"] = HddSplit()

from harness.readers import under_O, under_debug, under_bufsize  # noqa: E402
SUITES["hds_pyO"] = under_O(SUITES["hds"])
SUITES["hds_dbg"] = under_debug(SUITES["hds"])
SUITES["hds_buf12288"] = under_bufsize(SUITES["hds"], 12288)
SUITES["hds_buf1536"] = under_bufsize(SUITES["hds"], 1536, n=4)
