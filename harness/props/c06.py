"""C06 — Parallels HDS (v1/v2) and plain images: every byte range reads as the guest-visible content."""
from __future__ import annotations

import struct

from harness import core
from harness.core import Z, zpairs
from harness.readers import ReaderSuite, gen_requests

PROPERTY = "C06"
PROPS_FILE = "Props/C06.v"
MODEL_FILES = ["Model/Hds.v"]
META = {
    "category": "proof",
    "text": "Coq theorems: the HDS reader model (_iter_runs run coalescer with an explicit sparse sentinel, BAT entries in "
            "sectors (v1) or clusters (v2), _read) returns exactly the guest bytes for every BAT, cluster size, physical "
            "placement and request — in particular whatever file offset an allocated cluster has relative to the sparse "
            "run before it — and terminates for arbitrary tables; tied to hdd.py by differential correspondence.",
    "design_ref": "DESIGN.md §6 C03–C06",
    "note": "Trusted: Coq kernel; hand-written Model/Hds.v validated against HDS._iter_runs/_read on generated images only; "
            "Gen/Consts.v (SECTOR_SIZE) from the translator; cstruct union/array decoding as exercised.",
    "technique": "Coq proof (invariant over the run coalescer) + differential correspondence",
    "rule": "images: v1/v2, m_Sectors from {1,8,16,128,2048}, 1..12 clusters (thorough ..40), BAT entries 0/allocated, "
            "placement asc/desc/random/gaps/coincidence(file offset of a cluster = length of the sparse run before it)/high; "
            "plain images; requests raw (any offset/length, incl. past the end) and stream. Non-trivial = request touches "
            ">= 2 clusters or >= 2 source kinds; distinct by case hash.",
    "trusted_base": ["Model/Hds.v is hand-written (correspondence-checked, not proved against Python)"],
    "assumptions": ["file handles behave as io.RawIOBase files (SparseFile stand-in)"],
}
SIG1 = b"WithoutFreeSpace"
SIG2 = b"WithouFreSpacExt"


def build_header(case):
    ver = case["version"]
    if ver == 1:
        size_field = struct.pack("<II", case["size"] // 512, 0)
    else:
        size_field = struct.pack("<Q", case["size"] // 512)
    return (struct.pack("<16sIIIII", SIG1 if ver == 1 else SIG2, 2, 16, 1024, case["m_sectors"], len(case["bat"])) +
            size_field + struct.pack("<IIIQ", 0, case["first_block"], 0, 0))


def gen_case(rng, tier):
    if rng.chance(0.08):
        nsect = rng.pick([1, 7, 16, 1000, 5000])
        c = {"kind": "plain", "size": nsect * 512, "salt": rng.randrange(1 << 30)}
        c["reqs"] = gen_requests(rng, c["size"], 4096, n=4)
        c["reqs"] = [r for r in c["reqs"] if r[0] == "bytes"] or [["bytes", 0, -1]]
        return c
    ver = rng.pick([1, 2])
    ms = rng.weighted([(1, 1), (3, 1), (8, 3), (16, 3), (24, 1), (63, 1), (128, 2), (2048, 1)])
    cs = ms * 512
    maxc = 40 if tier == "thorough" else 12
    n = rng.randint(1, maxc if ms < 2048 else 4)
    cut = rng.weighted([(0, 3), (512 * rng.randrange(0, ms), 3)])
    size = max(512, n * cs - cut)
    if size <= (n - 1) * cs:
        size = (n - 1) * cs + 512
    extra = rng.pick([0, 0, 3])
    mode = rng.weighted([("all", 2), ("none", 1), ("alt", 2), ("rand", 5)])
    present = [{"all": True, "none": False, "alt": b % 2 == 1, "rand": rng.chance(0.55)}[mode] for b in range(n)]
    hdr_clusters = (64 + 4 * (n + extra) + cs - 1) // cs
    place = rng.weighted([("asc", 3), ("desc", 2), ("random", 3), ("gaps", 2), ("coincidence", 3), ("high", 1)])
    idx = [b for b in range(n) if present[b]]
    slots = list(range(len(idx)))
    if place == "desc":
        slots.reverse()
    elif place == "random":
        rng.shuffle(slots)
    elif place == "gaps":
        slots = rng.sample(range(3 * len(idx) + 1), len(idx))
    pos = {}
    for b, s in zip(idx, slots):
        pos[b] = hdr_clusters + s
    if place == "coincidence":
        # cluster b stored at file cluster k where k = number of sparse clusters directly before it (from some start)
        used = set()
        for b in idx:
            k = 0
            while b - 1 - k >= 0 and not present[b - 1 - k]:
                k += 1
            cand = [c for c in range(1, k + 1) if c >= hdr_clusters and c not in used]
            if cand and rng.chance(0.8):
                pos[b] = rng.pick(cand)
            else:
                p = hdr_clusters + len(idx) + b
                while p in used:
                    p += 1
                pos[b] = p
            used.add(pos[b])
    elif place == "high":
        top = ((1 << 32) - 1) // (ms if ver == 1 else 1)
        top = min(top, (1 << 32) - 1) // 1
        base = (top // (1 if ver == 2 else 1)) - len(idx) - 5 if ver == 2 else ((1 << 32) - 1) // ms - len(idx) - 5
        for b, s in zip(idx, slots):
            pos[b] = base + s
    bat = []
    unaligned = ver == 1 and ms > 1 and rng.chance(0.5)      # v1 entries are sector offsets: any sector, not only cluster multiples
    for b in range(n + extra):
        if b in pos:
            bat.append((pos[b] * ms + (rng.randrange(ms) if unaligned else 0)) if ver == 1 else pos[b])
        else:
            bat.append(0)
    top = max(pos.values(), default=hdr_clusters)
    c = {"kind": f"v{ver}", "version": ver, "m_sectors": ms, "size": size, "bat": bat, "first_block": hdr_clusters * ms,
         "file_size": (top + 2) * cs, "place": place, "mode": mode, "salt": rng.randrange(1 << 30)}
    c["reqs"] = gen_requests(rng, size, cs, n=6)
    return c


class HdsSuite(ReaderSuite):
    name = "hds"
    fmt = "hds"
    preamble = ("From Coq Require Import ZArith List.\nImport ListNotations.\nOpen Scope Z_scope.\n"
                "From DH Require Import Base.Plan Base.Table Model.Hds.\n")

    def generate(self, rng, tier):
        n = 1500 if tier == "thorough" else 150
        return [gen_case(rng, tier) for _ in range(n)]

    def build_files(self, case):
        if case["kind"] == "plain":
            return {"file": core.SparseFile(case["size"], {}, salt=case["salt"])}
        chunks = {0: build_header(case), 64: b"".join(struct.pack("<I", e) for e in case["bat"])}
        return {"file": core.SparseFile(case["file_size"], chunks, salt=case["salt"])}

    def open_impl(self, case, files):
        from dissect.hypervisor.disk import hdd
        if case["kind"] == "plain":
            st = hdd.Storage(0, case["size"] // 512, [])
            return hdd.StorageStream([(st, files["file"])])
        return hdd.HDS(files["file"])

    def coq_img(self, case):
        if case["kind"] == "plain":
            return "tt"
        ent = [(i, e) for i, e in enumerate(case["bat"]) if e != 0]
        cs = case["m_sectors"] * 512
        mult = 1 if case["version"] == 1 else case["m_sectors"]
        return (f"{{| h_size := {Z(case['size'])}; h_cs := {Z(cs)}; h_mult := {Z(mult)}; "
                f"h_bat := tbl {zpairs(ent)} 0 {Z(len(case['bat']))}; h_parent := false |}}")

    def model_term(self, case, kind, a, b):
        if kind == "raw" and case["kind"] != "plain":
            cs = case["m_sectors"] * 512
            return f"hds_read img (hds_fuel {Z(b // cs + 2)}) {Z(a)} {Z(b)}"
        return None

    def spec_fn(self, case):
        return "File" if case["kind"] == "plain" else "(hds_src img)"

    def granule(self, case):
        return 512

    def dist(self, case):
        if case["kind"] == "plain":
            return {"kind": "plain"}
        return {"kind": case["kind"], "m_sectors": case["m_sectors"], "place": case["place"], "mode": case["mode"],
                "size_aligned": case["size"] % (case["m_sectors"] * 512) == 0,
                "req_kinds": ",".join(sorted({r[0] for r in case["reqs"]}))}


SUITES = {"hds": HdsSuite()}
