"""C19 — XML descriptors are parsed without entity expansion or external fetches.

The behaviour lives in defusedxml/expat (outside /repo and outside any Gallina model).  What is proved is the
routing: the regenerated inventory Gen/XmlSites.v shows that every XML-consuming entry point calls
defusedxml.ElementTree.fromstring with default arguments, and under the parser contract (a Section hypothesis)
every entry point refuses every entity-declaring document.  This module validates the contract and the
inventory against the real code: hostile documents are fed to the four real entry points under audit hooks
(no open of the referenced file, no socket activity) and resource limits; benign documents must parse exactly
as with the standard library."""
from __future__ import annotations

import os
import re

from harness import core
from harness.main import Finding, Suite

PROPERTY = "C19"
PROPS_FILE = "Props/C19.v"
MODEL_FILES = ["Model/XmlEntry.v", "Model/XmlPredict.v"]
META = {
    "category": "proof",
    "text": "Coq theorems over the regenerated inventory of XML call sites (Gen/XmlSites.v, every module under "
            "dissect/hypervisor): every site is defusedxml.ElementTree.fromstring with one positional argument and no "
            "keyword; exactly the four known entry points; no runtime import of xml.*; no unresolved parser-like call; and, "
            "under the defusedxml contract as an explicit hypothesis, every entry point refuses every entity-declaring "
            "document and parses the others as the standard library does.  The contract and the inventory are validated "
            "against the installed defusedxml and the four real entry points with hostile documents under audit hooks.",
    "design_ref": "DESIGN.md §6 C19",
    "note": "PARTIAL: expat/defusedxml are oracles (hypothesis defused_refuses / defused_benign); the inventory's "
            "soundness rests on the translator's syntactic completeness (aliasing of a parser function through a local "
            "variable makes the site disappear from the list, which breaks C19_four_entry_points); the audit hook is "
            "the dynamic backstop.",
    "technique": "Coq proof over a generated call-site inventory + oracle hypothesis + hostile-document correspondence",
    "rule": "documents: internal entities nested 1..12 (fan-out 2 and 10), quadratic blow-up, external general and "
            "parameter entities with file: and http: targets, external DTD subsets (SYSTEM/PUBLIC), entity in an "
            "attribute default, unparsed (NDATA) entities, declared-but-unused entities, DTD without entities, malformed "
            "documents, benign documents incl. the C18 generators'; each for all four entry points.  Non-trivial = the "
            "document declares an entity or a DTD; distinct by (entry point, document).",
    "trusted_base": ["defusedxml 0.7.1 / expat behaviour (oracle hypothesis, exercised)",
                     "tools/translate_xml.py syntactic call-site inventory",
                     "sys.addaudithook events (open, socket.*) as the observation of fetches"],
    "assumptions": ["defusedxml.ElementTree.fromstring with default arguments raises EntitiesForbidden on any entity "
                    "declaration and otherwise behaves as xml.etree.ElementTree.fromstring"],
}

PRE = ("From Coq Require Import String ZArith List.\nImport ListNotations.\nOpen Scope Z_scope.\n"
       "Open Scope string_scope.\nFrom DH Require Import Model.XmlEntry Gen.XmlSites Model.XmlPredict.\n")

ENTRY_MODULE = {"ovf": "dissect.hypervisor.descriptor.ovf", "vbox": "dissect.hypervisor.descriptor.vbox",
                "pvs": "dissect.hypervisor.descriptor.pvs", "hdd": "dissect.hypervisor.disk.hdd"}
ROOT = {"ovf": "Envelope", "vbox": "VirtualBox", "pvs": "ParallelsVirtualMachine", "hdd": "Parallels_disk_image"}
WORK = os.path.join(core.OUT, "work", "c19")
CANARY = os.path.join(WORK, "c19_canary.txt")
MARKER = "C19-CANARY-CONTENT-7f3a"
GUID = "{5fbaabe3-6958-40ff-92a7-860e329aab41}"


def base_doc(entry, doctype="", ref="", attr_ref=""):
    """a benign document of the entry point's format; `ref` goes into element text, `attr_ref` into an attribute"""
    if entry == "ovf":
        body = ('<Envelope xmlns="http://schemas.dmtf.org/ovf/envelope/1" xmlns:ovf="http://schemas.dmtf.org/ovf/envelope/1" '
                'xmlns:rasd="http://schemas.dmtf.org/wbem/wscim/1/cim-schema/2/CIM_ResourceAllocationSettingData">'
                f'<References><File ovf:id="file1" ovf:href="{attr_ref}disk1.vmdk"/></References>'
                '<DiskSection><Info>disks</Info><Disk ovf:diskId="d1" ovf:fileRef="file1"/></DiskSection>'
                f'<VirtualSystem ovf:id="vm"><Info>{ref}</Info><VirtualHardwareSection><Item>'
                '<rasd:ResourceType>17</rasd:ResourceType><rasd:HostResource>ovf:/disk/d1</rasd:HostResource>'
                '</Item></VirtualHardwareSection></VirtualSystem></Envelope>')
    elif entry == "vbox":
        body = ('<VirtualBox xmlns="http://www.virtualbox.org/"><Machine><MediaRegistry><HardDisks>'
                f'<HardDisk location="{attr_ref}a.vdi" format="VDI" type="Normal"/></HardDisks></MediaRegistry>'
                f'<Description>{ref}</Description></Machine></VirtualBox>')
    elif entry == "pvs":
        body = (f'<ParallelsVirtualMachine schemaVersion="1.0{attr_ref}"><Hardware><Hdd id="0">'
                f'<SystemName>{ref}x.hdd</SystemName></Hdd></Hardware></ParallelsVirtualMachine>')
    else:
        body = (f'<Parallels_disk_image Version="1.0{attr_ref}"><Disk_Parameters><Disk_size>204800</Disk_size></Disk_Parameters>'
                '<StorageData><Storage><Start>0</Start><End>204800</End><Blocksize>2048</Blocksize><Image>'
                f'<GUID>{GUID}</GUID><Type>Compressed</Type><File>{ref}x.hds</File></Image></Storage></StorageData>'
                f'<Snapshots><Shot><GUID>{GUID}</GUID><ParentGUID>{{00000000-0000-0000-0000-000000000000}}</ParentGUID>'
                '</Shot></Snapshots></Parallels_disk_image>')
    return '<?xml version="1.0"?>\n' + doctype + body


def hostile(entry, kind, n=1, fan=10):
    root = ROOT[entry]
    file_url = "file://" + CANARY
    http_url = "http://127.0.0.1:9/c19-canary"
    if kind == "internal-nested":
        decl = ['<!ENTITY a0 "lol">']
        for i in range(1, n):
            decl.append(f'<!ENTITY a{i} "' + f"&a{i - 1};" * fan + '">')
        return base_doc(entry, f"<!DOCTYPE {root} [{''.join(decl)}]>", ref=f"&a{n - 1};")
    if kind == "internal-attr":
        return base_doc(entry, f'<!DOCTYPE {root} [<!ENTITY a0 "lol"><!ENTITY a1 "&a0;&a0;&a0;">]>', attr_ref="&a1;")
    if kind == "quadratic":
        return base_doc(entry, f'<!DOCTYPE {root} [<!ENTITY big "{"A" * 5000}">]>', ref="&big;" * 200)
    if kind in ("ext-general-file", "ext-general-http"):
        url = file_url if kind.endswith("file") else http_url
        return base_doc(entry, f'<!DOCTYPE {root} [<!ENTITY x SYSTEM "{url}">]>', ref="&x;")
    if kind == "ext-general-public":
        return base_doc(entry, f'<!DOCTYPE {root} [<!ENTITY x PUBLIC "-//C19//x" "{file_url}">]>', ref="&x;")
    if kind in ("ext-param-file", "ext-param-http"):
        url = file_url if kind.endswith("file") else http_url
        return base_doc(entry, f'<!DOCTYPE {root} [<!ENTITY % p SYSTEM "{url}"> %p;]>')
    if kind == "param-internal":
        return base_doc(entry, f'<!DOCTYPE {root} [<!ENTITY % p "<!ENTITY q \'v\'>"> %p;]>', ref="&q;")
    if kind in ("ext-dtd-file", "ext-dtd-http"):
        url = file_url if kind.endswith("file") else http_url
        return base_doc(entry, f'<!DOCTYPE {root} SYSTEM "{url}">')
    if kind == "ext-dtd-public":
        return base_doc(entry, f'<!DOCTYPE {root} PUBLIC "-//C19//DTD//EN" "{http_url}.dtd">')
    if kind == "attr-default":
        return base_doc(entry, f'<!DOCTYPE {root} [<!ENTITY e "v"><!ATTLIST {root} extra CDATA "&e;">]>')
    if kind == "unparsed":
        return base_doc(entry, f'<!DOCTYPE {root} [<!NOTATION gif SYSTEM "viewer"><!ENTITY pic SYSTEM "{file_url}" NDATA gif>]>')
    if kind == "declared-unused":
        return base_doc(entry, f'<!DOCTYPE {root} [<!ENTITY unused "x">]>')
    if kind == "dtd-no-entity":
        return base_doc(entry, f"<!DOCTYPE {root} [<!ELEMENT {root} ANY><!-- no entity -->]>")
    if kind == "attlist-defaults":
        # an internal subset that declares no entity, only attribute defaults the document relies on (the disk's type and
        # format in a .vbox, an attribute of the root elsewhere): such a document parses as usual, defaults included
        leaf = {"ovf": "File", "vbox": "HardDisk", "pvs": "Hdd", "hdd": "Storage"}[entry]
        doc = base_doc(entry, f'<!DOCTYPE {root} [<!ATTLIST {root} extra CDATA "dflt">'
                              f'<!ATTLIST {leaf} type CDATA "Normal" format CDATA "VDI">]>')
        return doc.replace(' format="VDI" type="Normal"', "")
    if kind == "malformed":
        return base_doc(entry)[:-9]
    if kind == "malformed-entity-ref":
        return base_doc(entry, ref="&undefined;")
    if kind == "benign":
        return base_doc(entry)
    if kind == "benign-charrefs":
        # no DTD: the five predefined entities and numeric character references, in text and in attribute values
        return base_doc(entry, ref="R&#38;D&#x20;&amp;&lt;&gt;&quot;&apos;&#233;&#x4E2D;", attr_ref="a&#38;b&#x20;&amp;&#32;")
    if kind == "benign-mentions":
        # no DTD either: the text merely mentions markup declarations, in a comment, in CDATA and in a processing instruction
        return base_doc(entry, ref="<!-- <!ENTITY x \"y\"> <!DOCTYPE z> --><![CDATA[<!ENTITY a \"b\"> & &#38; &bogus;]]>"
                                   "<?note <!ENTITY c \"d\"> ?>")
    raise ValueError(kind)


def declares_entity(doc):
    """an entity declaration in the DTD — not the characters '<!ENTITY' inside a comment, a CDATA section or a processing
    instruction of the document body"""
    bare = re.sub(r"<!--.*?-->|<!\[CDATA\[.*?\]\]>|<\?.*?\?>", " ", doc, flags=re.S)
    return re.search(r"<!ENTITY\b", bare) is not None


def well_formed(kind):
    return not kind.startswith("malformed")


# ----------------------------------------------------------------------------- worker side
_STATE = {"installed": False, "on": False, "events": [], "calls": [], "trees": []}
SOCKETY = ("socket.connect", "socket.getaddrinfo", "socket.gethostbyname", "socket.gethostbyaddr", "socket.sendto",
           "socket.bind", "urllib.Request", "http.client.connect", "ftplib.connect", "subprocess.Popen", "os.system")


def _install():
    import sys
    if _STATE["installed"]:
        return
    # import everything first so that module loading does not show up as open() events
    import xml.etree.ElementTree  # noqa: F401
    import defusedxml.ElementTree as DET
    import dissect.hypervisor.descriptor.ovf  # noqa: F401
    import dissect.hypervisor.descriptor.pvs  # noqa: F401
    import dissect.hypervisor.descriptor.vbox  # noqa: F401
    import dissect.hypervisor.disk.hdd  # noqa: F401

    def hook(event, args):
        if not _STATE["on"]:
            return
        if event == "open":
            p = args[0]
            if isinstance(p, (bytes, bytearray)):
                p = p.decode("utf-8", "replace")
            if isinstance(p, str) and "c19_canary" in p:
                _STATE["events"].append(("open", p))
        elif event in SOCKETY or event.startswith("socket."):
            _STATE["events"].append((event, repr(args)[:120]))

    sys.addaudithook(hook)
    orig = DET.fromstring

    def counted(*a, **k):
        _STATE["calls"].append([len(a), sorted(k)])
        r = orig(*a, **k)
        _STATE["trees"].append(r)
        return r

    DET.fromstring = counted
    _STATE["installed"] = True


def dump_tree(e):
    return [e.tag, [[k, v] for k, v in e.attrib.items()], e.text, e.tail, [dump_tree(k) for k in e]]


def run_entry(entry, doc, enc=None, how=None):
    """-> (kind, exc name, dumped tree | None); enc: the document reaches the entry point as bytes in that encoding
    through a binary handle (BOMs included) instead of as text"""
    import io
    import pathlib
    import xml.etree.ElementTree as ET

    import defusedxml
    if entry == "hdd":
        d = os.path.join(WORK, f"w{os.getpid()}")
        os.makedirs(d, exist_ok=True)
        p = pathlib.Path(d) / "DiskDescriptor.xml"
        bak = pathlib.Path(d) / "DiskDescriptor.xml.Backup"
        if bak.exists():
            bak.unlink()
        if how == "swap":
            # a harmless descriptor is read first; the file is then replaced by `doc` of the same size and timestamps
            from dissect.hypervisor.disk.hdd import Descriptor
            harmless = hostile("hdd", "benign")
            harmless += "\n" * (len(doc.encode()) - len(harmless.encode()))
            p.write_text(harmless)
            st = p.stat()
            for _ in range(2):
                try:
                    Descriptor(p)
                except Exception:  # noqa: BLE001
                    pass
            p.write_text(doc + "\n" * (len(harmless.encode()) - len(doc.encode())))
            os.utime(p, ns=(st.st_atime_ns, st.st_mtime_ns))
        else:
            p.write_text(doc)
        if how == "backup":
            # the previous (harmless) version of the descriptor that Parallels keeps next to it
            bak.write_text(hostile("hdd", "benign"))
    _STATE["events"], _STATE["calls"], _STATE["trees"] = [], [], []
    _STATE["on"] = True
    try:
        handle = io.StringIO(doc) if enc is None else io.BytesIO(doc.encode(enc))
        if entry == "ovf":
            from dissect.hypervisor.descriptor.ovf import OVF
            tree = OVF(handle).xml
        elif entry == "vbox":
            from dissect.hypervisor.descriptor.vbox import VBox
            tree = VBox(handle)._xml
        elif entry == "pvs":
            from dissect.hypervisor.descriptor.pvs import PVS
            tree = PVS(handle)._xml
        elif how == "backup":
            from dissect.hypervisor.disk.hdd import HDD
            tree = HDD(p.parent).descriptor.xml
        else:
            from dissect.hypervisor.disk.hdd import Descriptor
            tree = Descriptor(p).xml
        return "parsed", None, dump_tree(tree)
    except defusedxml.DefusedXmlException as e:
        return "refused", type(e).__name__, None
    except ET.ParseError as e:
        return "malformed", type(e).__name__, None
    except Exception as e:  # noqa: BLE001
        if _STATE["trees"]:
            # the document was parsed; the constructor failed afterwards for a reason that is not C19's (see C18/C14)
            return "parsed", f"after parsing: {type(e).__name__}", dump_tree(_STATE["trees"][-1])
        return "exc", f"{type(e).__name__}: {str(e)[:120]}", None
    finally:
        _STATE["on"] = False


class HostileSuite(Suite):
    name = "entry"
    shard = 200
    preamble = PRE
    per_case_timeout = 20.0
    mem_mb = 1024

    def generate(self, rng, tier):
        os.makedirs(WORK, exist_ok=True)
        with open(CANARY, "w") as fh:
            fh.write(MARKER)
        with open(CANARY + ".dtd", "w") as fh:
            fh.write(f'<!ENTITY leaked "{MARKER}">')
        cases = []
        for entry in ENTRY_MODULE:
            for n in range(1, 13):
                cases.append({"entry": entry, "kind": "internal-nested", "n": n, "fan": 10})
            for n in (1, 2, 5, 12):
                cases.append({"entry": entry, "kind": "internal-nested", "n": n, "fan": 2})
            for kind in ("internal-attr", "quadratic", "ext-general-file", "ext-general-http", "ext-general-public",
                         "ext-param-file", "ext-param-http", "param-internal", "ext-dtd-file", "ext-dtd-http",
                         "ext-dtd-public", "attr-default", "unparsed", "declared-unused", "dtd-no-entity", "attlist-defaults", "malformed",
                         "malformed-entity-ref", "benign", "benign-charrefs", "benign-mentions"):
                cases.append({"entry": entry, "kind": kind})
        for c in cases:
            c["doc"] = hostile(c["entry"], c["kind"], c.get("n", 1), c.get("fan", 10))
        # placement variants: the entity-declaring DTD far into the prolog (behind a long comment), and documents
        # with padding in front of the XML declaration (malformed, but must never be "recovered" by a laxer parser)
        for entry in ENTRY_MODULE:
            base = hostile(entry, "internal-nested", 3, 10)
            for pad in (4000, 4096, 5000, 70000):
                doc = base.replace('<?xml version="1.0"?>\n', '<?xml version="1.0"?>\n<!--' + "x" * pad + "-->", 1)
                cases.append({"entry": entry, "kind": "late-doctype", "n": pad, "doc": doc})
            for lead in ("\n", "   ", "\x00\x00", "\ufeff\n", "\n\n\t"):
                cases.append({"entry": entry, "kind": "malformed-leading-pad", "doc": lead + base})
                cases.append({"entry": entry, "kind": "malformed-leading-pad-ext", "doc": lead + hostile(entry, "ext-general-file")})
        # the same documents as bytes through a binary handle, with and without byte order marks
        for entry in ("ovf", "vbox", "pvs"):
            for enc in ("utf-8", "utf-8-sig", "utf-16"):
                for kind, n in (("internal-nested", 3), ("ext-general-file", 1), ("ext-dtd-file", 1), ("benign", 1)):
                    cases.append({"entry": entry, "kind": kind, "n": n, "enc": enc, "doc": hostile(entry, kind, n, 10)})
        # the descriptor of a disk bundle: re-read after the file was replaced under the same size and timestamps, and
        # opened through the bundle with the writer's backup copy next to it (every read of every file is hardened)
        for how in ("swap", "backup"):
            for kind, n in (("internal-nested", 3), ("internal-attr", 1), ("ext-general-file", 1), ("ext-dtd-file", 1),
                            ("ext-param-file", 1), ("benign", 1)):
                cases.append({"entry": "hdd", "kind": kind, "n": n, "how": how, "doc": hostile("hdd", kind, n, 10)})
        # the hardened parser is not optional: with defusedxml unimportable the entry points must not fall back to a
        # parser that expands entities (a fresh interpreter per entry point)
        for entry in ENTRY_MODULE:
            cases.append({"entry": entry, "kind": "no-defusedxml", "doc": hostile(entry, "internal-nested", 3, 10)})
        # benign documents of the C18 generators must parse as before
        from harness.props import c18
        nb = 120 if tier == "thorough" else 12
        for i in range(nb):
            cases.append({"entry": "ovf", "kind": "benign-gen", "doc": c18.gen_ovf(rng, tier, False)["xml"]})
            cases.append({"entry": "vbox", "kind": "benign-gen", "doc": c18.gen_vbox(rng, tier, False)["xml"]})
            cases.append({"entry": "pvs", "kind": "benign-gen", "doc": c18.gen_pvs(rng, tier, False)["xml"]})
        if tier == "thorough":
            extra = []
            for c in cases:
                if c["kind"] not in ("benign-gen",) and declares_entity(c["doc"]):
                    # the same hostile DTD in front of the generators' documents
                    pass
            cases += extra
        return cases

    def impl(self, case):
        import time
        _install()
        t0 = time.time()
        if case["kind"] == "no-defusedxml":
            return self.impl_nodefused(case)
        kind, exc, tree = run_entry(case["entry"], case["doc"], case.get("enc"), case.get("how"))
        out = {"kind": kind, "exc": exc, "events": list(_STATE["events"]), "calls": list(_STATE["calls"]),
               "elapsed": round(time.time() - t0, 3), "leak": False, "expanded": False, "same_as_stdlib": None}
        if tree is not None:
            flat = core.jdump(tree)
            out["leak"] = MARKER in flat
            out["expanded"] = "lol" in flat or "AAAAAAAAAA" in flat
            if not declares_entity(case["doc"]):
                import xml.etree.ElementTree as ET
                try:
                    raw = case["doc"] if not case.get("enc") else case["doc"].encode(case["enc"])
                    out["same_as_stdlib"] = dump_tree(ET.fromstring(raw)) == tree
                except Exception as e:  # noqa: BLE001
                    out["same_as_stdlib"] = f"stdlib raised {type(e).__name__}"
        return out

    def impl_nodefused(self, case):
        import subprocess
        import sys
        script = (
            "import sys, io, os, pathlib, tempfile\n"
            "sys.modules['defusedxml'] = None\n"
            "doc = sys.stdin.read()\n"
            "entry = sys.argv[1]\n"
            "try:\n"
            "    if entry == 'ovf':\n"
            "        from dissect.hypervisor.descriptor.ovf import OVF; t = OVF(io.StringIO(doc)).xml\n"
            "    elif entry == 'vbox':\n"
            "        from dissect.hypervisor.descriptor.vbox import VBox; t = VBox(io.StringIO(doc))._xml\n"
            "    elif entry == 'pvs':\n"
            "        from dissect.hypervisor.descriptor.pvs import PVS; t = PVS(io.StringIO(doc))._xml\n"
            "    else:\n"
            "        from dissect.hypervisor.disk.hdd import Descriptor\n"
            "        d = tempfile.mkdtemp(); p = pathlib.Path(d) / 'DiskDescriptor.xml'; p.write_text(doc)\n"
            "        t = Descriptor(p).xml\n"
            "except ImportError as e:\n"
            "    print('IMPORT-FAILED'); sys.exit(0)\n"
            "except Exception as e:\n"
            "    print('REFUSED', type(e).__name__); sys.exit(0)\n"
            "import xml.etree.ElementTree as ET\n"
            "flat = ET.tostring(t, encoding='unicode')\n"
            "print('EXPANDED' if ('lol' in flat or 'AAAAAAAAAA' in flat) else 'PARSED')\n")
        env = dict(os.environ, PYTHONPATH=core.REPO, PYTHONDONTWRITEBYTECODE="1")
        try:
            r = subprocess.run([sys.executable, "-c", script, case["entry"]], input=case["doc"], capture_output=True, text=True,
                               timeout=60, env=env)
            verdict = (r.stdout.strip().split("\n") or ["?"])[-1] if r.returncode == 0 else "CRASH " + r.stderr.strip()[-200:]
        except subprocess.TimeoutExpired:
            verdict = "TIMEOUT"
        return {"kind": "nodefused", "verdict": verdict, "exc": None, "events": [], "calls": [], "leak": False,
                "expanded": verdict.startswith("EXPANDED"), "same_as_stdlib": None}

    def coq_term(self, case):
        if case["kind"] == "no-defusedxml":
            return None
        decl = declares_entity(case["doc"])
        wf = well_formed(case["kind"])
        return f'predict "{ENTRY_MODULE[case["entry"]]}" {core.cbool(decl)} {core.cbool(wf)}'

    def judge(self, case, impl_res, coq_val):
        entry, kind = case["entry"], case["kind"]
        sig = f"xml:{entry}:{kind}" + (f":{case['how']}" if case.get("how") else "")
        if impl_res.get("outcome"):
            return [Finding("impl_fault", f"{entry} entry point {impl_res['outcome']} on a {kind} document "
                            f"({impl_res.get('detail', '')})", sig + ":" + impl_res["outcome"])]
        if kind == "no-defusedxml":
            v = impl_res["verdict"]
            if v.startswith("IMPORT-FAILED") or v.startswith("REFUSED"):
                return []
            return [Finding("impl_vs_spec", f"{entry}: with defusedxml unimportable an entity-declaring document is {v} "
                            "(required: the import fails or the document is refused)", sig + ":fallback")]
        fs = []
        decl = declares_entity(case["doc"])
        wf = well_formed(kind)
        spec = 3 if not wf else (2 if decl else 0)
        got = {"parsed": 1 if impl_res["expanded"] or (decl and impl_res["kind"] == "parsed") else 0,
               "refused": 2, "malformed": 3, "exc": 5}[impl_res["kind"]]
        model = coq_val
        if impl_res["events"]:
            fs.append(Finding("impl_vs_spec", f"{entry}: fetch attempted while parsing a {kind} document: {impl_res['events'][:3]}",
                              sig + ":fetch"))
        if impl_res["leak"]:
            fs.append(Finding("impl_vs_spec", f"{entry}: content of the referenced local file appears in the tree ({kind})",
                              sig + ":leak"))
        if got != spec:
            fs.append(Finding("impl_vs_spec", f"{entry}: {kind} document (declares entity: {decl}) -> {impl_res['kind']} "
                              f"{impl_res['exc'] or ''} expanded={impl_res['expanded']}; required: "
                              f"{ {0: 'parsed as usual', 2: 'refused', 3: 'rejected as malformed'}[spec]}", sig + ":outcome"))
        if spec == 0 and impl_res["kind"] == "parsed" and impl_res["same_as_stdlib"] is not True:
            fs.append(Finding("impl_vs_spec", f"{entry}: benign document does not parse as with the standard library: "
                              f"{impl_res['same_as_stdlib']}", sig + ":benign-differs"))
        if model != spec:
            fs.append(Finding("model_vs_spec", f"model predicts {model} for {entry}/{kind}, the property requires {spec}",
                              sig + ":model"))
        if not fs and got != model:
            fs.append(Finding("impl_vs_model", f"{entry}/{kind}: implementation {got}, model {model}", sig + ":tie"))
        if model in (0, 2, 3) and impl_res["calls"] != [[1, []]] and not fs:
            fs.append(Finding("impl_vs_model", f"{entry}: defusedxml.ElementTree.fromstring calls {impl_res['calls']} "
                              f"(inventory: one call, one positional argument, no keyword)", sig + ":calls"))
        return fs

    def nontrivial(self, case, impl_res, coq_val):
        if "<!DOCTYPE" in case["doc"]:
            return core.sha((case["entry"] + case.get("how", "") + case["doc"]).encode())
        return None

    def dist(self, case):
        return {"entry": case["entry"], "kind": case["kind"], "declares_entity": declares_entity(case["doc"]),
                "depth": case.get("n", 0)}

    def describe(self, case):
        c = dict(case)
        if len(c["doc"]) > 3000:
            c["doc"] = c["doc"][:3000] + "..."
        return c


SUITES = {"entry": HostileSuite()}


def static_check(ctx):
    """Positive control: the hostile documents really are hostile for the standard-library parser (so a refusal by
    the entry points is not vacuous), and the installed defusedxml refuses them."""
    import xml.etree.ElementTree as ET
    fs = []
    os.makedirs(WORK, exist_ok=True)
    doc = hostile("pvs", "internal-nested", 3, 10)
    try:
        t = ET.fromstring(doc)
        text = "".join(t.itertext())
        if text.count("lol") != 100:
            fs.append(Finding("coq_error", f"control: xml.etree did not expand the nested entities ({text.count('lol')})",
                              "c19:control"))
    except Exception as e:  # noqa: BLE001
        fs.append(Finding("coq_error", f"control: xml.etree raised {type(e).__name__} on the nested-entity document",
                          "c19:control"))
    try:
        from defusedxml import ElementTree as DET
        from defusedxml import EntitiesForbidden
        try:
            DET.fromstring(doc)
            fs.append(Finding("coq_error", "control: defusedxml accepted an entity-declaring document", "c19:control"))
        except EntitiesForbidden:
            pass
    except ImportError as e:
        fs.append(Finding("coq_error", f"control: defusedxml not importable: {e}", "c19:control"))
    return fs
