"""C14 — Exposed image metadata and parent references equal what the file stores.

Five suites, one per metadata family.  Every case is a *record* (the specification side: what the
file is meant to store), rendered into an image / document by the serialisers below (written against
the format documents, independent of dissect.cstruct), opened by the implementation, and decoded by
the Gallina model (coq/Model/Meta*.v) from the same bytes.  Three-way comparison of the exposed values.
"""
from __future__ import annotations

import importlib.util
import os
import shutil
import struct
import tempfile

from harness import core
from harness.core import Z
from harness.main import Finding, Suite

PROPERTY = "C14"
PROPS_FILE = "Props/C14.v"
MODEL_FILES = ["Model/MetaCodec.v", "Model/MetaQcow2.v", "Model/MetaVhdx.v", "Model/MetaVmdk.v",
               "Model/MetaHdrs.v", "Model/MetaHdd.v", "Model/MetaView.v"]
META = {
    "category": "proof",
    "text": "Coq theorems: the generic struct decoder inverts the encoder for every generated layout (sizes pinned to "
            "the constants the code relies on); the QCOW2 extension walk and snapshot-table reader return exactly "
            "the rendered extensions / snapshots for every count and length; the VHDX active header is the copy with "
            "the highest sequence number, region/metadata lookup and the parent locator return the stored entries; "
            "VMDK descriptor key/values and extent lines, and the Parallels descriptor (incl. TopGUID) decode to the "
            "rendered record. The models are tied to the code by generated layouts/constants and by differential "
            "correspondence (implementation vs model vs record) on generated images and documents.",
    "design_ref": "DESIGN.md §6 C14",
    "note": "Trusted: Coq kernel; hand-written models Model/Meta*.v validated against the code only on the generated "
            "cases; Gen/Layouts.v, Gen/Consts.v from the translator; Python's UTF-8/UTF-16 codecs, str.upper, int(), "
            "uuid.UUID and the XML parser as oracles (executable Gallina stand-ins are correspondence-checked).",
    "technique": "Coq proof of decode∘encode = id + differential correspondence model/implementation/record",
    "rule": "records: field values from {0,1,max,random}; 0..20 QCOW2 extensions of lengths 0..300 (non-multiples of 8, "
            "fillers up to the cluster), end marker / exact fill / garbage after the marker, v2 and v3 headers of "
            "length 72/104/112/120+, 0..10 snapshots with extra data 0/16/24/32/40; VHDX header pairs with every "
            "ordering of sequence numbers, shuffled metadata items, 0..12 locator entries in BMP/astral UTF-16; VMDK "
            "descriptors of 0..40 lines with quoted values, spaces, CRLF, every extent type, embedded descriptors in "
            "the three sparse header kinds; Parallels documents with 1..4 storages, 0..5 images, 0..6 shots, with and "
            "without TopGUID; VHD/VDI/HDS headers. A separate malformed stream compares implementation and model "
            "only. Non-trivial = at least two variable-length items or a non-ASCII string; distinct by record.",
    "trusted_base": ["Model/Meta*.v are hand-written (correspondence-checked, not proved against Python)",
                     "harness serialisers (independent of cstruct)"],
    "assumptions": ["file handles behave as io.RawIOBase files (SparseFile stand-in)",
                    "codecs / int / UUID / XML parser behave as Python's on the generated alphabets"],
}

HAS_ZSTD = importlib.util.find_spec("zstandard") is not None
SCRATCH = "/work/tmp_c14"


# ============================================================================ common helpers
def bterm(b: bytes) -> str:
    """bytes -> Gallina `list Z`, long runs as `rp byte n`."""
    parts, lit = [], []
    i, n = 0, len(b)
    while i < n:
        j = i
        while j < n and b[j] == b[i]:
            j += 1
        if j - i >= 24:
            if lit:
                parts.append("[" + "; ".join(map(str, lit)) + "]")
                lit = []
            parts.append(f"rp {b[i]} {j - i}")
        else:
            lit.extend(b[i:j])
        i = j
    if lit:
        parts.append("[" + "; ".join(map(str, lit)) + "]")
    if not parts:
        return "[]"
    return "(" + " ++ ".join(parts) + ")"


def cps(s: str) -> str:
    return "[" + "; ".join(str(ord(c)) for c in s) + "]"


def rd_term(chunks: dict, size: int) -> str:
    items = "; ".join(f"({Z(o)}, {bterm(b)})" for o, b in sorted(chunks.items()))
    return f"(sparse_rd [{items}] {Z(size)})"


def tup(v):
    """parsed Coq tuple -> list of components"""
    if isinstance(v, tuple) and v and v[0] == "":
        return list(v[1:])
    raise ValueError(f"not a tuple: {v!r}")


def opt(v, f=lambda x: x):
    if v == "None":
        return None
    if isinstance(v, tuple) and v[0] == "Some":
        return f(v[1])
    raise ValueError(f"not an option: {v!r}")


def s_of(l):
    return "".join(chr(c) for c in l)


def b_of(l):
    return bytes(l)


def boolv(v):
    return {"true": True, "false": False}[v]


def rec_of(v):
    """parsed Coq `record` -> dict name -> int | bytes"""
    out = {}
    for item in v:
        _, name, val = item
        out[name] = val[1] if val[0] == "VInt" else bytes(val[1])
    return out


def res_map(v, f):
    r = core.res_of(v)
    if r[0] == "ok":
        return ("ok", f(r[1]))
    return r


def diff(a, b, path=""):
    """first difference between two plain structures, or None"""
    if isinstance(a, dict) and isinstance(b, dict):
        for k in sorted(set(a) | set(b), key=str):
            if k not in a or k not in b:
                return f"{path}.{k}: present only on one side"
            d = diff(a[k], b[k], f"{path}.{k}")
            if d:
                return d
        return None
    if isinstance(a, (list, tuple)) and isinstance(b, (list, tuple)):
        if len(a) != len(b):
            return f"{path}: length {len(a)} != {len(b)}"
        for i, (x, y) in enumerate(zip(a, b)):
            d = diff(x, y, f"{path}[{i}]")
            if d:
                return d
        return None
    if type(a) is bool or type(b) is bool:
        return None if bool(a) == bool(b) and type(a) is type(b) else f"{path}: {a!r} != {b!r}"
    if a != b:
        return f"{path}: {a!r:.120} != {b!r:.120}"
    return None


def guard(fn):
    """run an implementation step; exceptions become ('exc', name, where)"""
    import traceback
    try:
        return ("ok", fn())
    except MemoryError:
        raise
    except Exception as e:  # noqa: BLE001
        where = ""
        for fr in reversed(traceback.extract_tb(e.__traceback__)):
            if "dissect" in fr.filename:
                where = f"{os.path.basename(fr.filename)}:{fr.name}"
                break
        return ("exc", type(e).__name__, where, str(e)[:160])


def three_way(fmt, case, impl, model, spec, fs, label="open"):
    """impl/model: ('ok', value) | ('exc', ...) | ('err',) | ('fuel',); spec: value or None (malformed case)."""
    sig = f"{fmt}:{label}"
    if model[0] == "fuel":
        fs.append(Finding("model_vs_spec", f"{fmt} {label}: model ran out of fuel", sig + ":fuel"))
        return
    if spec is not None:
        if impl[0] == "ok":
            d = diff(impl[1], spec)
            if d:
                fs.append(Finding("impl_vs_spec", f"{fmt} {label}: exposed value differs from the stored record at {d}",
                                  sig + ":value:" + d.split(":")[0].split("[")[0]))
        else:
            fs.append(Finding("impl_vs_spec", f"{fmt} {label}: implementation raised {impl[1]} at {impl[2]} ({impl[3]}) "
                              f"on a well-formed input", sig + f":exc:{impl[1]}"))
        if model[0] == "ok":
            d = diff(model[1], spec)
            if d:
                fs.append(Finding("model_vs_spec", f"{fmt} {label}: model differs from the record at {d}", sig + ":mvs"))
        else:
            fs.append(Finding("model_vs_spec", f"{fmt} {label}: model predicts an exception on a well-formed input",
                              sig + ":mvs-err"))
    if impl[0] == "ok" and model[0] == "ok":
        d = diff(impl[1], model[1])
        if d:
            fs.append(Finding("impl_vs_model", f"{fmt} {label}: implementation differs from the model at {d}",
                              sig + ":ivm"))
    elif impl[0] == "ok" and model[0] == "err":
        fs.append(Finding("impl_vs_model", f"{fmt} {label}: model predicts an exception, implementation returned a value",
                          sig + ":model-err-impl-ok"))
    elif impl[0] == "exc" and model[0] == "ok":
        fs.append(Finding("impl_vs_model", f"{fmt} {label}: implementation raised {impl[1]} at {impl[2]} ({impl[3]}), "
                          f"model returns a value", sig + ":model-ok-impl-exc"))


def fault(fmt, impl_res):
    if isinstance(impl_res, dict) and impl_res.get("outcome"):
        return [Finding("impl_fault" if impl_res["outcome"] in ("hang", "crash", "oom") else "impl_vs_model",
                        f"{fmt}: implementation {impl_res['outcome']}: {impl_res.get('detail', impl_res.get('msg', ''))}",
                        f"{fmt}:open:{impl_res['outcome']}")]
    return None


# text pools -------------------------------------------------------------------------------
BMP = "äöüßéñçøÅЖдяλΩאבگ中文日本語한글…€"
ASTRAL = "😀🚀𝔘𐍈🜚"
COMBINING = "éäñ"


def rand_text(rng, n, pool="mixed", extra=""):
    base = "abcdefghijklmnopqrstuvwxyzABCDEFGHIJKLMNOPQRSTUVWXYZ0123456789_-." + extra
    out = []
    for _ in range(n):
        k = rng.random()
        if pool == "ascii" or k < 0.7:
            out.append(rng.pick(base))
        elif k < 0.88:
            out.append(rng.pick(BMP))
        elif k < 0.95:
            out.append(rng.pick(ASTRAL))
        else:
            out.append(rng.pick(COMBINING))
    return "".join(out)


def rand_int(rng, bits):
    return rng.weighted([(0, 1), (1, 1), ((1 << bits) - 1, 1), (rng.getrandbits(bits), 4),
                         (rng.getrandbits(max(1, bits // 2)), 2)])


def nonascii(s):
    return any(ord(c) > 127 for c in s)


# ============================================================================ QCOW2
Q_MAGIC = 0x514649FB
EXT_BACKING, EXT_FEATURE, EXT_CRYPTO, EXT_BITMAPS, EXT_DATA = 0xE2792ACA, 0x6803F857, 0x0537BE77, 0x23852875, 0x44415441
KNOWN_EXT = {EXT_BACKING, EXT_FEATURE, EXT_CRYPTO, EXT_BITMAPS, EXT_DATA}


def q_header_bytes(c):
    h = struct.pack(">IIQIIQIIQQIIQ", c["magic"], c["version"], c["backing_file_offset"], c["backing_file_size"],
                    c["cluster_bits"], c["size"], c["crypt_method"], c["l1_size"], c["l1_table_offset"],
                    c["refcount_table_offset"], c["refcount_table_clusters"], c["nb_snapshots"], c["snapshots_offset"])
    assert len(h) == 72
    if c["version"] == 2 and not c.get("v2_long"):
        return h
    t = struct.pack(">QQQIIB", c["incompat"], c["compat"], c["autoclear"], c["refcount_order"], c["header_length"],
                    c["compression_type"]) + b"\x00" * 7
    full = h + t
    hl = c["header_length"]
    if hl <= len(full):
        return full[:max(72, hl)] if hl >= 72 else full
    return full + bytes.fromhex(c.get("header_pad", "")).ljust(hl - len(full), b"\x00")[:hl - len(full)]


def q_ext_bytes(exts):
    out = b""
    for magic, payload_hex, *rest in exts:
        p = bytes.fromhex(payload_hex) if isinstance(payload_hex, str) else bytes([payload_hex[0]]) * payload_hex[1]
        ln = rest[0] if rest else len(p)       # malformed stream may lie about the length
        out += struct.pack(">II", magic, ln) + p + b"\x00" * (-len(p) % 8)
    return out


def q_payload(e):
    p = e[1]
    return bytes.fromhex(p) if isinstance(p, str) else bytes([p[0]]) * p[1]


def q_snap_bytes(snaps):
    out = b""
    for s in snaps:
        idb = bytes.fromhex(s["id"])
        nmb = bytes.fromhex(s["name"])
        extra = bytes.fromhex(s["extra"])
        b = struct.pack(">QIHHIIQII", s["l1_table_offset"], s["l1_size"], s.get("id_size", len(idb)),
                        s.get("name_size", len(nmb)), s["date_sec"], s["date_nsec"], s["vm_clock_nsec"],
                        s["vm_state_size"], s.get("extra_size", len(extra))) + extra + idb + nmb
        if not s.get("nopad"):
            b += b"\x00" * (-len(b) % 8)
        out += b
    return out


def q_build(c):
    """-> (chunks, size)"""
    chunks = {}
    first = q_header_bytes(c) + q_ext_bytes(c["exts"])
    if c["end"] in ("marker", "garbage"):
        first += b"\x00" * 8
    if c["end"] == "garbage":
        first += bytes.fromhex(c["garbage"])
    if c.get("first_override") is not None:
        first = bytes.fromhex(c["first_override"])
    chunks[0] = first
    if c["backing"] is not None:
        chunks[c["backing_file_offset"]] = bytes.fromhex(c["backing"])
    if c["snaps"]:
        chunks[c["snapshots_offset"]] = q_snap_bytes(c["snaps"])
    size = c["file_size"]
    return chunks, size


def q_file(c):
    chunks, size = q_build(c)
    return core.SparseFile(size, chunks, fill="zero")


def q_gen(rng, tier, malformed=False):
    version = rng.weighted([(3, 6), (2, 3)])
    cb = rng.weighted([(9, 3), (10, 2), (12, 2), (14, 1), (16, 2)])
    cs = 1 << cb
    c = {"magic": Q_MAGIC, "version": version, "cluster_bits": cb, "size": rand_int(rng, 48), "crypt_method": 0,
         "l1_size": rand_int(rng, 20), "l1_table_offset": rand_int(rng, 40) & ~511,
         "refcount_table_offset": rand_int(rng, 40) & ~511, "refcount_table_clusters": rand_int(rng, 10),
         "compat": rand_int(rng, 3), "autoclear": rand_int(rng, 2), "refcount_order": 4, "compression_type": 0,
         "incompat": 0, "malformed": None}
    if version == 3:
        hl = rng.weighted([(104, 3), (112, 5), (120, 1), (128, 1), (200, 1)])
        inc = rng.weighted([(0, 5), (1, 1), (2, 1), (4, 2), (16 if cb >= 14 else 0, 1), (8, 1)])
        c["incompat"] = inc
        c["header_length"] = hl
        if hl > 112:
            c["header_pad"] = rng.randbytes(hl - 112).hex()
    else:
        hl = 72
        c["header_length"] = 72
    # extensions
    maxn = 20 if tier == "thorough" else 8
    n = rng.weighted([(0, 2), (1, 3), (2, 3), (rng.randint(3, maxn), 3)])
    kinds = []
    avail = ["backing_format", "feature", "bitmaps", "crypto"] + (["data_file"] if c["incompat"] & 4 else [])
    rng.shuffle(avail)
    for _ in range(n):
        if avail and rng.chance(0.6):
            kinds.append(avail.pop())
        else:
            kinds.append("unknown")
    if version == 2 and n and "backing_format" not in kinds and rng.chance(0.7):
        kinds[0] = "backing_format"     # the classic v2 image: a backing format extension right after byte 72
    exts = []
    for k in kinds:
        if k == "backing_format":
            s = rng.pick(["qcow2", "raw", "QCOW2", "vmdk", "Raw", rand_text(rng, rng.randint(1, 12))])
            exts.append([EXT_BACKING, s.encode().hex()])
        elif k == "feature":
            exts.append([EXT_FEATURE, rng.randbytes(48 * rng.randint(0, 4)).hex()])
        elif k == "bitmaps":
            exts.append([EXT_BITMAPS, struct.pack(">IIQQ", rand_int(rng, 32), rand_int(rng, 32), rand_int(rng, 64),
                                                  rand_int(rng, 64)).hex()])
        elif k == "crypto":
            exts.append([EXT_CRYPTO, struct.pack(">QQ", rand_int(rng, 64), rand_int(rng, 64)).hex()])
        elif k == "data_file":
            exts.append([EXT_DATA, rand_text(rng, rng.randint(1, 30), extra=" /").encode().hex()])
        else:
            while True:
                m = rng.getrandbits(32)
                if m and m not in KNOWN_EXT:
                    break
            ln = rng.weighted([(0, 2), (1, 1), (7, 1), (8, 1), (9, 1), (15, 1), (16, 1), (rng.randint(0, 300), 5)])
            exts.append([m, rng.randbytes(ln).hex()])
    # keep the area inside the first cluster
    while exts and hl + len(q_ext_bytes(exts)) + 8 + 8 > cs - 64:
        exts.pop()
    c["exts"] = exts
    pos = hl + len(q_ext_bytes(exts))
    end = rng.weighted([("marker", 5), ("fill", 2), ("garbage", 2)])
    backing = None
    if rng.chance(0.5):
        backing = rng.pick(["base.qcow2", "/var/lib/images/base image.qcow2", rand_text(rng, rng.randint(1, 60), extra=" /")])
    if backing is not None and len(backing.encode()) > 1023:
        backing = "base.qcow2"
    c["garbage"] = ""
    if end == "fill" and backing is None:
        # the area must run exactly to the end of the first cluster: add a filler extension
        room = cs - pos
        if room >= 8 and room % 8 == 0 and (room - 8) <= 70000:
            while True:
                m = rng.getrandbits(32)
                if m and m not in KNOWN_EXT:
                    break
            exts.append([m, [rng.randrange(256), room - 8]])
            pos = cs
        else:
            end = "marker"
    if end == "garbage":
        # bytes after the end marker that look like one more extension; never to be reported
        g = struct.pack(">II", EXT_BACKING, 3) + b"RAW" + b"\x00" * 5
        c["garbage"] = g.hex()
    c["end"] = end
    after = pos + (8 if end in ("marker", "garbage") else 0) + len(bytes.fromhex(c["garbage"]))
    if backing is not None:
        bb = backing.encode()
        gap = 0 if end == "fill" else rng.pick([0, 0, 8, 24])
        if after + gap + len(bb) > cs:
            backing = None
        else:
            c["backing_file_offset"] = after + gap
            c["backing_file_size"] = len(bb)
            c["backing"] = bb.hex()
    if backing is None:
        c["backing_file_offset"] = 0
        c["backing_file_size"] = 0
        c["backing"] = None
        if end == "fill" and pos != cs:
            c["end"] = "marker"
    # snapshots
    maxs = 10 if tier == "thorough" else 4
    ns = rng.weighted([(0, 3), (1, 2), (2, 2), (rng.randint(3, maxs), 3)])
    snaps = []
    for i in range(ns):
        xs = rng.weighted([(0, 1), (16, 2), (24, 4), (32, 2), (40, 2)])
        extra = struct.pack(">QQQ", rand_int(rng, 64), rand_int(rng, 64), rand_int(rng, 64)) + rng.randbytes(16)
        snaps.append({"l1_table_offset": rand_int(rng, 48) & ~511, "l1_size": rand_int(rng, 16),
                      "date_sec": rand_int(rng, 32), "date_nsec": rand_int(rng, 30), "vm_clock_nsec": rand_int(rng, 64),
                      "vm_state_size": rand_int(rng, 32), "extra": extra[:xs].hex(),
                      "id": rng.pick([str(i + 1), rand_text(rng, rng.randint(0, 9))]).encode().hex(),
                      "name": rand_text(rng, rng.weighted([(0, 1), (rng.randint(1, 40), 6)]), extra=" ").encode().hex()})
    c["snaps"] = snaps
    c["nb_snapshots"] = ns
    c["snapshots_offset"] = cs * rng.randint(1, 4) if ns else rng.pick([0, cs])
    c["data_file_given"] = bool(c["incompat"] & 4)
    c["backing_given"] = True
    c["file_size"] = max(c["snapshots_offset"] + len(q_snap_bytes(snaps)) + 64, 3 * cs)
    if malformed:
        q_mutate(rng, c)
    return c


def q_mutate(rng, c):
    cs = 1 << c["cluster_bits"]
    m = rng.pick(["ext_len", "truncate", "bad_utf8", "version", "cluster_bits", "crypt", "magic", "header_length",
                  "nb_snapshots", "snap_sizes", "zstd", "no_data_file", "no_backing", "snap_nopad", "short_first"])
    c["malformed"] = m
    if m == "ext_len" and c["exts"]:
        e = rng.pick(c["exts"])
        e.append(rng.pick([cs, cs * 4, 0xFFFFFFFF, 0xFFFFFFF9, len(q_payload(e)) + 1, max(0, len(q_payload(e)) - 1)]))
    elif m == "truncate":
        c["file_size"] = rng.randint(0, max(1, c["header_length"] + len(q_ext_bytes(c["exts"]))))
    elif m == "bad_utf8":
        bad = rng.pick([b"\xff", b"\xc0\xaf", b"\xed\xa0\x80", b"ab\x80", b"\xf4\x90\x80\x80", b"\xe2\x82"])
        which = rng.pick(["ext", "backing", "snap"])
        if which == "ext":
            c["exts"].insert(0, [rng.pick([EXT_BACKING, EXT_DATA]), bad.hex()])
            first = c["header_length"] + len(q_ext_bytes(c["exts"])) + 8
            if c["backing"] is not None and first > c["backing_file_offset"]:
                c["exts"].pop(0)
        elif which == "backing" and c["backing"] is not None:
            c["backing"] = bad.hex()
            c["backing_file_size"] = len(bad)
        elif c["snaps"]:
            rng.pick(c["snaps"])[rng.pick(["id", "name"])] = bad.hex()
    elif m == "version":
        c["version"] = rng.pick([0, 1, 4, 0xFFFFFFFF])
        c["v2_long"] = True
    elif m == "cluster_bits":
        c["cluster_bits"] = rng.pick([0, 8, 22, 31, 64])
    elif m == "crypt":
        c["crypt_method"] = rng.pick([1, 2])
    elif m == "magic":
        c["magic"] = rng.pick([0, 0x514649FA, 0x4B444D56])
    elif m == "header_length" and c["version"] == 3:
        c["header_length"] = rng.pick([0, 4, 71, 73, 100, 105, 111, 1 << 20, 0xFFFFFFFF])
    elif m == "nb_snapshots":
        c["nb_snapshots"] = rng.pick([len(c["snaps"]) + 1, len(c["snaps"]) + 3, 1 << 16])
        c["file_size"] = c["snapshots_offset"] + len(q_snap_bytes(c["snaps"])) + rng.pick([0, 8, 39, 40])
    elif m == "snap_sizes" and c["snaps"]:
        s = rng.pick(c["snaps"])
        s[rng.pick(["id_size", "name_size", "extra_size"])] = rng.pick([0, 1, 7, 500, 0xFFFF])
    elif m == "zstd" and c["version"] == 3:
        c["compression_type"] = rng.pick([1, 2, 255])
        c["incompat"] |= 8
    elif m == "no_data_file":
        if c["version"] == 3:
            c["incompat"] |= 4
        c["data_file_given"] = False
    elif m == "no_backing":
        c["backing_given"] = False
    elif m == "snap_nopad" and c["snaps"]:
        rng.pick(c["snaps"])["nopad"] = True
    elif m == "short_first":
        c["first_override"] = (q_header_bytes(c) + q_ext_bytes(c["exts"]))[:rng.randint(0, 120)].hex()
        c["file_size"] = len(bytes.fromhex(c["first_override"]))


def q_spec(c):
    """the record, as the exposed values should read (None for malformed cases)"""
    if c.get("malformed"):
        return None, None
    v2 = c["version"] == 2
    e = {"backing_format": None, "feature_table": None, "crypto": None, "bitmaps": None, "image_data_file": None,
         "unknown": []}
    for x in c["exts"]:
        magic, p = x[0], q_payload(x)
        if magic == EXT_BACKING:
            e["backing_format"] = p.decode().upper()
        elif magic == EXT_FEATURE:
            e["feature_table"] = p
        elif magic == EXT_CRYPTO:
            e["crypto"] = list(struct.unpack(">QQ", p))
        elif magic == EXT_BITMAPS:
            e["bitmaps"] = list(struct.unpack(">IIQQ", p))
        elif magic == EXT_DATA:
            e["image_data_file"] = p.decode()
        else:
            e["unknown"].append([magic, len(p), p])
    meta = {"version": c["version"], "cluster_bits": c["cluster_bits"], "size": c["size"],
            "header_length": None if v2 else c["header_length"], "incompat": None if v2 else c["incompat"],
            "has_subclusters": (not v2) and bool(c["incompat"] & 16),
            "compression_type": 0, "exts": e,
            "auto_backing_file": None if c["backing"] is None else bytes.fromhex(c["backing"]).decode()}
    snaps = []
    for s in c["snaps"]:
        extra = bytes.fromhex(s["extra"])
        a, b, d = struct.unpack(">QQQ", extra[:24].ljust(24, b"\x00"))
        snaps.append({"l1_table_offset": s["l1_table_offset"], "l1_size": s["l1_size"], "date_sec": s["date_sec"],
                      "date_nsec": s["date_nsec"], "vm_clock_nsec": s["vm_clock_nsec"],
                      "vm_state_size": s["vm_state_size"], "extra_size": len(extra), "vm_state_size_large": a,
                      "disk_size": b, "icount": d, "unknown_extra": extra[24:] if len(extra) > 24 else None,
                      "id": bytes.fromhex(s["id"]).decode(), "name": bytes.fromhex(s["name"]).decode()})
    return meta, snaps


def q_model(v, v2):
    m, sn = tup(v)

    def meta(x):
        ver, cb, size, hl, inc, ct, ex, bf = tup(x)
        bfm, ft, cr, bm, df, unk = tup(ex)
        bfmt = opt(bfm, s_of)
        e = {"backing_format": None if bfmt is None else bfmt.upper(), "feature_table": opt(ft, b_of),
             "crypto": opt(cr, tup), "bitmaps": opt(bm, tup), "image_data_file": opt(df, s_of),
             "unknown": [[a, b, b_of(p)] for a, b, p in map(tup, unk)]}
        return {"version": ver, "cluster_bits": cb, "size": size, "header_length": None if v2 else hl,
                "incompat": None if v2 else inc, "has_subclusters": bool(inc & 16), "compression_type": ct, "exts": e,
                "auto_backing_file": opt(bf, s_of)}

    def snaps(x):
        out = []
        for s in x:
            f = tup(s)
            out.append({"l1_table_offset": f[0], "l1_size": f[1], "date_sec": f[2], "date_nsec": f[3],
                        "vm_clock_nsec": f[4], "vm_state_size": f[5], "extra_size": f[6], "vm_state_size_large": f[7],
                        "disk_size": f[8], "icount": f[9], "unknown_extra": opt(f[10], b_of), "id": s_of(f[11]),
                        "name": s_of(f[12])})
        return out
    return res_map(m, meta), res_map(sn, snaps)


class Qcow2Suite(Suite):
    name = "qcow2"
    shard = 20
    preamble = ("From Coq Require Import ZArith List.\nImport ListNotations.\nOpen Scope Z_scope.\n"
                "From DH Require Import Base.Plan Model.MetaCodec Model.MetaView.\n")

    def generate(self, rng, tier):
        n, nm = (1200, 400) if tier == "thorough" else (110, 40)
        return [q_gen(rng, tier) for _ in range(n)] + [q_gen(rng, tier, malformed=True) for _ in range(nm)]

    def impl(self, case):
        import io

        from dissect.hypervisor.disk import qcow2
        fh = q_file(case)
        v2 = case["version"] == 2

        def op():
            return qcow2.QCow2(fh, data_file=io.BytesIO(b"") if case["data_file_given"] else None,
                               backing_file=qcow2.ALLOW_NO_BACKING_FILE if case["backing_given"] else None)
        r = guard(op)
        if r[0] != "ok":
            return {"open": r, "snaps": None}
        q = r[1]

        def meta():
            return {"version": int(q.header.version), "cluster_bits": int(q.cluster_bits), "size": int(q.size),
                    "header_length": None if v2 else int(q.header.header_length),
                    "incompat": None if v2 else int(q.header.incompatible_features),
                    "has_subclusters": bool(q.has_subclusters), "compression_type": int(q.compression_type),
                    "exts": {"backing_format": q.backing_format,
                             "feature_table": None if q.feature_table is None else bytes(q.feature_table),
                             "crypto": None if q.crypto_header is None else [int(q.crypto_header.offset),
                                                                             int(q.crypto_header.length)],
                             "bitmaps": None if q.bitmap_header is None else [
                                 int(q.bitmap_header.nb_bitmaps), int(q.bitmap_header.reserved32),
                                 int(q.bitmap_header.bitmap_directory_size), int(q.bitmap_header.bitmap_directory_offset)],
                             "image_data_file": q.image_data_file,
                             "unknown": [[int(e.magic), int(e.len), bytes(d)] for e, d in q.unknown_extensions]},
                    "auto_backing_file": q.auto_backing_file}

        def snaps():
            out = []
            for s in q.snapshots:
                out.append({"l1_table_offset": int(s.header.l1_table_offset), "l1_size": int(s.header.l1_size),
                            "date_sec": int(s.header.date_sec), "date_nsec": int(s.header.date_nsec),
                            "vm_clock_nsec": int(s.header.vm_clock_nsec), "vm_state_size": int(s.header.vm_state_size),
                            "extra_size": int(s.header.extra_data_size),
                            "vm_state_size_large": int(s.extra.vm_state_size_large), "disk_size": int(s.extra.disk_size),
                            "icount": int(s.extra.icount),
                            "unknown_extra": None if s.unknown_extra is None else bytes(s.unknown_extra),
                            "id": s.id_str, "name": s.name})
            return out
        return {"open": guard(meta), "snaps": guard(snaps)}

    def coq_term(self, case):
        chunks, size = q_build(case)
        return (f"q_case {core.cbool(HAS_ZSTD)} {core.cbool(case['data_file_given'])} "
                f"{core.cbool(case['backing_given'])} {rd_term(chunks, size)}")

    def judge(self, case, impl_res, coq_val):
        f = fault("qcow2", impl_res)
        if f:
            return f
        fs = []
        spec_m, spec_s = q_spec(case)
        mm, ms = q_model(coq_val, case["version"] == 2)
        three_way("qcow2", case, impl_res["open"], mm, spec_m, fs, "open")
        if impl_res["open"][0] == "ok" or mm[0] == "ok":
            isn = impl_res["snaps"] if impl_res["snaps"] is not None else ("exc", "n/a", "", "")
            if impl_res["open"][0] == "ok" and mm[0] == "ok":
                three_way("qcow2", case, isn, ms, spec_s, fs, "snapshots")
        return fs

    def nontrivial(self, case, impl_res, coq_val):
        if case.get("malformed"):
            return None
        if len(case["exts"]) + len(case["snaps"]) >= 2 or (case["backing"] and nonascii(bytes.fromhex(case["backing"]).decode())):
            return core.sha(core.jdump(case).encode())
        return None

    def dist(self, case):
        lens = [len(q_payload(e)) for e in case["exts"]]
        return {"version": case["version"], "header_length": case["header_length"], "cluster_bits": case["cluster_bits"],
                "n_exts": min(len(lens), 9), "unaligned_ext": any(n % 8 for n in lens), "end": case["end"],
                "backing": case["backing"] is not None, "n_snaps": min(len(case["snaps"]), 6),
                "snap_extra": ",".join(sorted({str(len(s["extra"]) // 2) for s in case["snaps"]})),
                "malformed": case.get("malformed") or "no"}



# ============================================================================ VHDX
from uuid import UUID  # noqa: E402

G = {k: UUID(v) for k, v in {
    "bat": "2DC27766-F623-4200-9D64-115E9BFD4A08", "metadata": "8B7CA206-4790-4B9A-B8FE-575F050F886E",
    "file_parameters": "CAA16737-FA36-4D43-B3B6-33F0AA44E76B", "size": "2FA54224-CD1B-4876-B211-5DBED83BF4B8",
    "id": "BECA12AB-B2E6-4523-93EF-C309E000C746", "logical": "8141BF1D-A96F-4709-BA47-F233A8FAAB5F",
    "physical": "CDA348C7-445D-4471-9CC9-E9885251C556", "locator": "A8D35F2D-B30B-454D-ABF7-D3D84834AB0C",
    "vhdx_locator_type": "B04AEFB7-D19E-4A81-B789-25B8E9445913"}.items()}
KB64 = 65536


def x_header_bytes(h):
    return (bytes.fromhex(h["signature"]) + struct.pack("<IQ", h["checksum"], h["seq"]) + bytes.fromhex(h["file_write_guid"])
            + bytes.fromhex(h["data_write_guid"]) + bytes.fromhex(h["log_guid"])
            + struct.pack("<HHIQ", h["log_version"], h["version"], h["log_length"], h["log_offset"]))


def x_region_bytes(t):
    out = bytes.fromhex(t["signature"]) + struct.pack("<II", t["checksum"], t.get("count", len(t["entries"]))) + b"\x00" * 4
    for g, off, ln, req in t["entries"]:
        out += UUID(g).bytes_le + struct.pack("<QII", off, ln, req)
    return out


def x_locator_bytes(loc):
    """header + entry table + strings placed as the case dictates"""
    ents = loc["entries"]
    n = len(ents)
    table_end = 20 + 12 * n
    blobs = []
    for i, (k, v) in enumerate(ents):
        kb = bytes.fromhex(loc["raw"][i][0]) if loc.get("raw") else k.encode("utf-16-le")
        vb = bytes.fromhex(loc["raw"][i][1]) if loc.get("raw") else v.encode("utf-16-le")
        blobs.append((i, 0, kb))
        blobs.append((i, 1, vb))
    order = loc.get("order") or list(range(len(blobs)))
    pos = table_end + loc.get("lead_gap", 0)
    where = {}
    body = b""
    for bi in order:
        i, kv, b = blobs[bi]
        where[(i, kv)] = pos
        body += b + b"\x00" * loc.get("gap", 0)
        pos += len(b) + loc.get("gap", 0)
    out = UUID(loc["type"]).bytes_le + struct.pack("<HH", 0, loc.get("count", n))
    for i in range(n):
        out += struct.pack("<IIHH", where[(i, 0)], where[(i, 1)], len(blobs[2 * i][2]), len(blobs[2 * i + 1][2]))
    return out + b"\x00" * loc.get("lead_gap", 0) + body


def x_item_bytes(c, name):
    if name == "file_parameters":
        return struct.pack("<II", c["block_size"], (c["leave_allocated"] & 1) | ((c["has_parent"] & 1) << 1)
                           | (c.get("fp_reserved", 0) << 2))
    if name == "size":
        return struct.pack("<Q", c["size"])
    if name == "id":
        return bytes.fromhex(c["id"])
    if name == "logical":
        return struct.pack("<I", c["sector_size"])
    if name == "physical":
        return struct.pack("<I", c["physical_sector_size"])
    if name == "locator":
        return x_locator_bytes(c["locator"])
    return bytes.fromhex(c["unknown_item"])


def x_build(c):
    chunks = {0: bytes.fromhex(c["file_sig"]) + "verif".encode("utf-16-le")}
    chunks[KB64] = x_header_bytes(c["h1"])
    chunks[2 * KB64] = x_header_bytes(c["h2"])
    chunks[3 * KB64] = x_region_bytes(c["rt1"])
    chunks[4 * KB64] = x_region_bytes(c["rt2"])
    mo = c["metadata_offset"]
    items = c["items"]            # [name, guid, rel offset, flags]
    md = bytes.fromhex(c["meta_sig"]) + b"\x00\x00" + struct.pack("<H", c.get("meta_count", len(items))) + b"\x00" * 20
    for name, g, rel, flags in items:
        md += UUID(g).bytes_le + struct.pack("<III", rel, len(x_item_bytes(c, name)), flags) + b"\x00" * 4
    chunks[mo] = md
    for name, g, rel, flags in items:
        chunks[mo + rel] = x_item_bytes(c, name)
    return chunks, c["file_size"]


def x_gen(rng, tier, malformed=False, parent_ok=True):
    def hdr(seq):
        return {"signature": b"head".hex(), "checksum": rng.getrandbits(32), "seq": seq,
                "file_write_guid": rng.randbytes(16).hex(), "data_write_guid": rng.randbytes(16).hex(),
                "log_guid": rng.pick([bytes(16), rng.randbytes(16)]).hex(), "log_version": 0, "version": 1,
                "log_length": rng.pick([0, 1 << 20]), "log_offset": rng.pick([0, 1 << 20])}
    a = rand_int(rng, 64)
    rel = rng.weighted([("gt", 3), ("lt", 3), ("eq", 1), ("adjacent", 3)])
    if rel == "gt":
        s1, s2 = max(a, 1), rng.randrange(0, max(a, 1))
    elif rel == "lt":
        s2, s1 = max(a, 1), rng.randrange(0, max(a, 1))
    elif rel == "adjacent":
        b = min(a, (1 << 64) - 2)
        s1, s2 = (b, b + 1) if rng.chance(0.5) else (b + 1, b)
    else:
        s1 = s2 = a
    h1, h2 = hdr(s1), hdr(s2)
    if rel == "eq":
        h2 = dict(h1)
    has_parent = 1 if (parent_ok and rng.chance(0.5)) else 0
    mo = KB64 * rng.randint(5, 9)
    bat_off = (1 << 20) * rng.randint(1, 5)
    regions = [[str(G["bat"]), bat_off, 1 << 20, 1], [str(G["metadata"]), mo, 1 << 20, 1]]
    for _ in range(rng.weighted([(0, 4), (1, 1), (3, 1)])):
        regions.append([str(UUID(bytes=rng.randbytes(16))), (1 << 20) * rng.randint(6, 50), 1 << 20, 0])
    rng.shuffle(regions)
    rt = {"signature": b"regi".hex(), "checksum": rng.getrandbits(32), "entries": regions}
    c = {"file_sig": b"vhdxfile".hex(), "h1": h1, "h2": h2, "seq_rel": rel, "rt1": rt, "rt2": dict(rt),
         "metadata_offset": mo, "meta_sig": b"metadata".hex(),
         "block_size": (1 << 20) * rng.pick([1, 2, 8, 32, 256]), "leave_allocated": rng.randrange(2),
         "has_parent": has_parent, "size": rng.weighted([(rand_int(rng, 44) or 1, 3), ((1 << 20) * rng.randint(1, 9999), 3)]),
         "id": rng.randbytes(16).hex(), "sector_size": rng.pick([512, 4096]), "physical_sector_size": rng.pick([512, 4096]),
         "malformed": None}
    names = ["file_parameters", "size", "id", "logical", "physical"] + (["locator"] if has_parent or rng.chance(0.15) else [])
    if "locator" in names:
        maxe = 12
        ne = rng.weighted([(1, 2), (3, 3), (5, 3), (rng.randint(1, maxe), 3)])
        ents = [["relative_path", rng.pick(["parent.vhdx", ".\\parent.vhdx"])]]
        std = [("parent_linkage", "{%s}" % UUID(bytes=rng.randbytes(16))), ("parent_linkage2", "{%s}" % UUID(bytes=rng.randbytes(16))),
               ("volume_path", "\\\\?\\Volume{%s}\\dir\\parent.vhdx" % UUID(bytes=rng.randbytes(16))),
               ("absolute_win32_path", "C:\\" + rand_text(rng, rng.randint(1, 30), extra=" \\") + "\\parent.vhdx")]
        rng.shuffle(std)
        while len(ents) < ne:
            if std and rng.chance(0.7):
                ents.append(list(std.pop()))
            else:
                k = rand_text(rng, rng.randint(1, 12))
                if all(k != e[0] for e in ents):
                    ents.append([k, rand_text(rng, rng.weighted([(0, 1), (rng.randint(1, 80), 5)]), extra=" \\")])
        rng.shuffle(ents)
        order = list(range(2 * len(ents)))
        if rng.chance(0.5):
            rng.shuffle(order)
        c["locator"] = {"type": str(G["vhdx_locator_type"]), "entries": ents, "order": order,
                        "gap": rng.pick([0, 0, 2, 5]), "lead_gap": rng.pick([0, 0, 4])}
    rng.shuffle(names)
    items = []
    rel_off = 32 + 32 * (len(names) + 2) + rng.pick([0, 16, 1000])
    for nme in names:
        flags = {"file_parameters": 4, "size": 6, "id": 6, "logical": 6, "physical": 6, "locator": 4}[nme]
        items.append([nme, str(G[nme]), rel_off, flags])
        rel_off += len(x_item_bytes(c, nme)) + rng.pick([0, 3, 8, 64])
    c["items"] = items
    c["file_size"] = mo + rel_off + 64
    if malformed:
        x_mutate(rng, c)
    return c


def x_mutate(rng, c):
    m = rng.pick(["file_sig", "head_sig", "regi_sig", "meta_sig", "truncate", "region_count", "meta_count", "no_region",
                  "no_item", "unknown_item", "zero", "locator_type", "bad_utf16", "dup_key", "dup_region", "block0",
                  "locator_count"])
    c["malformed"] = m
    loc = c.get("locator")
    if m == "file_sig":
        c["file_sig"] = b"vhdxfilf".hex()
    elif m == "head_sig":
        which = rng.pick(["h1", "h2"])
        c[which]["signature"] = b"hear".hex()
    elif m == "regi_sig":
        c[rng.pick(["rt1", "rt2"])] = dict(c["rt1"], signature=b"regx".hex())
    elif m == "meta_sig":
        c["meta_sig"] = b"metadatb".hex()
    elif m == "truncate":
        c["file_size"] = rng.pick([0, 100, 520, KB64 + 10, KB64 + 4176, 2 * KB64 + 4175, 3 * KB64 + 20, 4 * KB64 + 16,
                                   c["metadata_offset"] + 40, c["metadata_offset"] + c["items"][-1][2] + 2])
    elif m == "region_count":
        c["rt1"] = dict(c["rt1"], count=rng.pick([0, len(c["rt1"]["entries"]) - 1, 1 << 20, 0xFFFFFFFF]))
    elif m == "meta_count":
        c["meta_count"] = rng.pick([0, len(c["items"]) - 1, 0xFFFF])
    elif m == "no_region":
        drop = str(G[rng.pick(["bat", "metadata"])])
        c["rt1"] = dict(c["rt1"], entries=[e for e in c["rt1"]["entries"] if e[0] != drop])
    elif m == "no_item":
        drop = rng.pick(["file_parameters", "size", "id", "logical", "locator"])
        c["items"] = [i for i in c["items"] if i[0] != drop]
    elif m == "unknown_item":
        c["unknown_item"] = rng.randbytes(8).hex()
        c["items"].insert(rng.randrange(len(c["items"]) + 1),
                          ["unknown", str(UUID(bytes=rng.randbytes(16))), c["items"][-1][2] + 4096, 1])
    elif m == "zero":
        c[rng.pick(["size", "sector_size"])] = 0
    elif m == "locator_type" and loc:
        loc["type"] = str(UUID(bytes=rng.randbytes(16)))
    elif m == "bad_utf16" and loc:
        loc["raw"] = [[k.encode("utf-16-le").hex(), v.encode("utf-16-le").hex()] for k, v in loc["entries"]]
        i = rng.randrange(len(loc["raw"]))
        if loc["entries"][i][0] != "relative_path":
            loc["raw"][i][rng.randrange(2)] = rng.pick([b"a", b"\x00\xd8", b"\x00\xdc\x41\x00", b"\x00\xd8\x41\x00",
                                                         b"a\x00b"]).hex()
    elif m == "dup_key" and loc:
        k, v = rng.pick(loc["entries"])
        if k != "relative_path":
            loc["entries"].append([k, v + "2"])
            loc["order"] = None
    elif m == "dup_region":
        e = list(rng.pick(c["rt1"]["entries"]))
        e[1] += 1 << 20
        c["rt1"] = dict(c["rt1"], entries=c["rt1"]["entries"] + [e])
    elif m == "block0":
        c["block_size"] = 0
    elif m == "locator_count" and loc:
        loc["count"] = rng.pick([0, len(loc["entries"]) - 1, 0xFFFF])


def x_hdr_spec(h):
    return {"signature": bytes.fromhex(h["signature"]), "seq": h["seq"], "file_write_guid": bytes.fromhex(h["file_write_guid"]),
            "data_write_guid": bytes.fromhex(h["data_write_guid"]), "log_guid": bytes.fromhex(h["log_guid"]),
            "log_version": h["log_version"], "version": h["version"], "log_length": h["log_length"],
            "log_offset": h["log_offset"]}


def x_spec(c):
    if c.get("malformed"):
        return None
    act = c["h1"] if c["h1"]["seq"] > c["h2"]["seq"] else c["h2"]
    loc = None
    if c["has_parent"]:
        loc = {"type": UUID(c["locator"]["type"]).int, "entries": {k: v for k, v in c["locator"]["entries"]}}
    return {"active": x_hdr_spec(act), "h1": x_hdr_spec(c["h1"]), "h2": x_hdr_spec(c["h2"]),
            "regions1": [[UUID(g).int, o, ln, r] for g, o, ln, r in c["rt1"]["entries"]],
            "regions2": [[UUID(g).int, o, ln, r] for g, o, ln, r in c["rt2"]["entries"]],
            "mentries": [[UUID(g).int, rel, len(x_item_bytes(c, n)), f & 1, (f >> 1) & 1, (f >> 2) & 1]
                         for n, g, rel, f in c["items"]],
            "size": c["size"], "block_size": c["block_size"], "has_parent": c["has_parent"],
            "sector_size": c["sector_size"], "id": UUID(bytes_le=bytes.fromhex(c["id"])).int, "locator": loc,
            "bat_offset": [e for e in c["rt1"]["entries"] if e[0] == str(G["bat"])][0][1]}


def x_model(v):
    def hv(x):
        f = tup(x)
        return {"signature": b_of(f[0]), "seq": f[1], "file_write_guid": b_of(f[2]), "data_write_guid": b_of(f[3]),
                "log_guid": b_of(f[4]), "log_version": f[5], "version": f[6], "log_length": f[7], "log_offset": f[8]}

    def meta(x):
        _, act, h1, h2, r1, r2, me, vals, loc, bat = tup(x)
        size, bs, hp, ss, idv = tup(vals)
        return {"active": hv(act), "h1": hv(h1), "h2": hv(h2), "regions1": [tup(r) for r in r1],
                "regions2": [tup(r) for r in r2], "mentries": [tup(e) for e in me], "size": size, "block_size": bs,
                "has_parent": hp, "sector_size": ss, "id": idv,
                "locator": opt(loc, lambda l: {"type": tup(l)[0],
                                               "entries": {s_of(k): s_of(w) for k, w in map(tup, tup(l)[1])}}),
                "bat_offset": bat}
    return res_map(v, meta)


_PARENT_CACHE = {}


def x_parent_bytes():
    if "b" not in _PARENT_CACHE:
        rng = core.Rng(12345)
        pc = x_gen(rng, "quick", parent_ok=False)
        chunks, size = x_build(pc)
        _PARENT_CACHE["b"] = core.SparseFile(size, chunks, fill="zero").content(0, size)
    return _PARENT_CACHE["b"]


class VhdxSuite(Suite):
    name = "vhdx"
    shard = 15
    preamble = Qcow2Suite.preamble

    def generate(self, rng, tier):
        n, nm = (700, 250) if tier == "thorough" else (70, 30)
        return [x_gen(rng, tier) for _ in range(n)] + [x_gen(rng, tier, malformed=True) for _ in range(nm)]

    def impl(self, case):
        from dissect.hypervisor.disk import vhdx
        chunks, size = x_build(case)
        os.makedirs(SCRATCH, exist_ok=True)
        d = tempfile.mkdtemp(dir=SCRATCH)
        try:
            with open(os.path.join(d, "parent.vhdx"), "wb") as fh:
                fh.write(x_parent_bytes())
            fh = core.SparseFile(size, chunks, fill="zero", name=os.path.join(d, "child.vhdx"))

            def hv(h):
                return {"signature": bytes(h.signature), "seq": int(h.sequence_number),
                        "file_write_guid": bytes(h.file_write_guid), "data_write_guid": bytes(h.data_write_guid),
                        "log_guid": bytes(h.log_guid), "log_version": int(h.log_version), "version": int(h.version),
                        "log_length": int(h.log_length), "log_offset": int(h.log_offset)}

            def op():
                v = vhdx.VHDX(fh)
                loc = None
                if v.parent_locator is not None:
                    loc = {"type": v.parent_locator.type.int, "entries": dict(v.parent_locator.entries)}
                return {"active": hv(v.header), "h1": hv(v.headers[0]), "h2": hv(v.headers[1]),
                        "regions1": [[UUID(bytes_le=bytes(e.guid)).int, int(e.file_offset), int(e.length), int(e.required)]
                                     for e in v.region_tables[0].entries],
                        "regions2": [[UUID(bytes_le=bytes(e.guid)).int, int(e.file_offset), int(e.length), int(e.required)]
                                     for e in v.region_tables[1].entries],
                        "mentries": [[UUID(bytes_le=bytes(e.item_id)).int, int(e.offset), int(e.length), int(e.is_user),
                                      int(e.is_virtual_disk), int(e.is_required)] for e in v.metadata.entries],
                        "size": int(v.size), "block_size": int(v.block_size), "has_parent": int(v.has_parent),
                        "sector_size": int(v.sector_size), "id": v.id.int, "locator": loc, "bat_offset": int(v.bat.offset)}
            return {"open": guard(op)}
        finally:
            shutil.rmtree(d, ignore_errors=True)

    def coq_term(self, case):
        chunks, size = x_build(case)
        return f"x_case {rd_term(chunks, size)}"

    def judge(self, case, impl_res, coq_val):
        f = fault("vhdx", impl_res)
        if f:
            return f
        fs = []
        three_way("vhdx", case, impl_res["open"], x_model(coq_val), x_spec(case), fs, "open")
        return fs

    def nontrivial(self, case, impl_res, coq_val):
        if case.get("malformed"):
            return None
        loc = case.get("locator")
        if case["seq_rel"] != "eq" and (not loc or len(loc["entries"]) >= 2):
            return core.sha(core.jdump(case).encode())
        return None

    def dist(self, case):
        loc = case.get("locator")
        return {"seq": case["seq_rel"], "has_parent": case["has_parent"],
                "locator_entries": len(loc["entries"]) if loc else "none",
                "locator_nonascii": bool(loc and any(nonascii(k + v) for k, v in loc["entries"])),
                "locator_shuffled": bool(loc and loc.get("order") != list(range(2 * len(loc["entries"])))),
                "regions": len(case["rt1"]["entries"]), "items_first": case["items"][0][0] if case["items"] else "none",
                "malformed": case.get("malformed") or "no"}


SUITES = {"qcow2": Qcow2Suite(), "vhdx": VhdxSuite()}
