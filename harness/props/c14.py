"""C14 — Exposed image metadata and parent references equal what the file stores.

Five suites, one per metadata family.  Every case is a *record* (the specification side: what the
file is meant to store), rendered into an image / document by the serialisers below (written against
the format documents, independent of dissect.cstruct), opened by the implementation, and decoded by
the Gallina model (coq/Model/Meta*.v) from the same bytes.  Three-way comparison of the exposed values.
"""
from __future__ import annotations

import importlib.util
import io
import os
import shutil
import struct
import tempfile

from harness import core
from harness.core import Z
from harness.main import Finding, Suite

PROPERTY = "C14"
PROPS_FILE = "Props/C14.v"
MODEL_FILES = ["Model/MetaCodec.v", "Model/MetaQcow2.v", "Model/MetaVhdx.v", "Model/MetaVmdk.v",
               "Model/MetaHdrs.v", "Model/MetaHdd.v", "Model/MetaView.v"]
META = {
    "category": "proof",
    "text": "Coq theorems: the generic struct decoder inverts the encoder for every generated layout (sizes pinned to "
            "the constants the code relies on); the QCOW2 extension walk and snapshot-table reader return exactly "
            "the rendered extensions / snapshots for every count and length; the VHDX active header is the copy with "
            "the highest sequence number, region/metadata lookup and the parent locator return the stored entries; "
            "VMDK descriptor key/values and extent lines, and the Parallels descriptor (incl. TopGUID) decode to the "
            "rendered record. The models are tied to the code by generated layouts/constants and by differential "
            "correspondence (implementation vs model vs record) on generated images and documents.",
    "design_ref": "DESIGN.md §6 C14",
    "note": "Trusted: Coq kernel; hand-written models Model/Meta*.v validated against the code only on the generated "
            "cases; Gen/Layouts.v, Gen/Consts.v from the translator; Python's UTF-8/UTF-16 codecs, str.upper, int(), "
            "uuid.UUID and the XML parser as oracles (executable Gallina stand-ins are correspondence-checked).",
    "technique": "Coq proof of decode∘encode = id + differential correspondence model/implementation/record",
    "rule": "records: field values from {0,1,max,random}; 0..20 QCOW2 extensions of lengths 0..300 (non-multiples of 8, "
            "fillers up to the cluster), end marker / exact fill / garbage after the marker, v2 and v3 headers of "
            "length 72/104/112/120+, 0..10 snapshots with extra data 0/16/24/32/40; VHDX header pairs with every "
            "ordering of sequence numbers, shuffled metadata items, 0..12 locator entries in BMP/astral UTF-16; VMDK "
            "descriptors of 0..40 lines with quoted values, spaces, CRLF, every extent type, embedded descriptors in "
            "the three sparse header kinds; Parallels documents with 1..4 storages, 0..5 images, 0..6 shots, with and "
            "without TopGUID; VHD/VDI/HDS headers. A separate malformed stream compares implementation and model "
            "only. Non-trivial = at least two variable-length items or a non-ASCII string; distinct by record.",
    "trusted_base": ["Model/Meta*.v are hand-written (correspondence-checked, not proved against Python)",
                     "harness serialisers (independent of cstruct)"],
    "assumptions": ["file handles behave as io.RawIOBase files (SparseFile stand-in)",
                    "codecs / int / UUID / XML parser behave as Python's on the generated alphabets"],
}

HAS_ZSTD = importlib.util.find_spec("zstandard") is not None
SCRATCH = "/work/tmp_c14"


# ============================================================================ common helpers
def bterm(b: bytes) -> str:
    """bytes -> Gallina `list Z`, long runs as `rp byte n`."""
    parts, lit = [], []
    i, n = 0, len(b)
    while i < n:
        j = i
        while j < n and b[j] == b[i]:
            j += 1
        if j - i >= 24:
            if lit:
                parts.append("[" + "; ".join(map(str, lit)) + "]")
                lit = []
            parts.append(f"rp {b[i]} {j - i}")
        else:
            lit.extend(b[i:j])
        i = j
    if lit:
        parts.append("[" + "; ".join(map(str, lit)) + "]")
    if not parts:
        return "[]"
    return "(" + " ++ ".join(parts) + ")"


def cps(s: str) -> str:
    return "[" + "; ".join(str(ord(c)) for c in s) + "]"


def rd_term(chunks: dict, size: int) -> str:
    items = "; ".join(f"({Z(o)}, {bterm(b)})" for o, b in sorted(chunks.items()))
    return f"(sparse_rd [{items}] {Z(size)})"


def tup(v):
    """parsed Coq tuple -> list of components"""
    if isinstance(v, tuple) and v and v[0] == "":
        return list(v[1:])
    raise ValueError(f"not a tuple: {v!r}")


def opt(v, f=lambda x: x):
    if v == "None":
        return None
    if isinstance(v, tuple) and v[0] == "Some":
        return f(v[1])
    raise ValueError(f"not an option: {v!r}")


def s_of(l):
    return "".join(chr(c) for c in l)


def b_of(l):
    return bytes(l)


def boolv(v):
    return {"true": True, "false": False}[v]


def rec_of(v):
    """parsed Coq `record` -> dict name -> int | bytes"""
    out = {}
    for item in v:
        _, name, val = item
        out[name] = val[1] if val[0] == "VInt" else bytes(val[1])
    return out


def res_map(v, f):
    r = core.res_of(v)
    if r[0] == "ok":
        return ("ok", f(r[1]))
    return r


def diff(a, b, path=""):
    """first difference between two plain structures, or None"""
    if isinstance(a, dict) and isinstance(b, dict):
        for k in sorted(set(a) | set(b), key=str):
            if k not in a or k not in b:
                return f"{path}.{k}: present only on one side"
            d = diff(a[k], b[k], f"{path}.{k}")
            if d:
                return d
        return None
    if isinstance(a, (list, tuple)) and isinstance(b, (list, tuple)):
        if len(a) != len(b):
            return f"{path}: length {len(a)} != {len(b)}"
        for i, (x, y) in enumerate(zip(a, b)):
            d = diff(x, y, f"{path}[{i}]")
            if d:
                return d
        return None
    if type(a) is bool or type(b) is bool:
        return None if bool(a) == bool(b) and type(a) is type(b) else f"{path}: {a!r} != {b!r}"
    if a != b:
        return f"{path}: {a!r:.120} != {b!r:.120}"
    return None


def guard(fn):
    """run an implementation step; exceptions become ('exc', name, where)"""
    import traceback
    try:
        return ("ok", fn())
    except MemoryError:
        raise
    except Exception as e:  # noqa: BLE001
        where = ""
        for fr in reversed(traceback.extract_tb(e.__traceback__)):
            if "dissect" in fr.filename:
                where = f"{os.path.basename(fr.filename)}:{fr.name}"
                break
        return ("exc", type(e).__name__, where, str(e)[:160])


def sig_path(d):
    """stable part of a difference path: up to two components, nothing below a dictionary of stored names"""
    parts = d.split(":")[0].split("[")[0].split(".")[1:3]
    if parts and parts[0] in ("attr", "ddb"):
        parts = parts[:1]
    if len(parts) == 2 and parts[0] == "descriptor":
        parts = parts[:2]
    return ".".join(parts)


def three_way(fmt, case, impl, model, spec, fs, label="open"):
    """impl/model: ('ok', value) | ('exc', ...) | ('err',) | ('fuel',); spec: value or None (malformed case)."""
    sig = f"{fmt}:{label}"
    if model[0] == "fuel":
        fs.append(Finding("model_vs_spec", f"{fmt} {label}: model ran out of fuel", sig + ":fuel"))
        return
    if spec is not None:
        if impl[0] == "ok":
            d = diff(impl[1], spec)
            if d:
                fs.append(Finding("impl_vs_spec", f"{fmt} {label}: exposed value differs from the stored record at {d}",
                                  sig + ":value:" + sig_path(d)))
        else:
            fs.append(Finding("impl_vs_spec", f"{fmt} {label}: implementation raised {impl[1]} at {impl[2]} ({impl[3]}) "
                              f"on a well-formed input", sig + f":exc:{impl[1]}"))
        if model[0] == "ok":
            d = diff(model[1], spec)
            if d:
                fs.append(Finding("model_vs_spec", f"{fmt} {label}: model differs from the record at {d}", sig + ":mvs"))
        else:
            fs.append(Finding("model_vs_spec", f"{fmt} {label}: model predicts an exception on a well-formed input",
                              sig + ":mvs-err"))
    if impl[0] == "ok" and model[0] == "ok":
        d = diff(impl[1], model[1])
        if d:
            fs.append(Finding("impl_vs_model", f"{fmt} {label}: implementation differs from the model at {d}",
                              sig + ":ivm"))
    elif impl[0] == "ok" and model[0] == "err":
        fs.append(Finding("impl_vs_model", f"{fmt} {label}: model predicts an exception, implementation returned a value",
                          sig + ":model-err-impl-ok"))
    elif impl[0] == "exc" and model[0] == "ok":
        fs.append(Finding("impl_vs_model", f"{fmt} {label}: implementation raised {impl[1]} at {impl[2]} ({impl[3]}), "
                          f"model returns a value", sig + ":model-ok-impl-exc"))


def fault(fmt, impl_res):
    if isinstance(impl_res, dict) and impl_res.get("outcome"):
        return [Finding("impl_fault" if impl_res["outcome"] in ("hang", "crash", "oom") else "impl_vs_model",
                        f"{fmt}: implementation {impl_res['outcome']}: {impl_res.get('detail', impl_res.get('msg', ''))}",
                        f"{fmt}:open:{impl_res['outcome']}")]
    return None


# text pools -------------------------------------------------------------------------------
BMP = "äöüßéñçøÅЖдяλΩאבگ中文日本語한글…€"
ASTRAL = "😀🚀𝔘𐍈🜚"
COMBINING = "éäñ"


def rand_text(rng, n, pool="mixed", extra=""):
    base = "abcdefghijklmnopqrstuvwxyzABCDEFGHIJKLMNOPQRSTUVWXYZ0123456789_-." + extra
    out = []
    for _ in range(n):
        k = rng.random()
        if pool == "ascii" or k < 0.7:
            out.append(rng.pick(base))
        elif k < 0.88:
            out.append(rng.pick(BMP))
        elif k < 0.95:
            out.append(rng.pick(ASTRAL))
        else:
            out.append(rng.pick(COMBINING))
    return "".join(out)


def rand_int(rng, bits):
    return rng.weighted([(0, 1), (1, 1), ((1 << bits) - 1, 1), (rng.getrandbits(bits), 4),
                         (rng.getrandbits(max(1, bits // 2)), 2)])


def nonascii(s):
    return any(ord(c) > 127 for c in s)


# ============================================================================ QCOW2
Q_MAGIC = 0x514649FB
EXT_BACKING, EXT_FEATURE, EXT_CRYPTO, EXT_BITMAPS, EXT_DATA = 0xE2792ACA, 0x6803F857, 0x0537BE77, 0x23852875, 0x44415441
KNOWN_EXT = {EXT_BACKING, EXT_FEATURE, EXT_CRYPTO, EXT_BITMAPS, EXT_DATA}


def q_header_bytes(c):
    h = struct.pack(">IIQIIQIIQQIIQ", c["magic"], c["version"], c["backing_file_offset"], c["backing_file_size"],
                    c["cluster_bits"], c["size"], c["crypt_method"], c["l1_size"], c["l1_table_offset"],
                    c["refcount_table_offset"], c["refcount_table_clusters"], c["nb_snapshots"], c["snapshots_offset"])
    assert len(h) == 72
    if c["version"] == 2 and not c.get("v2_long"):
        return h
    t = struct.pack(">QQQIIB", c["incompat"], c["compat"], c["autoclear"], c["refcount_order"], c["header_length"],
                    c["compression_type"]) + b"\x00" * 7
    full = h + t
    hl = c["header_length"]
    if hl <= len(full):
        return full[:max(72, hl)] if hl >= 72 else full
    if hl > 4096:            # a lying header_length (malformed stream): the header itself stays 112 bytes
        return full
    return full + bytes.fromhex(c.get("header_pad", "")).ljust(hl - len(full), b"\x00")[:hl - len(full)]


def q_ext_bytes(exts):
    out = b""
    for magic, payload_hex, *rest in exts:
        p = bytes.fromhex(payload_hex) if isinstance(payload_hex, str) else bytes([payload_hex[0]]) * payload_hex[1]
        ln = rest[0] if rest else len(p)       # malformed stream may lie about the length
        out += struct.pack(">II", magic, ln) + p + b"\x00" * (-len(p) % 8)
    return out


def q_payload(e):
    p = e[1]
    return bytes.fromhex(p) if isinstance(p, str) else bytes([p[0]]) * p[1]


def q_snap_bytes(snaps):
    out = b""
    for s in snaps:
        idb = bytes.fromhex(s["id"])
        nmb = bytes.fromhex(s["name"])
        extra = bytes.fromhex(s["extra"])
        b = struct.pack(">QIHHIIQII", s["l1_table_offset"], s["l1_size"], s.get("id_size", len(idb)),
                        s.get("name_size", len(nmb)), s["date_sec"], s["date_nsec"], s["vm_clock_nsec"],
                        s["vm_state_size"], s.get("extra_size", len(extra))) + extra + idb + nmb
        if not s.get("nopad"):
            b += b"\x00" * (-len(b) % 8)
        out += b
    return out


def q_build(c):
    """-> (chunks, size)"""
    chunks = {}
    first = q_header_bytes(c) + q_ext_bytes(c["exts"])
    if c["end"] in ("marker", "garbage"):
        first += b"\x00" * 8
    if c["end"] == "garbage":
        first += bytes.fromhex(c["garbage"])
    if c.get("first_override") is not None:
        first = bytes.fromhex(c["first_override"])
    chunks[0] = first
    if c["backing"] is not None:
        chunks[c["backing_file_offset"]] = bytes.fromhex(c["backing"])
    if c["snaps"]:
        chunks[c["snapshots_offset"]] = q_snap_bytes(c["snaps"])
    size = c["file_size"]
    return chunks, size


def q_file(c):
    chunks, size = q_build(c)
    return core.SparseFile(size, chunks, fill="zero")


def q_gen(rng, tier, malformed=False):
    version = rng.weighted([(3, 6), (2, 3)])
    cb = rng.weighted([(9, 3), (10, 2), (12, 2), (14, 1), (16, 2)])
    cs = 1 << cb
    c = {"magic": Q_MAGIC, "version": version, "cluster_bits": cb, "size": rand_int(rng, 48), "crypt_method": 0,
         "l1_size": rand_int(rng, 20), "l1_table_offset": rand_int(rng, 40) & ~511,
         "refcount_table_offset": rand_int(rng, 40) & ~511, "refcount_table_clusters": rand_int(rng, 10),
         "compat": rand_int(rng, 3), "autoclear": rand_int(rng, 2), "refcount_order": 4, "compression_type": 0,
         "incompat": 0, "malformed": None}
    if version == 3:
        hl = rng.weighted([(104, 3), (112, 5), (120, 1), (128, 1), (200, 1)])
        inc = rng.weighted([(0, 5), (1, 1), (2, 1), (4, 2), (16 if cb >= 14 else 0, 1), (8, 1)])
        c["incompat"] = inc
        c["header_length"] = hl
        if hl > 112:
            c["header_pad"] = rng.randbytes(hl - 112).hex()
    else:
        hl = 72
        c["header_length"] = 72
    # extensions
    maxn = 20 if tier == "thorough" else 8
    n = rng.weighted([(0, 2), (1, 3), (2, 3), (rng.randint(3, maxn), 3)])
    kinds = []
    avail = ["backing_format", "feature", "bitmaps", "crypto"] + (["data_file"] if c["incompat"] & 4 else [])
    rng.shuffle(avail)
    for _ in range(n):
        if avail and rng.chance(0.6):
            kinds.append(avail.pop())
        else:
            kinds.append("unknown")
    if version == 2 and n and "backing_format" not in kinds and rng.chance(0.7):
        kinds[0] = "backing_format"     # the classic v2 image: a backing format extension right after byte 72
    exts = []
    for k in kinds:
        if k == "backing_format":
            s = rng.pick(["qcow2", "raw", "QCOW2", "vmdk", "Raw", rand_text(rng, rng.randint(1, 12))])
            exts.append([EXT_BACKING, s.encode().hex()])
        elif k == "feature":
            exts.append([EXT_FEATURE, rng.randbytes(48 * rng.randint(0, 4)).hex()])
        elif k == "bitmaps":
            exts.append([EXT_BITMAPS, struct.pack(">IIQQ", rand_int(rng, 32), rand_int(rng, 32), rand_int(rng, 64),
                                                  rand_int(rng, 64)).hex()])
        elif k == "crypto":
            exts.append([EXT_CRYPTO, struct.pack(">QQ", rand_int(rng, 64), rand_int(rng, 64)).hex()])
        elif k == "data_file":
            exts.append([EXT_DATA, rand_text(rng, rng.randint(1, 30), extra=" /").encode().hex()])
        else:
            while True:
                m = rng.getrandbits(32)
                if m and m not in KNOWN_EXT:
                    break
            ln = rng.weighted([(0, 2), (1, 1), (7, 1), (8, 1), (9, 1), (15, 1), (16, 1), (rng.randint(0, 300), 5)])
            exts.append([m, rng.randbytes(ln).hex()])
    # keep the area inside the first cluster
    while exts and hl + len(q_ext_bytes(exts)) + 8 + 8 > cs - 64:
        exts.pop()
    c["exts"] = exts
    pos = hl + len(q_ext_bytes(exts))
    end = rng.weighted([("marker", 5), ("fill", 2), ("garbage", 2)])
    backing = None
    if rng.chance(0.5):
        # short names matter: with an exactly-filled extension area nothing but the name separates it from zero bytes
        backing = rng.pick(["base.qcow2", "/var/lib/images/base image.qcow2", rand_text(rng, rng.randint(1, 60), extra=" /"),
                            rng.pick(["a", "b.q", "img1", "vm"]), rand_text(rng, rng.randint(1, 4))])
    if backing is not None and len(backing.encode()) > 1023:
        backing = "base.qcow2"
    c["garbage"] = ""
    if end == "fill" and backing is None:
        # the area must run exactly to the end of the first cluster: add a filler extension
        room = cs - pos
        if room >= 8 and room % 8 == 0 and (room - 8) <= 70000:
            while True:
                m = rng.getrandbits(32)
                if m and m not in KNOWN_EXT:
                    break
            exts.append([m, [rng.randrange(256), room - 8]])
            pos = cs
        else:
            end = "marker"
    if end == "garbage":
        # bytes after the end marker that look like one more extension; never to be reported
        g = struct.pack(">II", EXT_BACKING, 3) + b"RAW" + b"\x00" * 5
        c["garbage"] = g.hex()
    c["end"] = end
    after = pos + (8 if end in ("marker", "garbage") else 0) + len(bytes.fromhex(c["garbage"]))
    if backing is not None:
        bb = backing.encode()
        gap = 0 if end == "fill" else rng.pick([0, 0, 8, 24])
        if after + gap + len(bb) > cs:
            backing = None
        else:
            c["backing_file_offset"] = after + gap
            c["backing_file_size"] = len(bb)
            c["backing"] = bb.hex()
    if backing is None:
        c["backing_file_offset"] = 0
        c["backing_file_size"] = 0
        c["backing"] = None
        if end == "fill" and pos != cs:
            c["end"] = "marker"
    # snapshots
    maxs = 10 if tier == "thorough" else 4
    ns = rng.weighted([(0, 3), (1, 2), (2, 2), (rng.randint(3, maxs), 3)])
    snaps = []
    for i in range(ns):
        xs = rng.weighted([(0, 1), (16, 2), (24, 4), (32, 2), (40, 2)])
        extra = struct.pack(">QQQ", rand_int(rng, 64), rand_int(rng, 64), rand_int(rng, 64)) + rng.randbytes(16)
        snaps.append({"l1_table_offset": rand_int(rng, 48) & ~511, "l1_size": rand_int(rng, 16),
                      "date_sec": rand_int(rng, 32), "date_nsec": rand_int(rng, 30), "vm_clock_nsec": rand_int(rng, 64),
                      "vm_state_size": rand_int(rng, 32), "extra": extra[:xs].hex(),
                      "id": rng.pick([str(i + 1), rand_text(rng, rng.randint(0, 9))]).encode().hex(),
                      "name": (rand_text(rng, rng.weighted([(0, 1), (rng.randint(1, 40), 6)]), extra=" ")
                               + rng.weighted([("", 8), ("\x00", 1), (" ", 1), ("\n", 1)])).encode().hex()})
    c["snaps"] = snaps
    c["nb_snapshots"] = ns
    c["snapshots_offset"] = cs * rng.randint(1, 4) if ns else rng.pick([0, cs])
    c["data_file_given"] = bool(c["incompat"] & 4)
    c["backing_given"] = True
    c["file_size"] = max(c["snapshots_offset"] + len(q_snap_bytes(snaps)) + 64, 3 * cs)
    if malformed:
        q_mutate(rng, c)
    return c


def q_mutate(rng, c):
    cs = 1 << c["cluster_bits"]
    m = rng.pick(["ext_len", "truncate", "bad_utf8", "version", "cluster_bits", "crypt", "magic", "header_length",
                  "nb_snapshots", "snap_sizes", "zstd", "no_data_file", "no_backing", "snap_nopad", "short_first"])
    c["malformed"] = m
    if m == "ext_len" and c["exts"]:
        e = rng.pick(c["exts"])
        e.append(rng.pick([cs, cs * 4, 0xFFFFFFFF, 0xFFFFFFF9, len(q_payload(e)) + 1, max(0, len(q_payload(e)) - 1)]))
    elif m == "truncate":
        c["file_size"] = rng.randint(0, max(1, c["header_length"] + len(q_ext_bytes(c["exts"]))))
    elif m == "bad_utf8":
        bad = rng.pick([b"\xff", b"\xc0\xaf", b"\xed\xa0\x80", b"ab\x80", b"\xf4\x90\x80\x80", b"\xe2\x82"])
        which = rng.pick(["ext", "backing", "snap"])
        if which == "ext":
            c["exts"].insert(0, [rng.pick([EXT_BACKING, EXT_DATA]), bad.hex()])
            first = c["header_length"] + len(q_ext_bytes(c["exts"])) + 8
            if c["backing"] is not None and first > c["backing_file_offset"]:
                c["exts"].pop(0)
        elif which == "backing" and c["backing"] is not None:
            c["backing"] = bad.hex()
            c["backing_file_size"] = len(bad)
        elif c["snaps"]:
            rng.pick(c["snaps"])[rng.pick(["id", "name"])] = bad.hex()
    elif m == "version":
        c["version"] = rng.pick([0, 1, 4, 0xFFFFFFFF])
        c["v2_long"] = True
    elif m == "cluster_bits":
        c["cluster_bits"] = rng.pick([0, 8, 22, 31, 64])
    elif m == "crypt":
        c["crypt_method"] = rng.pick([1, 2])
    elif m == "magic":
        c["magic"] = rng.pick([0, 0x514649FA, 0x4B444D56])
    elif m == "header_length" and c["version"] == 3:
        c["header_length"] = rng.pick([0, 4, 71, 73, 100, 105, 111, 1 << 20, 0xFFFFFFFF])
    elif m == "nb_snapshots":
        c["nb_snapshots"] = rng.pick([len(c["snaps"]) + 1, len(c["snaps"]) + 3, 1 << 16])
        c["file_size"] = c["snapshots_offset"] + len(q_snap_bytes(c["snaps"])) + rng.pick([0, 8, 39, 40])
    elif m == "snap_sizes" and c["snaps"]:
        s = rng.pick(c["snaps"])
        s[rng.pick(["id_size", "name_size", "extra_size"])] = rng.pick([0, 1, 7, 500, 0xFFFF])
    elif m == "zstd" and c["version"] == 3:
        c["compression_type"] = rng.pick([1, 2, 255])
        c["incompat"] |= 8
    elif m == "no_data_file":
        if c["version"] == 3:
            c["incompat"] |= 4
        c["data_file_given"] = False
    elif m == "no_backing":
        c["backing_given"] = False
    elif m == "snap_nopad" and c["snaps"]:
        rng.pick(c["snaps"])["nopad"] = True
    elif m == "short_first":
        c["first_override"] = (q_header_bytes(c) + q_ext_bytes(c["exts"]))[:rng.randint(0, 120)].hex()
        c["file_size"] = len(bytes.fromhex(c["first_override"]))


def q_spec(c):
    """the record, as the exposed values should read (None for malformed cases)"""
    if c.get("malformed"):
        return None, None
    v2 = c["version"] == 2
    e = {"backing_format": None, "feature_table": None, "crypto": None, "bitmaps": None, "image_data_file": None,
         "unknown": []}
    for x in c["exts"]:
        magic, p = x[0], q_payload(x)
        if magic == EXT_BACKING:
            e["backing_format"] = p.decode().upper()
        elif magic == EXT_FEATURE:
            e["feature_table"] = p
        elif magic == EXT_CRYPTO:
            e["crypto"] = list(struct.unpack(">QQ", p))
        elif magic == EXT_BITMAPS:
            e["bitmaps"] = list(struct.unpack(">IIQQ", p))
        elif magic == EXT_DATA:
            e["image_data_file"] = p.decode()
        else:
            e["unknown"].append([magic, len(p), p])
    meta = {"version": c["version"], "cluster_bits": c["cluster_bits"], "size": c["size"],
            "header_length": None if v2 else c["header_length"], "incompat": None if v2 else c["incompat"],
            "has_subclusters": (not v2) and bool(c["incompat"] & 16),
            "compression_type": 0, "exts": e,
            "auto_backing_file": None if c["backing"] is None else bytes.fromhex(c["backing"]).decode()}
    snaps = []
    for s in c["snaps"]:
        extra = bytes.fromhex(s["extra"])
        a, b, d = struct.unpack(">QQQ", extra[:24].ljust(24, b"\x00"))
        snaps.append({"l1_table_offset": s["l1_table_offset"], "l1_size": s["l1_size"], "date_sec": s["date_sec"],
                      "date_nsec": s["date_nsec"], "vm_clock_nsec": s["vm_clock_nsec"],
                      "vm_state_size": s["vm_state_size"], "extra_size": len(extra), "vm_state_size_large": a,
                      "disk_size": b, "icount": d, "unknown_extra": extra[24:] if len(extra) > 24 else None,
                      "id": bytes.fromhex(s["id"]).decode(), "name": bytes.fromhex(s["name"]).decode()})
    return meta, snaps


def q_model(v, v2):
    m, sn = tup(v)

    def meta(x):
        ver, cb, size, hl, inc, ct, ex, bf = tup(x)
        bfm, ft, cr, bm, df, unk = tup(ex)
        bfmt = opt(bfm, s_of)
        e = {"backing_format": None if bfmt is None else bfmt.upper(), "feature_table": opt(ft, b_of),
             "crypto": opt(cr, tup), "bitmaps": opt(bm, tup), "image_data_file": opt(df, s_of),
             "unknown": [[a, b, b_of(p)] for a, b, p in map(tup, unk)]}
        return {"version": ver, "cluster_bits": cb, "size": size, "header_length": None if v2 else hl,
                "incompat": None if v2 else inc, "has_subclusters": bool(inc & 16), "compression_type": ct, "exts": e,
                "auto_backing_file": opt(bf, s_of)}

    def snaps(x):
        out = []
        for s in x:
            f = tup(s)
            out.append({"l1_table_offset": f[0], "l1_size": f[1], "date_sec": f[2], "date_nsec": f[3],
                        "vm_clock_nsec": f[4], "vm_state_size": f[5], "extra_size": f[6], "vm_state_size_large": f[7],
                        "disk_size": f[8], "icount": f[9], "unknown_extra": opt(f[10], b_of), "id": s_of(f[11]),
                        "name": s_of(f[12])})
        return out
    return res_map(m, meta), res_map(sn, snaps)


class Qcow2Suite(Suite):
    name = "qcow2"
    shard = 20
    preamble = ("From Coq Require Import String ZArith List.\nImport ListNotations.\n"
                "From DH Require Import Base.Plan Model.MetaCodec Model.MetaQcow2 Model.MetaHdd Model.MetaView.\n"
                "Open Scope string_scope.\nOpen Scope list_scope.\nOpen Scope Z_scope.\n")

    def generate(self, rng, tier):
        n, nm = (1600, 500) if tier == "thorough" else (100, 35)
        return [q_gen(rng, tier) for _ in range(n)] + [q_gen(rng, tier, malformed=True) for _ in range(nm)]

    def impl(self, case):
        import io

        from dissect.hypervisor.disk import qcow2
        fh = q_file(case)
        v2 = case["version"] == 2

        def op():
            return qcow2.QCow2(fh, data_file=io.BytesIO(b"") if case["data_file_given"] else None,
                               backing_file=qcow2.ALLOW_NO_BACKING_FILE if case["backing_given"] else None)
        r = guard(op)
        if r[0] != "ok":
            return {"open": r, "snaps": None}
        q = r[1]

        def meta():
            return {"version": int(q.header.version), "cluster_bits": int(q.cluster_bits), "size": int(q.size),
                    "header_length": None if v2 else int(q.header.header_length),
                    "incompat": None if v2 else int(q.header.incompatible_features),
                    "has_subclusters": bool(q.has_subclusters), "compression_type": int(q.compression_type),
                    "exts": {"backing_format": q.backing_format,
                             "feature_table": None if q.feature_table is None else bytes(q.feature_table),
                             "crypto": None if q.crypto_header is None else [int(q.crypto_header.offset),
                                                                             int(q.crypto_header.length)],
                             "bitmaps": None if q.bitmap_header is None else [
                                 int(q.bitmap_header.nb_bitmaps), int(q.bitmap_header.reserved32),
                                 int(q.bitmap_header.bitmap_directory_size), int(q.bitmap_header.bitmap_directory_offset)],
                             "image_data_file": q.image_data_file,
                             "unknown": [[int(e.magic), int(e.len), bytes(d)] for e, d in q.unknown_extensions]},
                    "auto_backing_file": q.auto_backing_file}

        def snaps():
            out = []
            for s in q.snapshots:
                out.append({"l1_table_offset": int(s.header.l1_table_offset), "l1_size": int(s.header.l1_size),
                            "date_sec": int(s.header.date_sec), "date_nsec": int(s.header.date_nsec),
                            "vm_clock_nsec": int(s.header.vm_clock_nsec), "vm_state_size": int(s.header.vm_state_size),
                            "extra_size": int(s.header.extra_data_size),
                            "vm_state_size_large": int(s.extra.vm_state_size_large), "disk_size": int(s.extra.disk_size),
                            "icount": int(s.extra.icount),
                            "unknown_extra": None if s.unknown_extra is None else bytes(s.unknown_extra),
                            "id": s.id_str, "name": s.name})
            return out
        res = {"open": guard(meta), "snaps": guard(snaps)}
        if res["open"][0] == "ok" and res["snaps"][0] == "ok":
            # the header view does not depend on which snapshots were opened in between
            hdr0 = bytes(q.header.dumps())
            for s in q.snapshots:
                guard(lambda s=s: s.open().read(512))
            again = {"open": guard(meta), "snaps": guard(snaps)}
            if again != res:
                res["moved"] = f"view after opening the snapshots: {again!r:.300}"
            elif bytes(q.header.dumps()) != hdr0:
                res["moved"] = f"header record after opening the snapshots: {bytes(q.header.dumps()).hex()} (was {hdr0.hex()})"
        return res

    def coq_term(self, case):
        chunks, size = q_build(case)
        t = (f"q_case {core.cbool(HAS_ZSTD)} {core.cbool(case['data_file_given'])} "
             f"{core.cbool(case['backing_given'])} {rd_term(chunks, size)}")
        if case.get("malformed"):
            return f"({t}, true)"
        # tie of the harness serialiser to the writers the theorems are about
        xs = "[" + "; ".join(f"({Z(e[0])}, {bterm(q_payload(e))})" for e in case["exts"]) + "]"
        sn = "[" + "; ".join(
            "{| " + "; ".join(f"ss_{k} := {Z(s[k])}" for k in ("l1_table_offset", "l1_size", "date_sec", "date_nsec",
                                                            "vm_clock_nsec", "vm_state_size"))
            + f"; ss_extra := {bterm(bytes.fromhex(s['extra']))}; ss_id := {bterm(bytes.fromhex(s['id']))}; "
              f"ss_name := {bterm(bytes.fromhex(s['name']))} |}}" for s in case["snaps"]) + "]"
        return (f"({t}, q_render_check {xs} {bterm(q_ext_bytes(case['exts']))} {sn} {bterm(q_snap_bytes(case['snaps']))})")

    def judge(self, case, impl_res, coq_val):
        f = fault("qcow2", impl_res)
        if f:
            return f
        fs = []
        if impl_res.get("moved"):
            fs.append(Finding("impl_vs_spec", f"qcow2: the exposed {impl_res['moved']}", "qcow2:history"))
        spec_m, spec_s = q_spec(case)
        _, cm, cs_, tie = coq_val          # ((meta, snaps), tie) prints flattened
        coq_val = ("", cm, cs_)
        if tie != "true":
            fs.append(Finding("model_vs_spec", "qcow2: the harness serialiser and the Coq writers (ext_render / snaps_render) "
                              "produce different bytes for this record", "qcow2:serialiser-tie"))
        mm, ms = q_model(coq_val, case["version"] == 2)
        three_way("qcow2", case, impl_res["open"], mm, spec_m, fs, "open")
        if impl_res["open"][0] == "ok" or mm[0] == "ok":
            isn = impl_res["snaps"] if impl_res["snaps"] is not None else ("exc", "n/a", "", "")
            if impl_res["open"][0] == "ok" and mm[0] == "ok":
                three_way("qcow2", case, isn, ms, spec_s, fs, "snapshots")
        return fs

    def nontrivial(self, case, impl_res, coq_val):
        if case.get("malformed"):
            return None
        if len(case["exts"]) + len(case["snaps"]) >= 2 or (case["backing"] and nonascii(bytes.fromhex(case["backing"]).decode())):
            return core.sha(core.jdump(case).encode())
        return None

    def dist(self, case):
        lens = [len(q_payload(e)) for e in case["exts"]]
        return {"version": case["version"], "header_length": case["header_length"], "cluster_bits": case["cluster_bits"],
                "n_exts": min(len(lens), 9), "unaligned_ext": any(n % 8 for n in lens), "end": case["end"],
                "backing": case["backing"] is not None, "n_snaps": min(len(case["snaps"]), 6),
                "snap_extra": ",".join(sorted({str(len(s["extra"]) // 2) for s in case["snaps"]})),
                "malformed": case.get("malformed") or "no"}



# ============================================================================ VHDX
from uuid import UUID  # noqa: E402

G = {k: UUID(v) for k, v in {
    "bat": "2DC27766-F623-4200-9D64-115E9BFD4A08", "metadata": "8B7CA206-4790-4B9A-B8FE-575F050F886E",
    "file_parameters": "CAA16737-FA36-4D43-B3B6-33F0AA44E76B", "size": "2FA54224-CD1B-4876-B211-5DBED83BF4B8",
    "id": "BECA12AB-B2E6-4523-93EF-C309E000C746", "logical": "8141BF1D-A96F-4709-BA47-F233A8FAAB5F",
    "physical": "CDA348C7-445D-4471-9CC9-E9885251C556", "locator": "A8D35F2D-B30B-454D-ABF7-D3D84834AB0C",
    "vhdx_locator_type": "B04AEFB7-D19E-4A81-B789-25B8E9445913"}.items()}
KB64 = 65536


def x_header_bytes(h):
    return (bytes.fromhex(h["signature"]) + struct.pack("<IQ", h["checksum"], h["seq"]) + bytes.fromhex(h["file_write_guid"])
            + bytes.fromhex(h["data_write_guid"]) + bytes.fromhex(h["log_guid"])
            + struct.pack("<HHIQ", h["log_version"], h["version"], h["log_length"], h["log_offset"]))


def x_region_bytes(t):
    out = bytes.fromhex(t["signature"]) + struct.pack("<II", t["checksum"], t.get("count", len(t["entries"]))) + b"\x00" * 4
    for g, off, ln, req in t["entries"]:
        out += UUID(g).bytes_le + struct.pack("<QII", off, ln, req)
    return out


def x_locator_bytes(loc):
    """header + entry table + strings placed as the case dictates"""
    ents = loc["entries"]
    n = len(ents)
    table_end = 20 + 12 * n
    blobs = []
    for i, (k, v) in enumerate(ents):
        kb = bytes.fromhex(loc["raw"][i][0]) if loc.get("raw") else k.encode("utf-16-le")
        vb = bytes.fromhex(loc["raw"][i][1]) if loc.get("raw") else v.encode("utf-16-le")
        blobs.append((i, 0, kb))
        blobs.append((i, 1, vb))
    order = loc.get("order") or list(range(len(blobs)))
    pos = table_end + loc.get("lead_gap", 0)
    where = {}
    body = b""
    for bi in order:
        i, kv, b = blobs[bi]
        where[(i, kv)] = pos
        body += b + b"\x00" * loc.get("gap", 0)
        pos += len(b) + loc.get("gap", 0)
    out = UUID(loc["type"]).bytes_le + struct.pack("<HH", 0, loc.get("count", n))
    for i in range(n):
        out += struct.pack("<IIHH", where[(i, 0)], where[(i, 1)], len(blobs[2 * i][2]), len(blobs[2 * i + 1][2]))
    return out + b"\x00" * loc.get("lead_gap", 0) + body


def x_item_bytes(c, name):
    if name == "file_parameters":
        return struct.pack("<II", c["block_size"], (c["leave_allocated"] & 1) | ((c["has_parent"] & 1) << 1)
                           | (c.get("fp_reserved", 0) << 2))
    if name == "size":
        return struct.pack("<Q", c["size"])
    if name == "id":
        return bytes.fromhex(c["id"])
    if name == "logical":
        return struct.pack("<I", c["sector_size"])
    if name == "physical":
        return struct.pack("<I", c["physical_sector_size"])
    if name == "locator":
        return x_locator_bytes(c["locator"])
    return bytes.fromhex(c["unknown_item"])


def x_build(c):
    chunks = {0: bytes.fromhex(c["file_sig"]) + "verif".encode("utf-16-le")}
    chunks[KB64] = x_header_bytes(c["h1"])
    chunks[2 * KB64] = x_header_bytes(c["h2"])
    chunks[3 * KB64] = x_region_bytes(c["rt1"])
    chunks[4 * KB64] = x_region_bytes(c["rt2"])
    mo = c["metadata_offset"]
    items = c["items"]            # [name, guid, rel offset, flags]
    md = bytes.fromhex(c["meta_sig"]) + b"\x00\x00" + struct.pack("<H", c.get("meta_count", len(items))) + b"\x00" * 20
    for name, g, rel, flags in items:
        md += UUID(g).bytes_le + struct.pack("<III", rel, len(x_item_bytes(c, name)), flags) + b"\x00" * 4
    chunks[mo] = md
    for name, g, rel, flags in items:
        chunks[mo + rel] = x_item_bytes(c, name)
    return chunks, c["file_size"]


def x_gen(rng, tier, malformed=False, parent_ok=True):
    def hdr(seq):
        return {"signature": b"head".hex(), "checksum": rng.getrandbits(32), "seq": seq,
                "file_write_guid": rng.randbytes(16).hex(), "data_write_guid": rng.randbytes(16).hex(),
                "log_guid": rng.pick([bytes(16), rng.randbytes(16)]).hex(), "log_version": 0, "version": 1,
                "log_length": rng.pick([0, 1 << 20]), "log_offset": rng.pick([0, 1 << 20])}
    a = rand_int(rng, 64)
    rel = rng.weighted([("gt", 3), ("lt", 3), ("eq", 1), ("adjacent", 3)])
    if rel == "gt":
        s1, s2 = max(a, 1), rng.randrange(0, max(a, 1))
    elif rel == "lt":
        s2, s1 = max(a, 1), rng.randrange(0, max(a, 1))
    elif rel == "adjacent":
        b = min(a, (1 << 64) - 2)
        s1, s2 = (b, b + 1) if rng.chance(0.5) else (b + 1, b)
    else:
        s1 = s2 = a
    h1, h2 = hdr(s1), hdr(s2)
    if rel == "eq":
        h2 = dict(h1)
    has_parent = 1 if (parent_ok and rng.chance(0.5)) else 0
    mo = KB64 * rng.randint(5, 9)
    bat_off = (1 << 20) * rng.randint(1, 5)
    regions = [[str(G["bat"]), bat_off, 1 << 20, 1], [str(G["metadata"]), mo, 1 << 20, 1]]
    for _ in range(rng.weighted([(0, 4), (1, 1), (3, 1)])):
        regions.append([str(UUID(bytes=rng.randbytes(16))), (1 << 20) * rng.randint(6, 50), 1 << 20, 0])
    rng.shuffle(regions)
    rt = {"signature": b"regi".hex(), "checksum": rng.getrandbits(32), "entries": regions}
    c = {"file_sig": b"vhdxfile".hex(), "h1": h1, "h2": h2, "seq_rel": rel, "rt1": rt, "rt2": dict(rt),
         "metadata_offset": mo, "meta_sig": b"metadata".hex(),
         "block_size": (1 << 20) * rng.pick([1, 2, 8, 32, 256]), "leave_allocated": rng.randrange(2),
         "has_parent": has_parent, "size": rng.weighted([(rand_int(rng, 44) or 1, 3), ((1 << 20) * rng.randint(1, 9999), 3)]),
         "id": rng.randbytes(16).hex(), "sector_size": rng.pick([512, 4096]), "physical_sector_size": rng.pick([512, 4096]),
         "malformed": None}
    names = ["file_parameters", "size", "id", "logical", "physical"] + (["locator"] if has_parent or rng.chance(0.15) else [])
    if "locator" in names:
        maxe = 12
        ne = rng.weighted([(1, 2), (3, 3), (5, 3), (rng.randint(1, maxe), 3)])
        ents = [["relative_path", rng.pick(["parent.vhdx", ".\\parent.vhdx"])]]
        std = [("parent_linkage", "{%s}" % UUID(bytes=rng.randbytes(16))), ("parent_linkage2", "{%s}" % UUID(bytes=rng.randbytes(16))),
               ("volume_path", "\\\\?\\Volume{%s}\\dir\\parent.vhdx" % UUID(bytes=rng.randbytes(16))),
               ("absolute_win32_path", "C:\\" + rand_text(rng, rng.randint(1, 30), extra=" \\") + "\\parent.vhdx")]
        rng.shuffle(std)
        while len(ents) < ne:
            if std and rng.chance(0.7):
                ents.append(list(std.pop()))
            else:
                k = rng.weighted([("", 12), ("\ufeff", 1), ("\ufffe", 1)]) + rand_text(rng, rng.randint(1, 12))
                if all(k != e[0] for e in ents):
                    # (strings are UTF-16LE without a byte order mark: a leading U+FEFF / U+FFFE is part of the string)
                    ents.append([k, rng.weighted([("", 8), ("\ufeff", 1), ("\ufffe", 1)]) + rand_text(rng, rng.weighted([(0, 1), (rng.randint(1, 80), 5)]), extra=" \\")
                                 + rng.weighted([("", 8), ("\x00", 1), (" ", 1)])])
        rng.shuffle(ents)
        order = list(range(2 * len(ents)))
        if rng.chance(0.5):
            rng.shuffle(order)
        c["locator"] = {"type": str(G["vhdx_locator_type"]), "entries": ents, "order": order,
                        "gap": rng.pick([0, 0, 2, 5]), "lead_gap": rng.pick([0, 0, 4])}
    rng.shuffle(names)
    items = []
    rel_off = 32 + 32 * (len(names) + 2) + rng.pick([0, 16, 1000])
    for nme in names:
        flags = {"file_parameters": 4, "size": 6, "id": 6, "logical": 6, "physical": 6, "locator": 4}[nme]
        items.append([nme, str(G[nme]), rel_off, flags])
        rel_off += len(x_item_bytes(c, nme)) + rng.pick([0, 3, 8, 64])
    c["items"] = items
    c["file_size"] = mo + rel_off + 64
    if malformed:
        x_mutate(rng, c)
    return c


def x_mutate(rng, c):
    m = rng.pick(["file_sig", "head_sig", "regi_sig", "meta_sig", "truncate", "region_count", "meta_count", "no_region",
                  "no_item", "unknown_item", "zero", "locator_type", "bad_utf16", "dup_key", "dup_region", "block0",
                  "locator_count"])
    c["malformed"] = m
    loc = c.get("locator")
    if m == "file_sig":
        c["file_sig"] = b"vhdxfilf".hex()
    elif m == "head_sig":
        which = rng.pick(["h1", "h2"])
        c[which]["signature"] = b"hear".hex()
    elif m == "regi_sig":
        c[rng.pick(["rt1", "rt2"])] = dict(c["rt1"], signature=b"regx".hex())
    elif m == "meta_sig":
        c["meta_sig"] = b"metadatb".hex()
    elif m == "truncate":
        c["file_size"] = rng.pick([0, 100, 520, KB64 + 10, KB64 + 4176, 2 * KB64 + 4175, 3 * KB64 + 20, 4 * KB64 + 16,
                                   c["metadata_offset"] + 40, c["metadata_offset"] + c["items"][-1][2] + 2])
    elif m == "region_count":
        c["rt1"] = dict(c["rt1"], count=rng.pick([0, len(c["rt1"]["entries"]) - 1, 1 << 20, 0xFFFFFFFF]))
    elif m == "meta_count":
        c["meta_count"] = rng.pick([0, len(c["items"]) - 1, 0xFFFF])
    elif m == "no_region":
        drop = str(G[rng.pick(["bat", "metadata"])])
        c["rt1"] = dict(c["rt1"], entries=[e for e in c["rt1"]["entries"] if e[0] != drop])
    elif m == "no_item":
        drop = rng.pick(["file_parameters", "size", "id", "logical", "locator"])
        c["items"] = [i for i in c["items"] if i[0] != drop]
    elif m == "unknown_item":
        c["unknown_item"] = rng.randbytes(8).hex()
        c["items"].insert(rng.randrange(len(c["items"]) + 1),
                          ["unknown", str(UUID(bytes=rng.randbytes(16))), c["items"][-1][2] + 4096, 1])
    elif m == "zero":
        c[rng.pick(["size", "sector_size"])] = 0
    elif m == "locator_type" and loc:
        loc["type"] = str(UUID(bytes=rng.randbytes(16)))
    elif m == "bad_utf16" and loc:
        loc["raw"] = [[k.encode("utf-16-le").hex(), v.encode("utf-16-le").hex()] for k, v in loc["entries"]]
        i = rng.randrange(len(loc["raw"]))
        if loc["entries"][i][0] != "relative_path":
            loc["raw"][i][rng.randrange(2)] = rng.pick([b"a", b"\x00\xd8", b"\x00\xdc\x41\x00", b"\x00\xd8\x41\x00",
                                                         b"a\x00b"]).hex()
    elif m == "dup_key" and loc:
        k, v = rng.pick(loc["entries"])
        if k != "relative_path":
            loc["entries"].append([k, v + "2"])
            loc["order"] = None
    elif m == "dup_region":
        e = list(rng.pick(c["rt1"]["entries"]))
        e[1] += 1 << 20
        c["rt1"] = dict(c["rt1"], entries=c["rt1"]["entries"] + [e])
    elif m == "block0":
        c["block_size"] = 0
    elif m == "locator_count" and loc:
        loc["count"] = rng.pick([0, len(loc["entries"]) - 1, 0xFFFF])


def x_hdr_spec(h):
    return {"signature": bytes.fromhex(h["signature"]), "seq": h["seq"], "file_write_guid": bytes.fromhex(h["file_write_guid"]),
            "data_write_guid": bytes.fromhex(h["data_write_guid"]), "log_guid": bytes.fromhex(h["log_guid"]),
            "log_version": h["log_version"], "version": h["version"], "log_length": h["log_length"],
            "log_offset": h["log_offset"]}


def x_spec(c):
    if c.get("malformed"):
        return None
    act = c["h1"] if c["h1"]["seq"] > c["h2"]["seq"] else c["h2"]
    loc = None
    if c["has_parent"]:
        loc = {"type": UUID(c["locator"]["type"]).int, "entries": {k: v for k, v in c["locator"]["entries"]}}
    return {"active": x_hdr_spec(act), "h1": x_hdr_spec(c["h1"]), "h2": x_hdr_spec(c["h2"]),
            "regions1": [[UUID(g).int, o, ln, r] for g, o, ln, r in c["rt1"]["entries"]],
            "regions2": [[UUID(g).int, o, ln, r] for g, o, ln, r in c["rt2"]["entries"]],
            "mentries": [[UUID(g).int, rel, len(x_item_bytes(c, n)), f & 1, (f >> 1) & 1, (f >> 2) & 1]
                         for n, g, rel, f in c["items"]],
            "size": c["size"], "block_size": c["block_size"], "has_parent": c["has_parent"],
            "sector_size": c["sector_size"], "id": UUID(bytes_le=bytes.fromhex(c["id"])).int, "locator": loc,
            "bat_offset": [e for e in c["rt1"]["entries"] if e[0] == str(G["bat"])][0][1]}


def x_model(v):
    def hv(x):
        f = tup(x)
        return {"signature": b_of(f[0]), "seq": f[1], "file_write_guid": b_of(f[2]), "data_write_guid": b_of(f[3]),
                "log_guid": b_of(f[4]), "log_version": f[5], "version": f[6], "log_length": f[7], "log_offset": f[8]}

    def meta(x):
        _, act, h1, h2, r1, r2, me, vals, loc, bat = tup(x)
        size, bs, hp, ss, idv = tup(vals)
        return {"active": hv(act), "h1": hv(h1), "h2": hv(h2), "regions1": [tup(r) for r in r1],
                "regions2": [tup(r) for r in r2], "mentries": [tup(e) for e in me], "size": size, "block_size": bs,
                "has_parent": hp, "sector_size": ss, "id": idv,
                "locator": opt(loc, lambda l: {"type": tup(l)[0],
                                               "entries": {s_of(k): s_of(w) for k, w in map(tup, tup(l)[1])}}),
                "bat_offset": bat}
    return res_map(v, meta)


_PARENT_CACHE = {}


def x_parent_bytes():
    if "b" not in _PARENT_CACHE:
        rng = core.Rng(12345)
        pc = x_gen(rng, "quick", parent_ok=False)
        chunks, size = x_build(pc)
        _PARENT_CACHE["b"] = core.SparseFile(size, chunks, fill="zero").content(0, size)
    return _PARENT_CACHE["b"]


class VhdxSuite(Suite):
    name = "vhdx"
    shard = 15
    preamble = Qcow2Suite.preamble

    def generate(self, rng, tier):
        n, nm = (900, 300) if tier == "thorough" else (60, 25)
        return [x_gen(rng, tier) for _ in range(n)] + [x_gen(rng, tier, malformed=True) for _ in range(nm)]

    def impl(self, case):
        from dissect.hypervisor.disk import vhdx
        chunks, size = x_build(case)
        os.makedirs(SCRATCH, exist_ok=True)
        d = tempfile.mkdtemp(dir=SCRATCH)
        try:
            with open(os.path.join(d, "parent.vhdx"), "wb") as fh:
                fh.write(x_parent_bytes())
            fh = core.SparseFile(size, chunks, fill="zero", name=os.path.join(d, "child.vhdx"))

            def hv(h):
                return {"signature": bytes(h.signature), "seq": int(h.sequence_number),
                        "file_write_guid": bytes(h.file_write_guid), "data_write_guid": bytes(h.data_write_guid),
                        "log_guid": bytes(h.log_guid), "log_version": int(h.log_version), "version": int(h.version),
                        "log_length": int(h.log_length), "log_offset": int(h.log_offset)}

            def snapshot(v):
                """what the object exposes about ITS file: the metadata items by GUID, the region entries, the sizes"""
                items = {}
                for g, val in sorted(v.metadata.lookup.items(), key=lambda kv: kv[0].int):
                    if hasattr(val, "dumps"):
                        items[g.int] = bytes(val.dumps())
                    else:
                        items[g.int] = [getattr(val, "type", None) and val.type.int, sorted(dict(val.entries).items())]
                return {"items": items, "regions": sorted((k.int, int(e.file_offset)) for t in v.region_tables
                                                          for k, e in t.lookup.items()),
                        "size": int(v.size), "block_size": int(v.block_size), "sector_size": int(v.sector_size), "id": v.id.int}

            def op():
                v = vhdx.VHDX(fh)
                # history: another, unrelated image is opened in the same process before the views are taken; what this
                # object exposes must still be what its own file stores
                before = snapshot(v)
                other = vhdx.VHDX(io.BytesIO(x_parent_bytes()))
                after = snapshot(v)
                history = [k for k in before if before[k] != after[k]] + ([] if other.id.int != v.id.int else ["same-id"])
                loc = None
                if v.parent_locator is not None:
                    loc = {"type": v.parent_locator.type.int, "entries": dict(v.parent_locator.entries)}
                return {"active": hv(v.header), "h1": hv(v.headers[0]), "h2": hv(v.headers[1]),
                        "regions1": [[UUID(bytes_le=bytes(e.guid)).int, int(e.file_offset), int(e.length), int(e.required)]
                                     for e in v.region_tables[0].entries],
                        "regions2": [[UUID(bytes_le=bytes(e.guid)).int, int(e.file_offset), int(e.length), int(e.required)]
                                     for e in v.region_tables[1].entries],
                        "mentries": [[UUID(bytes_le=bytes(e.item_id)).int, int(e.offset), int(e.length), int(e.is_user),
                                      int(e.is_virtual_disk), int(e.is_required)] for e in v.metadata.entries],
                        "size": int(v.size), "block_size": int(v.block_size), "has_parent": int(v.has_parent),
                        "sector_size": int(v.sector_size), "id": v.id.int, "locator": loc, "bat_offset": int(v.bat.offset),
                        "history": history}
            return {"open": guard(op)}
        finally:
            shutil.rmtree(d, ignore_errors=True)

    def coq_term(self, case):
        chunks, size = x_build(case)
        t = f"x_case {rd_term(chunks, size)}"
        loc = case.get("locator")
        if (case.get("malformed") or not loc or loc.get("gap") or loc.get("lead_gap") or loc.get("raw")
                or loc.get("order") != list(range(2 * len(loc["entries"])))):
            return f"({t}, true)"
        kvs = "[" + "; ".join(f"({cps(k)}, {cps(v)})" for k, v in loc["entries"]) + "]"
        return f"({t}, x_render_check {bterm(UUID(loc['type']).bytes_le)} {kvs} {bterm(x_locator_bytes(loc))})"

    def judge(self, case, impl_res, coq_val):
        f = fault("vhdx", impl_res)
        if f:
            return f
        fs = []
        if impl_res["open"][0] == "ok":
            hist = impl_res["open"][1].pop("history", None)
            if hist and hist != ["same-id"]:
                fs.append(Finding("impl_vs_spec", f"vhdx: the exposed {hist} of an open image changed when another, unrelated "
                                  "VHDX was opened in the same process", "vhdx:history"))
        _, coq_val, tie = coq_val
        if tie != "true":
            fs.append(Finding("model_vs_spec", "vhdx: the harness serialiser and the Coq writer (locator_render) produce "
                              "different bytes for this locator", "vhdx:serialiser-tie"))
        three_way("vhdx", case, impl_res["open"], x_model(coq_val), x_spec(case), fs, "open")
        return fs

    def nontrivial(self, case, impl_res, coq_val):
        if case.get("malformed"):
            return None
        loc = case.get("locator")
        if case["seq_rel"] != "eq" and (not loc or len(loc["entries"]) >= 2):
            return core.sha(core.jdump(case).encode())
        return None

    def dist(self, case):
        loc = case.get("locator")
        return {"seq": case["seq_rel"], "has_parent": case["has_parent"],
                "locator_entries": len(loc["entries"]) if loc else "none",
                "locator_nonascii": bool(loc and any(nonascii(k + v) for k, v in loc["entries"])),
                "locator_shuffled": bool(loc and loc.get("order") != list(range(2 * len(loc["entries"])))),
                "regions": len(case["rt1"]["entries"]), "items_first": case["items"][0][0] if case["items"] else "none",
                "malformed": case.get("malformed") or "no"}



# ============================================================================ VMDK
EXTENT_TYPES = ["SPARSE", "ZERO", "FLAT", "VMFS", "VMFSSPARSE", "VMFSRDM", "VMFSRAW", "SESPARSE"]
WS_END = " \t\r\x0b\x0c\x1c\x1d\x1e\x1f\x85\xa0\u1680\u2000\u2003\u200a\u2028\u2029\u202f\u205f\u3000"


LINEISH = "\x0b\x0c\x1c\x1d\x1e\x85\u2028\u2029"     # line boundaries for str.splitlines(), not for the format ("\n" only)


def lineish(rng, v, p=0.12):
    """now and then one character in the middle of a value or file name is one that some line splitters break at"""
    if len(v) >= 3 and rng.chance(p):
        i = rng.randrange(1, len(v) - 1)
        return v[:i] + rng.pick(LINEISH) + v[i + 1:]
    return v


def d_value(rng, n):
    while True:
        v = lineish(rng, rand_text(rng, n, extra=" =#/\\:;,()[]{}'"))
        if not v or (v[0] not in WS_END + '"' and v[-1] not in WS_END + '"'):
            return v


def d_key(rng, ddb=False):
    while True:
        k = rand_text(rng, rng.randint(1, 14), extra=".")
        if ddb:
            k = "ddb." + k
        if k[0] in "#=" or "=" in k or (not ddb and k.startswith("ddb.")) or k.startswith(("RW ", "RDONLY ", "NOACCESS ")):
            continue
        if k[0] in WS_END or k[-1] in WS_END:
            continue
        return k


def d_gen(rng, tier, max_lines=40):
    """-> record {attrs, extents, ddb, style...} and the rendered text"""
    attrs = [["version", "1"], ["CID", "%08x" % rng.getrandbits(32)], ["parentCID", "ffffffff"],
             ["createType", rng.pick(["monolithicSparse", "vmfs", "twoGbMaxExtentSparse", "seSparse", "custom"])]]
    if rng.chance(0.3):
        attrs.append(["parentFileNameHint", rng.pick(["parent.vmdk", "/vmfs/volumes/ds 1/vm/parent disk.vmdk",
                                                       "C:\\VMs\\" + rand_text(rng, 8) + ".vmdk"])])
    for _ in range(rng.weighted([(0, 3), (1, 2), (rng.randint(2, 8), 2)])):
        k = d_key(rng)
        if all(k != a[0] for a in attrs):
            attrs.append([k, d_value(rng, rng.weighted([(0, 1), (rng.randint(1, 40), 5)]))])
    if rng.chance(0.1):
        attrs = attrs[rng.randrange(len(attrs)):]
    rng.shuffle(attrs)
    extents = []
    for _ in range(rng.weighted([(0, 1), (1, 4), (2, 2), (rng.randint(3, 12), 2)])):
        ty = rng.weighted([(t, 2) for t in EXTENT_TYPES])
        e = {"access": rng.pick(["RW", "RDONLY", "NOACCESS"]), "sectors": rand_int(rng, 40), "type": ty,
             "filename": None, "start": None, "partition": None, "device": None,
             "sep": " ", "lead0": rng.chance(0.1)}
        if ty != "ZERO" or rng.chance(0.2):
            fn = rng.pick(["disk-s001.vmdk", "my disk-flat.vmdk", lineish(rng, rand_text(rng, rng.randint(1, 30), extra=" =#'()"), 0.3)])
            e["filename"] = fn
            if ty in ("FLAT", "VMFS", "VMFSRAW", "VMFSRDM") or rng.chance(0.2):
                e["start"] = rand_int(rng, 32)
                if ty in ("VMFSRAW", "VMFSRDM") and rng.chance(0.6):
                    e["partition"] = rng.pick(["%032x" % rng.getrandbits(128), rand_text(rng, 8, extra=":")])
                    if rng.chance(0.5):
                        e["device"] = rand_text(rng, rng.randint(1, 20), extra=":/")
        extents.append(e)
    ddb = []
    std = [["ddb.adapterType", rng.pick(["lsilogic", "ide", "buslogic"])], ["ddb.geometry.cylinders", str(rng.randint(1, 99999))],
           ["ddb.geometry.heads", "255"], ["ddb.geometry.sectors", "63"], ["ddb.virtualHWVersion", str(rng.randint(4, 21))],
           ["ddb.uuid", " ".join("%02x" % rng.randrange(256) for _ in range(16))],
           ["ddb.longContentID", "%032x" % rng.getrandbits(128)], ["ddb.thinProvisioned", "1"]]
    rng.shuffle(std)
    for _ in range(rng.weighted([(0, 1), (3, 3), (rng.randint(1, 8), 3)])):
        if std and rng.chance(0.75):
            ddb.append(std.pop())
        else:
            k = d_key(rng, ddb=True)
            if all(k != a[0] for a in ddb):
                ddb.append([k, d_value(rng, rng.randint(0, 30))])
    nl = rng.weighted([("\n", 6), ("\r\n", 2)])
    lines = ["# Disk DescriptorFile"]

    def kv(k, v, ddbstyle):
        st = rng.weighted([("ddb", 4 if ddbstyle else 1), ("plain", 1 if ddbstyle else 3), ("quoted", 2), ("spaced", 1)])
        if st == "plain" and (v == "" or v[0] in WS_END or v[-1] in WS_END):
            st = "quoted"
        body = {"ddb": f'{k} = "{v}"', "plain": f"{k}={v}", "quoted": f'{k}="{v}"', "spaced": f'{k}  =   "{v}"'}[st]
        return rng.pick(["", "", "", " ", "\t", "   "]) + body + rng.pick(["", "", "", " ", "  \t"])
    for k, v in attrs:
        lines.append(kv(k, v, False))
        if rng.chance(0.1):
            lines.append(rng.pick(["", "# comment = 1", "   ", "#RW 1 SPARSE \"x\""]))
    lines += ["", "# Extent description"]
    for e in extents:
        sp = e["sep"]
        secs = ("0" if e["lead0"] else "") + str(e["sectors"])
        ln = f'{e["access"]}{sp}{secs}{sp}{e["type"]}'
        if e["filename"] is not None:
            ln += f'{sp}"{e["filename"]}"'
        if e["start"] is not None:
            ln += f'{sp}{e["start"]}'
        if e["partition"] is not None:
            ln += f'{sp}{e["partition"]}'
        if e["device"] is not None:
            ln += f'{sp}{e["device"]}'
        e["line"] = ln
        lines.append(rng.pick(["", "", " "]) + ln + rng.pick(["", "", " "]))
    lines += ["", "# The Disk Data Base", "#DDB", ""]
    for k, v in ddb:
        lines.append(kv(k, v, True))
    text = nl.join(lines) + rng.pick(["", nl, nl + nl])
    return {"attrs": attrs, "extents": extents, "ddb": ddb, "text": text, "nl": "crlf" if nl != "\n" else "lf"}


def d_spec(r):
    return {"attr": {k: v for k, v in r["attrs"]}, "ddb": {k: v for k, v in r["ddb"]},
            "extents": [{"raw": e["line"], "access": e["access"], "sectors": e["sectors"], "type": e["type"],
                         "filename": e["filename"], "start": e["start"], "partition": e["partition"], "device": e["device"]}
                        for e in r["extents"]],
            "sectors": sum(e["sectors"] for e in r["extents"])}


def d_impl(d):
    return {"attr": dict(d.attr), "ddb": dict(d.ddb),
            "extents": [{"raw": e.raw, "access": e.access_mode, "sectors": e.sectors, "type": e.type, "filename": e.filename,
                         "start": e.start_sector, "partition": e.partition_uuid, "device": e.device_identifier}
                        for e in d.extents],
            "sectors": d.sectors}


def d_model(x):
    attr, exts, ddb, sectors = tup(x)
    out = []
    for e in exts:
        raw, am, sec, ty, fn, st, pu, di = tup(e)
        out.append({"raw": s_of(raw), "access": s_of(am), "sectors": sec, "type": s_of(ty), "filename": opt(fn, s_of),
                    "start": opt(st), "partition": opt(pu, s_of), "device": opt(di, s_of)})
    return {"attr": {s_of(k): s_of(v) for k, v in map(tup, attr)}, "ddb": {s_of(k): s_of(v) for k, v in map(tup, ddb)},
            "extents": out, "sectors": sectors}


VMDK_FIELDS = ["magic", "version", "flags", "capacity", "grain_size", "descriptor_offset", "descriptor_size",
               "num_grain_table_entries", "secondary_grain_directory_offset", "primary_grain_directory_offset", "overhead",
               "is_dirty", "single_end_line_char", "non_end_line_char", "double_end_line_chars", "compress_algorithm", "pad"]
COWD_FIELDS = ["magic", "version", "flags", "capacity", "grain_size", "primary_grain_directory_offset",
               "num_grain_directory_entries", "next_free_grain"]
SE_FIELDS = ["magic", "version", "capacity", "grain_size", "grain_table_size", "flags", "reserved1", "reserved2", "reserved3",
             "reserved4", "volatile_header_offset", "volatile_header_size", "journal_header_offset", "journal_header_size",
             "journal_offset", "journal_size", "grain_directory_offset", "grain_directory_size", "grain_tables_offset",
             "grain_tables_size", "free_bitmap_offset", "free_bitmap_size", "backmap_offset", "backmap_size", "grains_offset",
             "grains_size", "pad"]


def s_header_bytes(kind, h):
    if kind == "vmdk":
        return struct.pack("<4sIIQQQQIQQQB1s1s2sH", bytes.fromhex(h["magic"]), h["version"], h["flags"], h["capacity"],
                           h["grain_size"], h["descriptor_offset"], h["descriptor_size"], h["num_grain_table_entries"],
                           h["secondary_grain_directory_offset"], h["primary_grain_directory_offset"], h["overhead"],
                           h["is_dirty"], bytes.fromhex(h["single_end_line_char"]), bytes.fromhex(h["non_end_line_char"]),
                           bytes.fromhex(h["double_end_line_chars"]), h["compress_algorithm"]) + bytes.fromhex(h["pad"])
    if kind == "cowd":
        return struct.pack("<4s7I", bytes.fromhex(h["magic"]), *[h[f] for f in COWD_FIELDS[1:]])
    return struct.pack("<26Q", *[h[f] for f in SE_FIELDS[:-1]]) + bytes.fromhex(h["pad"])


def s_gen(rng, tier, malformed=False):
    kind = rng.weighted([("vmdk", 6), ("cowd", 2), ("sesparse", 2)])
    c = {"kind": kind, "malformed": None, "desc": None, "footer": False}
    chunks_extra = {}
    if kind == "vmdk":
        gs = rng.pick([1, 8, 16, 128])
        gte = rng.pick([1, 4, 512])
        ngd = rng.randint(1, 6)
        cap = max(1, gs * gte * ngd - rng.randrange(0, gs * gte))
        desc = d_gen(rng, tier) if rng.chance(0.75) else None
        doff = rng.randint(1, 3)
        dsz = 0
        if desc is not None and rng.chance(0.3):
            # the text fills its area exactly (no terminator, no padding) and its last character matters: an unquoted value
            # on a last line without a line end
            nl = "\r\n" if desc["nl"] == "crlf" else "\n"
            text = desc["text"] if desc["text"].endswith(nl) else desc["text"] + nl
            base = len((text + "ddb.pad=").encode())
            k = (-base) % 512 or 512
            val = "".join(rng.choice("0123456789") for _ in range(k - 1)) + rng.choice("123456789")
            desc["ddb"].append(["ddb.pad", val])
            desc["text"] = text + "ddb.pad=" + val
        if desc is not None:
            tb = desc["text"].encode()
            dsz = (len(tb) + 511) // 512 + rng.pick([0, 0, 1])
            if len(tb) % 512 == 0 and rng.chance(0.5):
                dsz = len(tb) // 512
            desc["fill"] = rng.pick(["nul", "nul", "nul+garbage"])
        gdo = doff + dsz + rng.randint(0, 3)
        h = {"magic": b"KDMV".hex(), "version": rng.pick([1, 2, 3]), "flags": rng.pick([3, 0x30001, 0x10003, rand_int(rng, 32)]),
             "capacity": cap, "grain_size": gs, "descriptor_offset": doff if dsz else rng.pick([0, doff]), "descriptor_size": dsz,
             "num_grain_table_entries": gte, "secondary_grain_directory_offset": rand_int(rng, 40),
             "primary_grain_directory_offset": gdo, "overhead": rand_int(rng, 30), "is_dirty": rng.randrange(2),
             "single_end_line_char": b"\n".hex(), "non_end_line_char": b" ".hex(), "double_end_line_chars": b"\r\n".hex(),
             "compress_algorithm": rng.randrange(2), "pad": rng.pick([bytes(433), rng.randbytes(433)]).hex()}
        c["desc"] = desc
        c["file_size"] = (gdo + 8) * 512 + 4096
        if rng.chance(0.25):
            c["footer"] = True
            c["front"] = dict(h, primary_grain_directory_offset=0xFFFFFFFFFFFFFFFF, capacity=rand_int(rng, 40))
            c["file_size"] = ((gdo + 8) * 512 + 4096 + 511) // 512 * 512 + 1024 + 512
    elif kind == "cowd":
        h = {"magic": b"COWD".hex(), "version": 1, "flags": rand_int(rng, 32), "capacity": rand_int(rng, 32),
             "grain_size": rng.pick([1, 8, 128, rand_int(rng, 32)]), "primary_grain_directory_offset": rng.randint(1, 20),
             "num_grain_directory_entries": rng.randint(0, 40), "next_free_grain": rand_int(rng, 32)}
        c["file_size"] = 24 * 512
    else:
        h = {f: rand_int(rng, 48) for f in SE_FIELDS[:-1]}
        h.update(magic=0xCAFEBABE, grain_directory_offset=rng.randint(1, 10), grain_directory_size=rng.randint(0, 3),
                 grain_table_size=rng.pick([1, 64, rand_int(rng, 20)]), pad=rng.pick([bytes(304), rng.randbytes(304)]).hex())
        c["file_size"] = 16 * 512
    c["h"] = h
    if malformed:
        m = rng.pick(["magic", "truncate", "bad_utf8", "cov0", "se_magic_hi", "gd_far", "footer_kind"])
        c["malformed"] = m
        if m == "magic":
            h["magic"] = rng.pick([b"KDMW".hex(), b"\x00\x00\x00\x00".hex()]) if kind != "sesparse" else 0xCAFEBABF
        elif m == "truncate":
            c["file_size"] = rng.pick([0, 3, 4, 31, 32, 100, 511, 512, 600, 1024, 1536])
        elif m == "bad_utf8" and c["desc"]:
            c["desc"]["text_bytes"] = (c["desc"]["text"].encode()[:20] + rng.pick([b"\xff", b"\xc3", b"\xed\xa0\x80"])).hex()
        elif m == "cov0" and kind == "vmdk":
            h[rng.pick(["grain_size", "num_grain_table_entries"])] = 0
        elif m == "se_magic_hi" and kind == "sesparse":
            h["magic"] = 0xCAFEBABE | (rng.randint(1, 5) << 32)
        elif m == "gd_far":
            key = "grain_directory_offset" if kind == "sesparse" else "primary_grain_directory_offset"
            h[key] = rng.pick([c["file_size"] // 512, c["file_size"] // 512 - 1, 1 << 30])
        elif m == "footer_kind" and kind == "vmdk":
            c["footer"] = True
            c["front"] = dict(h, primary_grain_directory_offset=0xFFFFFFFFFFFFFFFF)
            c["footer_override"] = rng.pick(["cowd", "sesparse", "zero"])
            c["file_size"] = (c["file_size"] + 511) // 512 * 512 + 1536
    return c


def s_build(c):
    kind, h = c["kind"], c["h"]
    chunks = {}
    hb = s_header_bytes(kind, h)
    if c.get("footer"):
        chunks[0] = s_header_bytes("vmdk", c["front"])
        fo = c["file_size"] - 1024
        ov = c.get("footer_override")
        if ov == "cowd":
            chunks[fo] = b"COWD" + bytes(28)
        elif ov == "sesparse":
            chunks[fo] = struct.pack("<Q", 0xCAFEBABE) + bytes(504)
        elif ov == "zero":
            chunks[fo] = bytes(512)
        else:
            chunks[fo] = hb
    else:
        chunks[0] = hb
    d = c.get("desc")
    if d is not None and kind == "vmdk":
        tb = bytes.fromhex(d["text_bytes"]) if d.get("text_bytes") else d["text"].encode()
        area = h["descriptor_size"] * 512
        blob = tb[:area]
        if len(blob) < area:
            blob += b"\x00"
            if d.get("fill") == "nul+garbage":
                blob += b'garbage="after the terminator"\nRW 1 SPARSE "ghost.vmdk"\n'
            blob = blob[:area].ljust(area, b"\x00")
        chunks[h["descriptor_offset"] * 512] = blob
    return chunks, c["file_size"]


def s_spec(c):
    if c.get("malformed"):
        return None
    kind, h = c["kind"], c["h"]
    names = {"vmdk": VMDK_FIELDS, "cowd": COWD_FIELDS, "sesparse": SE_FIELDS}[kind]
    hd = {}
    for f in names:
        v = h[f]
        if isinstance(v, str):
            v = bytes.fromhex(v)
        hd[f] = v
    if kind == "sesparse":
        gd, gt = h["grain_directory_size"] * 512 // 8, h["grain_table_size"] * 512 // 8
    elif kind == "cowd":
        gd, gt = h["num_grain_directory_entries"], 4096
    else:
        cov = h["num_grain_table_entries"] * h["grain_size"]
        gd, gt = (h["capacity"] + cov - 1) // cov, h["num_grain_table_entries"]
    return {"kind": kind, "header": hd, "size": h["capacity"] * 512, "sector_count": h["capacity"], "gd_size": gd,
            "gt_size": gt, "descriptor": None if not c.get("desc") or kind != "vmdk" else d_spec(c["desc"])}


class VmdkSuite(Suite):
    name = "vmdk"
    shard = 20
    preamble = Qcow2Suite.preamble

    def generate(self, rng, tier):
        n, ns, nm = (1200, 700, 300) if tier == "thorough" else (80, 45, 20)
        out = [{"kind": "text", "malformed": None, "desc": d_gen(rng, tier)} for _ in range(n)]
        out += [s_gen(rng, tier) for _ in range(ns)] + [s_gen(rng, tier, malformed=True) for _ in range(nm)]
        return out

    def impl(self, case):
        from dissect.hypervisor.disk import vmdk
        if case["kind"] == "text":
            return {"open": guard(lambda: d_impl(vmdk.DiskDescriptor.parse(case["desc"]["text"])))}
        chunks, size = s_build(case)
        fh = core.SparseFile(size, chunks, fill="zero")
        names = {"vmdk": VMDK_FIELDS, "cowd": COWD_FIELDS, "sesparse": SE_FIELDS}

        def op():
            sd = vmdk.SparseDisk(fh)
            hdr = sd.header.hdr
            kind = {"VMDKSparseExtentHeader": "vmdk", "COWDSparseExtentHeader": "cowd",
                    "VMDKSESparseConstHeader": "sesparse"}[type(hdr).__name__]
            hd = {}
            for f in names[kind]:
                v = getattr(hdr, f)
                hd[f] = bytes(v) if isinstance(v, (bytes, list)) else int(v)
            return {"kind": kind, "header": hd, "size": int(sd.size), "sector_count": int(sd.sector_count),
                    "gd_size": int(sd._grain_directory_size), "gt_size": int(sd._grain_table_size),
                    "descriptor": None if sd.descriptor is None else d_impl(sd.descriptor)}
        return {"open": guard(op)}

    def coq_term(self, case):
        if case["kind"] == "text":
            return f"dd_case {cps(case['desc']['text'])}"
        chunks, size = s_build(case)
        return f"sm_case {rd_term(chunks, size)} {Z(size)}"

    def judge(self, case, impl_res, coq_val):
        f = fault("vmdk", impl_res)
        if f:
            return f
        fs = []
        if case["kind"] == "text":
            three_way("vmdk", case, impl_res["open"], res_map(coq_val, d_model), d_spec(case["desc"]), fs, "descriptor")
            return fs

        def meta(x):
            k, hdr, size, sc, gd, gt, desc = tup(x)
            return {"kind": ["vmdk", "sesparse", "cowd"][k], "header": rec_of(hdr), "size": size, "sector_count": sc,
                    "gd_size": gd, "gt_size": gt, "descriptor": opt(desc, d_model)}
        three_way("vmdk", case, impl_res["open"], res_map(coq_val, meta), s_spec(case), fs, "sparse")
        return fs

    def nontrivial(self, case, impl_res, coq_val):
        d = case.get("desc")
        if case.get("malformed") or not d:
            return None
        if len(d["attrs"]) + len(d["extents"]) + len(d["ddb"]) >= 3:
            return core.sha(core.jdump(case).encode())
        return None

    def dist(self, case):
        d = case.get("desc")
        out = {"kind": case["kind"], "malformed": case.get("malformed") or "no", "footer": bool(case.get("footer"))}
        if d:
            out.update(lines=min(40, len(d["text"].split("\n")) // 5 * 5), extents=min(len(d["extents"]), 6), nl=d["nl"],
                       nonascii=nonascii(d["text"]), types=",".join(sorted({e["type"] for e in d["extents"]}))[:40],
                       spaced_filename=any(e["filename"] and " " in e["filename"] for e in d["extents"]))
        return out


# ============================================================================ VHD / VDI / HDS headers
VHD_FOOTER = [("cookie", "8s"), ("features", "I"), ("version", "I"), ("data_offset", "Q"), ("timestamp", "I"),
              ("creator_application", "I"), ("creator_version", "I"), ("creator_host_os", "I"), ("original_size", "Q"),
              ("current_size", "Q"), ("disk_geometry", "I"), ("disk_type", "I"), ("checksum", "I"), ("unique_id", "16s"),
              ("saved_state", "1s"), ("reserved", "426s")]
VHD_DYN = [("cookie", "8s"), ("data_offset", "Q"), ("table_offset", "Q"), ("header_version", "I"), ("max_table_entries", "I"),
           ("block_size", "I"), ("checksum", "I"), ("parent_unique_id", "16s"), ("parent_timestamp", "I"), ("reserved1", "I"),
           ("parent_unicode_name", "512s"), ("parent_locators", "192s"), ("reserved2", "256s")]
VHD_LOC = [("platform_code", "I"), ("platform_data_space", "I"), ("platform_data_length", "I"), ("reserved", "I"),
           ("platform_data_offset", "Q")]
VDI_HDR = [("FileInfo", "64s"), ("Signature", "I"), ("Version", "I"), ("HeaderSize", "I"), ("ImageType", "I"), ("ImageFlags", "I"),
           ("ImageDescription", "256s"), ("BlocksOffset", "I"), ("DataOffset", "I"), ("NumCylinders", "I"), ("NumHeads", "I"),
           ("NumSectors", "I"), ("SectorSize", "I"), ("Unused1", "I"), ("DiskSize", "Q"), ("BlockSize", "I"),
           ("BlockExtraData", "I"), ("BlocksInHDD", "I"), ("BlocksAllocated", "I"), ("UUIDVDI", "16s"), ("UUIDSNAP", "16s"),
           ("UUIDLink", "16s"), ("UUIDParent", "16s")]
HDS_HDR = [("m_Sig", "16s"), ("m_Type", "I"), ("m_Heads", "I"), ("m_Cylinders", "I"), ("m_Sectors", "I"), ("m_Size", "I"),
           ("size_lo", "I"), ("size_hi", "I"), ("m_DiskInUse", "I"), ("m_FirstBlockOffset", "I"), ("m_Flags", "I"),
           ("m_FormatExtensionOffset", "Q")]


def pack_fields(spec, vals, endian):
    fmt = endian + "".join(f for _, f in spec)
    args = [bytes.fromhex(vals[n]) if f.endswith("s") else vals[n] for n, f in spec]
    return struct.pack(fmt, *args)


def rand_fields(rng, spec):
    out = {}
    for n, f in spec:
        if f.endswith("s"):
            ln = int(f[:-1])
            out[n] = rng.pick([bytes(ln), rng.randbytes(ln), rand_text(rng, ln, "ascii").encode()[:ln].ljust(ln, b"\x00")]).hex()
        else:
            out[n] = rand_int(rng, {"I": 32, "Q": 64}[f])
    return out


def fields_spec(spec, vals):
    return {n: (bytes.fromhex(vals[n]) if f.endswith("s") else vals[n]) for n, f in spec}


def h_gen(rng, tier, malformed=False):
    kind = rng.weighted([("vhd_fixed", 2), ("vhd_dynamic", 3), ("vdi", 3), ("hds1", 2), ("hds2", 2)])
    c = {"kind": kind, "malformed": None}
    if kind.startswith("vhd"):
        f = rand_fields(rng, VHD_FOOTER)
        c["legacy"] = rng.chance(0.25)
        f["features"] = rng.pick([0, 1]) if c["legacy"] else rng.pick([2, 3])
        f["cookie"] = b"conectix".hex()
        if kind == "vhd_fixed":
            f["data_offset"] = 0xFFFFFFFFFFFFFFFF
            c["body"] = rng.pick([0, 512, 5000])
        else:
            f["data_offset"] = 512 * rng.randint(1, 4)
            d = rand_fields(rng, VHD_DYN)
            d["cookie"] = b"cxsparse".hex()
            if rng.chance(0.6):
                d["parent_unicode_name"] = rand_text(rng, rng.randint(1, 100)).encode("utf-16-be")[:512].ljust(512, b"\x00").hex()
            locs = [rand_fields(rng, VHD_LOC) for _ in range(8)]
            d["parent_locators"] = b"".join(pack_fields(VHD_LOC, l, ">") for l in locs).hex()
            c["dyn"], c["locs"] = d, locs
            c["body"] = f["data_offset"] + 1024 + rng.pick([0, 512, 2048])
        c["footer"] = f
    elif kind == "vdi":
        h = rand_fields(rng, VDI_HDR)
        h["Signature"] = 0xBEDA107F
        n = rng.weighted([(0, 1), (1, 1), (rng.randint(2, 40), 5)])
        h["BlocksInHDD"] = n
        h["BlocksOffset"] = rng.pick([456, 512, 1024, 4096 + rng.randrange(100)])
        c["map"] = [rng.weighted([(-1, 2), (-2, 1), (rng.randrange(0, 1 << 20), 4), (-(1 << 31), 1), ((1 << 31) - 1, 1)])
                    for _ in range(n)]
        c["h"] = h
    else:
        h = rand_fields(rng, HDS_HDR)
        h["m_Sig"] = (b"WithoutFreeSpace" if kind == "hds1" else b"WithouFreSpacExt").hex()
        h["m_DiskInUse"] = rng.pick([0, 0x746F6E59, rand_int(rng, 32)])
        c["h"] = h
    if malformed:
        m = rng.pick(["sig", "truncate", "map_short", "dyn_far"])
        c["malformed"] = m
        if m == "sig":
            if kind == "vdi":
                c["h"]["Signature"] ^= 1 << rng.randrange(32)
            elif kind.startswith("hds"):
                c["h"]["m_Sig"] = rng.pick([b"WithoutFreeSpacf", b"withoutfreespace", bytes(16)]).hex()
        elif m == "truncate":
            c["truncate"] = rng.pick([512, 513, 600, 63, 455, 456, 64, 1024, 1535])
        elif m == "map_short" and kind == "vdi":
            c["map_cut"] = rng.randint(1, 7)
        elif m == "dyn_far" and kind == "vhd_dynamic":
            c["footer"]["data_offset"] = rng.pick([c["body"], c["body"] - 1000, 1 << 40])
    return c


def h_build(c):
    kind = c["kind"]
    chunks = {}
    if kind.startswith("vhd"):
        fb = pack_fields(VHD_FOOTER, c["footer"], ">")
        assert len(fb) == 511
        if kind == "vhd_dynamic":
            chunks[0] = fb + b"\x00"
            chunks[512 * ((c["footer"]["data_offset"] // 512) if c["footer"]["data_offset"] < (1 << 30) else 1)] = b""
            if c["footer"]["data_offset"] < (1 << 30):
                chunks[c["footer"]["data_offset"]] = pack_fields(VHD_DYN, c["dyn"], ">")
        body = c["body"]
        if c["legacy"]:
            chunks[body] = fb
            size = body + 511
        else:
            chunks[body] = fb + b"\x00"
            size = body + 512
    elif kind == "vdi":
        chunks[0] = pack_fields(VDI_HDR, c["h"], "<")
        mb = b"".join(struct.pack("<i", v) for v in c["map"])
        size = c["h"]["BlocksOffset"] + len(mb) + 64
        if c.get("map_cut"):
            size = c["h"]["BlocksOffset"] + max(0, len(mb) - c["map_cut"])
        chunks[c["h"]["BlocksOffset"]] = mb
    else:
        chunks[0] = pack_fields(HDS_HDR, c["h"], "<")
        size = 64 + 256
    if c.get("truncate") is not None:
        size = min(size, c["truncate"])
    chunks = {o: b for o, b in chunks.items() if b}
    return chunks, size


def h_spec(c):
    if c.get("malformed"):
        return None
    kind = c["kind"]
    if kind.startswith("vhd"):
        return {"fixed": kind == "vhd_fixed", "size": c["footer"]["current_size"], "footer": fields_spec(VHD_FOOTER, c["footer"]),
                "header": fields_spec(VHD_DYN, c["dyn"]) if kind == "vhd_dynamic" else None,
                "locators": [fields_spec(VHD_LOC, l) for l in c["locs"]] if kind == "vhd_dynamic" else []}
    if kind == "vdi":
        h = c["h"]
        return {"header": fields_spec(VDI_HDR, h), "size": h["DiskSize"], "block_size": h["BlockSize"],
                "sector_size": h["SectorSize"], "data_offset": h["DataOffset"], "map": c["map"]}
    h = c["h"]
    v1 = kind == "hds1"
    sectors = h["size_lo"] if v1 else h["size_lo"] | (h["size_hi"] << 32)
    hd = fields_spec([x for x in HDS_HDR if not x[0].startswith("size_")], h)
    hd.update(m_SizeInSectors_v1=h["size_lo"], Unused=h["size_hi"], m_SizeInSectors_v2=h["size_lo"] | (h["size_hi"] << 32))
    return {"header": hd, "v2": not v1, "size": sectors * 512, "cluster_size": h["m_Sectors"] * 512,
            "data_offset": h["m_FirstBlockOffset"], "in_use": h["m_DiskInUse"] == 0x746F6E59}


def struct_dict(obj, names):
    out = {}
    for n in names:
        v = getattr(obj, n)
        out[n] = bytes(v) if isinstance(v, (bytes, list)) else int(v)
    return out


class HdrsSuite(Suite):
    name = "hdrs"
    shard = 25
    preamble = Qcow2Suite.preamble

    def generate(self, rng, tier):
        n, nm = (1000, 250) if tier == "thorough" else (70, 20)
        return [h_gen(rng, tier) for _ in range(n)] + [h_gen(rng, tier, malformed=True) for _ in range(nm)]

    def impl(self, case):
        chunks, size = h_build(case)
        fh = core.SparseFile(size, chunks, fill="zero")
        kind = case["kind"]

        def op():
            if kind.startswith("vhd"):
                from dissect.hypervisor.disk import vhd
                v = vhd.VHD(fh)
                dyn = isinstance(v.disk, vhd.DynamicDisk)
                return {"fixed": not dyn, "size": int(v.size), "footer": struct_dict(v.disk.footer, [n for n, _ in VHD_FOOTER]),
                        "header": struct_dict(v.disk.header, [n for n, _ in VHD_DYN if n != "parent_locators"]) if dyn else None,
                        "locators": [struct_dict(l, [n for n, _ in VHD_LOC]) for l in v.disk.header.parent_locators] if dyn else []}
            if kind == "vdi":
                from dissect.hypervisor.disk import vdi
                v = vdi.VDI(fh)
                return {"header": struct_dict(v.header, [n for n, _ in VDI_HDR]), "size": int(v.size),
                        "block_size": int(v.block_size), "sector_size": int(v.sector_size), "data_offset": int(v.data_offset),
                        "map": [int(x) for x in v.map]}
            from dissect.hypervisor.disk import hdd
            v = hdd.HDS(fh)
            names = [n for n, _ in HDS_HDR if not n.startswith("size_")] + ["m_SizeInSectors_v1", "Unused", "m_SizeInSectors_v2"]
            return {"header": struct_dict(v.header, names), "v2": v._bat_step == 1 and bytes(v.header.m_Sig) != b"WithoutFreeSpace",
                    "size": int(v.size), "cluster_size": int(v.cluster_size), "data_offset": int(v.data_offset),
                    "in_use": bool(v.in_use)}
        return {"open": guard(op)}

    def coq_term(self, case):
        chunks, size = h_build(case)
        rd = rd_term(chunks, size)
        if case["kind"].startswith("vhd"):
            return f"vhd_case {rd} {Z(size)}"
        return f"{'vdi' if case['kind'] == 'vdi' else 'hds'}_case {rd}"

    def judge(self, case, impl_res, coq_val):
        f = fault("hdrs", impl_res)
        if f:
            return f
        kind = case["kind"]

        def meta(x):
            t = tup(x)
            if kind.startswith("vhd"):
                hdr = opt(t[3], rec_of)
                if hdr is not None:
                    hdr.pop("parent_locators")
                return {"fixed": boolv(t[0]), "size": t[1], "footer": rec_of(t[2]), "header": hdr,
                        "locators": [rec_of(l) for l in t[4]]}
            if kind == "vdi":
                return {"header": rec_of(t[0]), "size": t[1], "block_size": t[2], "sector_size": t[3], "data_offset": t[4],
                        "map": t[5]}
            return {"header": rec_of(t[0]), "v2": boolv(t[1]), "size": t[2], "cluster_size": t[3], "data_offset": t[4],
                    "in_use": boolv(t[5])}
        spec = h_spec(case)
        if spec is not None and spec.get("header") and kind == "vhd_dynamic":
            spec["header"].pop("parent_locators", None)
        fs = []
        three_way(kind.split("_")[0], case, impl_res["open"], res_map(coq_val, meta), spec, fs, "header")
        return fs

    def nontrivial(self, case, impl_res, coq_val):
        return None if case.get("malformed") else core.sha(core.jdump(case).encode())

    def dist(self, case):
        return {"kind": case["kind"], "legacy511": case.get("legacy", "n/a"), "malformed": case.get("malformed") or "no",
                "map_len": min(len(case.get("map", [])), 10) if case["kind"] == "vdi" else "n/a"}


# ============================================================================ Parallels DiskDescriptor.xml
def xml_escape(s):
    return s.replace("&", "&amp;").replace("<", "&lt;").replace(">", "&gt;")


def guid_text(rng, g, style=None):
    u = UUID(int=g)
    style = style or rng.weighted([("braces", 5), ("upper", 2), ("bare", 1), ("hex", 1), ("urn", 1)])
    return {"braces": "{%s}" % u, "upper": ("{%s}" % u).upper(), "bare": str(u), "hex": u.hex, "urn": u.urn}[style]


def int_text(rng, n):
    return rng.weighted([(str(n), 6), (f" {n} ", 1), (f"\n   {n}\n  ", 1), (f"+{n}", 1), (f"00{n}", 1)])


def p_gen(rng, tier, malformed=False):
    guids = [rng.getrandbits(128) for _ in range(rng.randint(1, 6))]
    if rng.chance(0.3):
        guids[0] = UUID("5fbaabe3-6958-40ff-92a7-860e329aab41").int
    storages = []
    pos = 0
    for _ in range(rng.weighted([(1, 5), (2, 2), (rng.randint(3, 4), 1)])):
        n = rng.weighted([(0, 1), (1, 3), (rng.randint(2, 5), 4)])
        end = pos + rand_int(rng, 36) + 1
        images = []
        for i in range(n):
            fn = rng.weighted([("harddisk.hdd.0.{%s}.hds" % UUID(int=rng.getrandbits(128)), 3),
                               ("/Users/x/My VM.pvm/disk 1.hdd/" + rand_text(rng, 10, extra=" &<>'\"") + ".hds", 3),
                               (rand_text(rng, rng.randint(1, 40), extra=" &<>'\"/"), 2), (None, 1)])
            ty = rng.weighted([("Compressed", 4), ("Plain", 2), (rand_text(rng, 6), 1), (None, 1)])
            images.append({"guid": rng.pick(guids), "type": ty, "file": fn})
        storages.append({"start": pos, "end": end, "images": images})
        pos = end
    shots = []
    for i, g in enumerate(guids):
        shots.append({"guid": g, "parent": 0 if i == 0 else guids[rng.randrange(i)]})
    if rng.chance(0.15):
        shots = []
    rng.shuffle(shots)
    top = rng.weighted([(None, 3), (rng.pick(guids), 5), (rng.getrandbits(128), 1)])
    c = {"storages": storages, "shots": shots, "top": top, "malformed": None,
         "decl": rng.pick([True, False]), "indent": rng.pick(["", "  ", "\t"]), "noise": rng.chance(0.5),
         "top_pos": rng.pick(["first", "last", "middle"]), "style_seed": rng.getrandbits(32)}
    if malformed:
        c["malformed"] = rng.pick(["no_storagedata", "no_snapshots", "no_start", "bad_guid", "bad_int", "empty_top",
                                   "no_image_guid", "empty_guid", "no_parent", "short_guid"])
    return c


def p_tree(c):
    """-> nested (tag, text, [children]) — the element tree both the document and the model term are made from"""
    rng = core.Rng(c["style_seed"])
    m = c.get("malformed")

    def leaf(t, s):
        return (t, s, [])
    sts = []
    for si, s in enumerate(c["storages"]):
        kids = [leaf("Start", int_text(rng, s["start"])), leaf("End", int_text(rng, s["end"])), leaf("Blocksize", "2048")]
        if m == "no_start" and si == 0:
            kids.pop(0)
        if m == "bad_int" and si == 0:
            kids[1] = leaf("End", rng.pick(["12a", "", "0x10", "1.5", "1 2"]))
        if c["noise"]:
            kids.insert(rng.randrange(len(kids) + 1), leaf("Comment", "Image"))
        for ii, im in enumerate(s["images"]):
            ik = [leaf("GUID", guid_text(rng, im["guid"])), leaf("Type", im["type"]), leaf("File", im["file"])]
            if m == "no_image_guid" and ii == 0:
                ik.pop(0)
            if m == "bad_guid" and ii == 0:
                ik[0] = leaf("GUID", rng.pick(["{5fbaabe3-6958-40ff-92a7-860e329aab4g}", "nope", "{}", "5fbaabe3"]))
            if m == "short_guid" and ii == 0:
                ik[0] = leaf("GUID", guid_text(rng, im["guid"], "braces")[:-3])
            if m == "empty_guid" and ii == 0:
                ik[0] = leaf("GUID", None)
            if c["noise"] and rng.chance(0.5):
                rng.shuffle(ik)
            kids.append(("Image", None, ik))
        sts.append(("Storage", None, kids))
    shots = []
    for hi, sh in enumerate(c["shots"]):
        hk = [leaf("GUID", guid_text(rng, sh["guid"])), leaf("ParentGUID", guid_text(rng, sh["parent"]))]
        if m == "no_parent" and hi == 0:
            hk.pop()
        if c["noise"] and rng.chance(0.5):
            hk.reverse()
        shots.append(("Shot", None, hk))
    snk = list(shots)
    if c["top"] is not None or m == "empty_top":
        t = leaf("TopGUID", None if m == "empty_top" else guid_text(rng, c["top"]))
        pos = {"first": 0, "last": len(snk), "middle": len(snk) // 2}[c["top_pos"]]
        snk.insert(pos, t)
    root_kids = [("Disk_Parameters", None, [leaf("Disk_size", "134217728"), leaf("Cylinders", "133152"), leaf("Heads", "16")]),
                 ("StorageData", None, sts), ("Snapshots", None, snk)]
    if m == "no_storagedata":
        root_kids.pop(1)
    if m == "no_snapshots":
        root_kids.pop()
    if c["noise"]:
        rng.shuffle(root_kids)
    return ("Parallels_disk_image", None, root_kids)


def p_xml(c, tree):
    ind = c["indent"]

    def ser(node, depth):
        t, text, kids = node
        pad = ("\n" + ind * depth) if ind else ""
        if not kids:
            if text is None:
                return f"{pad}<{t}/>" if depth % 2 else f"{pad}<{t}></{t}>"
            return f"{pad}<{t}>{xml_escape(text)}</{t}>"
        attrs = ' Version="1.0"' if depth == 0 else ""
        return f"{pad}<{t}{attrs}>" + "".join(ser(k, depth + 1) for k in kids) + f"{pad}</{t}>"
    doc = ser(tree, 0).lstrip("\n")
    if c["decl"]:
        doc = '<?xml version="1.0" encoding="UTF-8"?>\n' + doc
    return doc + "\n"


def p_term(node):
    t, text, kids = node
    tx = "None" if text is None else f"(Some {cps(text)})"
    return f"(El {cps(t)} {tx} [" + "; ".join(p_term(k) for k in kids) + "])"


def p_spec(c):
    if c.get("malformed"):
        return None
    return {"storages": [{"start": s["start"], "end": s["end"],
                          "images": [{"guid": i["guid"], "type": i["type"], "file": i["file"]} for i in s["images"]]}
                         for s in c["storages"]],
            "top": c["top"], "shots": [{"guid": s["guid"], "parent": s["parent"]} for s in c["shots"]]}


class HddSuite(Suite):
    name = "hdd"
    shard = 30
    preamble = Qcow2Suite.preamble

    def generate(self, rng, tier):
        n, nm = (1200, 300) if tier == "thorough" else (80, 25)
        return [p_gen(rng, tier) for _ in range(n)] + [p_gen(rng, tier, malformed=True) for _ in range(nm)]

    def impl(self, case):
        from pathlib import Path

        from dissect.hypervisor.disk import hdd
        os.makedirs(SCRATCH, exist_ok=True)
        # one bundle path per worker process, rewritten for every case: what is exposed is what the file holds NOW.  Before
        # the case's descriptor, the same path held another one of exactly the same length and timestamps (all digits moved
        # by one: other sector numbers, other GUIDs), and that one was opened too.
        d = os.path.join(SCRATCH, f"w{os.getpid()}.hdd")
        shutil.rmtree(d, ignore_errors=True)
        os.makedirs(d)
        try:
            import re
            xml = p_xml(case, p_tree(case))
            dx = os.path.join(d, "DiskDescriptor.xml")
            with open(dx, "w", encoding="utf-8") as fh:
                fh.write(re.sub(r"[1-8]", lambda m: str(int(m.group()) + 1), xml))
            st = os.stat(dx)
            try:
                hdd.HDD(Path(d)).descriptor.storage_data.storages  # noqa: B018
            except Exception:  # noqa: BLE001
                pass
            with open(dx, "w", encoding="utf-8") as fh:
                fh.write(xml)
            os.utime(dx, ns=(st.st_atime_ns, st.st_mtime_ns))

            def op():
                desc = hdd.HDD(Path(d)).descriptor
                top = desc.snapshots.top_guid
                return {"storages": [{"start": s.start, "end": s.end,
                                      "images": [{"guid": i.guid.int, "type": i.type, "file": i.file} for i in s.images]}
                                     for s in desc.storage_data.storages],
                        "top": None if top is None else (top.int if isinstance(top, UUID) else f"<{type(top).__name__}>"),
                        "shots": [{"guid": s.guid.int, "parent": s.parent.int} for s in desc.snapshots.shots]}
            return {"open": guard(op)}
        finally:
            shutil.rmtree(d, ignore_errors=True)

    def coq_term(self, case):
        return f"pd_case {p_term(p_tree(case))}"

    def judge(self, case, impl_res, coq_val):
        f = fault("hdd", impl_res)
        if f:
            return f

        def meta(x):
            sts, top, shots = tup(x)
            out = []
            for s in sts:
                a, b, ims = tup(s)
                out.append({"start": a, "end": b, "images": [{"guid": g, "type": opt(t, s_of), "file": opt(fl, s_of)}
                                                             for g, t, fl in map(tup, ims)]})
            return {"storages": out, "top": opt(top), "shots": [{"guid": g, "parent": p} for g, p in map(tup, shots)]}
        fs = []
        three_way("hdd", case, impl_res["open"], res_map(coq_val, meta), p_spec(case), fs, "descriptor")
        return fs

    def nontrivial(self, case, impl_res, coq_val):
        if case.get("malformed"):
            return None
        if sum(len(s["images"]) for s in case["storages"]) + len(case["shots"]) >= 2:
            return core.sha(core.jdump(case).encode())
        return None

    def dist(self, case):
        return {"storages": len(case["storages"]), "images": min(6, sum(len(s["images"]) for s in case["storages"])),
                "shots": len(case["shots"]), "top": "none" if case["top"] is None else "present", "top_pos": case["top_pos"],
                "noise": case["noise"], "malformed": case.get("malformed") or "no"}



class VmdkFileSuite(Suite):
    """Text descriptors reached through VMDK(<file object>) rather than DiskDescriptor.parse(<str>): what the object exposes
    is the whole stored descriptor, however long the file is (thousands of extent lines, the ddb section behind them).
    Extents of kinds that have no backing file to open (ZERO, VMFSRDM, VMFSRAW) keep the case self-contained."""
    name = "vmdk_file"
    per_case_timeout = 120.0

    def generate(self, rng, tier):
        out = []
        for n in ((3, 400, 2600, 6001) if tier != "thorough" else (1, 3, 400, 1500, 2600, 4100, 6001, 9000)):
            exts = []
            for i in range(n):
                typ = rng.pick(["ZERO", "ZERO", "VMFSRDM", "VMFSRAW"])
                sec = rng.randint(1, 4192256)
                if typ == "ZERO":
                    exts.append(f'RW {sec} ZERO')
                else:
                    exts.append(f'RW {sec} {typ} "disk-{i:05d}.vmdk"')
            ddb = [("ddb.virtualHWVersion", "13"), ("ddb.geometry.cylinders", str(rng.randint(1, 65535))),
                   ("ddb.uuid", "60 00 C2 9b 2f 6a 6f 6e-%02x %02x" % (rng.randrange(256), rng.randrange(256))),
                   ("ddb.adapterType", rng.pick(["ide", "lsilogic", "buslogic"]))]
            text = ('# Disk DescriptorFile\nversion=1\nCID=fffffffe\nparentCID=ffffffff\ncreateType="custom"\n\n'
                    "# Extent description\n" + "\n".join(exts) + "\n\n# The Disk Data Base\n#DDB\n\n" +
                    "\n".join(f'{k} = "{v}"' for k, v in ddb) + "\n")
            out.append({"text": text, "n": n, "ddb": ddb})
        return out

    def impl(self, case):
        import io
        from dissect.hypervisor.disk import vmdk

        def view(d):
            return {"n": len(d.extents), "sectors": int(d.sectors), "ddb": dict(d.ddb), "attr": dict(d.attr),
                    "last": d.extents[-1].raw if d.extents else None}
        return {"file": guard(lambda: view(vmdk.VMDK(io.BytesIO(case["text"].encode())).descriptor)),
                "parse": guard(lambda: view(vmdk.DiskDescriptor.parse(case["text"])))}

    def judge(self, case, impl_res, coq_val):
        f = fault("vmdk", impl_res)
        if f:
            return f
        fs = []
        lines = [l for l in case["text"].split("\n") if l.startswith("RW ")]
        want = {"n": case["n"], "sectors": sum(int(l.split()[1]) for l in lines), "ddb": dict(case["ddb"]),
                "attr": {"version": "1", "CID": "fffffffe", "parentCID": "ffffffff", "createType": "custom"}, "last": lines[-1]}
        for how in ("file", "parse"):
            r = impl_res[how]
            if r[0] != "ok":
                fs.append(Finding("impl_vs_spec", f"vmdk descriptor of {case['n']} extents ({len(case['text'])} bytes) via {how}: "
                                  f"raised {r[1:3]}", f"vmdk:file:{how}:exc"))
            elif r[1] != want:
                bad = [k for k in want if r[1].get(k) != want[k]]
                fs.append(Finding("impl_vs_spec", f"vmdk descriptor of {case['n']} extents ({len(case['text'])} bytes) via {how}: "
                                  f"exposed {bad} differ from the stored text (extents {r[1].get('n')}, ddb keys "
                                  f"{len(r[1].get('ddb', {}))})", f"vmdk:file:{how}:value"))
        return fs

    def nontrivial(self, case, impl_res, coq_val):
        return case["n"]

    def dist(self, case):
        return {"extents": case["n"], "bytes_over_64k": len(case["text"]) > 65536}


SUITES = {"vmdk_file": VmdkFileSuite(), "qcow2": Qcow2Suite(), "vhdx": VhdxSuite(), "vmdk": VmdkSuite(), "hdrs": HdrsSuite(), "hdd": HddSuite()}
