"""C15 — Encrypted VMX: unlock round-trips and is authenticated.

Correspondence for coq/Model/VmxCrypto.v.  The harness has its own writer (sealing with
hashlib / pycryptodome), produces VMX files for every cipher x MAC x KDF combination the
property names, plus wrong passphrases, single-byte alterations of every encrypted field
and a malformed stream.  The Coq model is a *call plan*: it is evaluated with a table of
primitive answers recorded in the case (computed here with the real primitives and
re-verified in the worker), and reports which calls it made; the implementation runs with
recording proxies around hashlib.pbkdf2_hmac / hmac.digest / AES.new(...).decrypt, so the
two call sequences are compared as well as outcome and final dictionary.
"""
from __future__ import annotations

import base64
import hashlib
import hmac as _hmac

from harness import core
from harness.core import Z
from harness.main import Finding, Suite

PROPERTY = "C15"
PROPS_FILE = "Props/C15.v"
MODEL_FILES = ["Model/VmxCrypto.v"]
META = {
    "category": "proof",
    "text": "Coq theorems about an executable model of vmx.py's key-safe parser and unlock path (call plan over "
            "AES-CBC / HMAC / PBKDF2 oracles): unlock(seal(cfg)) = attr + parse(cfg) for every entry of the generated "
            "CIPHER_KEY_SIZES x HMAC_MAP x PASS2KEY_MAP tables and every rounds/salt/length; success implies both "
            "stored MACs equal the recomputed (truncated) digests; failure leaves the dictionary unchanged; codec "
            "round trips (PKCS#7, base64, URL quoting, key-safe text). Tied to vmx.py by differential correspondence "
            "with the real primitives (outcome, exception class, final dictionary, primitive call sequence).",
    "design_ref": "DESIGN.md §6 C15",
    "note": "Cryptographic strength is not claimed: a tampered field is rejected unless a MAC collides; the theorems "
            "say exactly that. AES/HMAC/PBKDF2 are oracles (hashlib, pycryptodome).",
    "technique": "Coq proof over a call-plan model + differential correspondence executing the plan with real primitives",
    "rule": "sealed VMX files from the harness's own writer: all 3x3x2 cipher/MAC/KDF combinations (cycled), config key "
            "16/24/32 bytes, rounds 1..2000, salt 0..64 bytes, config 0..4000 bytes (block boundaries), 1..4 pairs with "
            "non-phrase and foreign-passphrase pairs first, two quoting styles; negatives: wrong passphrases, one-byte "
            "alterations of IV/ciphertext/MAC of wrapped key and configuration, of salt and rounds; malformed stream "
            "(structure, tables, integers, base64, UTF-8, lengths). Non-trivial = reaches at least one primitive call; "
            "distinct by (kind, combo, tamper field/region, outcome).",
    "trusted_base": ["Model/VmxCrypto.v is hand-written (correspondence-checked, not proved against Python)",
                     "hashlib / hmac / pycryptodome AES as the primitives on both sides"],
    "assumptions": ["AES-CBC decrypt inverts encrypt on block multiples; HMAC digest lengths 20/32; PBKDF2 returns dklen "
                    "bytes (Section hypotheses of the theorems, exercised by the correspondence)",
                    "str.lower modelled for ASCII; int() for ASCII digits; passphrases are UTF-8 encodable"],
}

# ----------------------------------------------------------------------------- the property's tables (independent copy)
CIPHERS = {"AES-128": 16, "AES-192": 24, "AES-256": 32}
MACS = {"HMAC-SHA-1": ("sha1", 20), "HMAC-SHA-1-128": ("sha1", 16), "HMAC-SHA-256": ("sha256", 32)}
KDFS = {"PBKDF2-HMAC-SHA-1": "sha1", "PBKDF2-HMAC-SHA-256": "sha256"}
COMBOS = [(c, m, k) for c in CIPHERS for m in MACS for k in KDFS]


# ----------------------------------------------------------------------------- primitives (real)
def _aes(key, iv):
    from Crypto.Cipher import AES
    return AES.new(key, AES.MODE_CBC, iv=iv)


def prim(call):
    """Execute one primitive call (tuple) with the real libraries."""
    if call[0] == "pbkdf2":
        _, h, pw, salt, rounds, n = call
        return hashlib.pbkdf2_hmac(h, pw, salt, rounds, n)
    if call[0] == "aes":
        _, key, iv, ct = call
        return _aes(key, iv).decrypt(ct)
    if call[0] == "hmac":
        _, h, key, msg = call
        return _hmac.digest(key, msg, h)
    raise ValueError(call)


class Recorder:
    def __init__(self):
        self.table = []     # [(call, result)]
        self.seen = {}

    def do(self, *call):
        if call in self.seen:
            return self.seen[call]
        r = prim(call)
        self.seen[call] = r
        self.table.append((call, r))
        return r


# ----------------------------------------------------------------------------- writer
def pad(p):
    n = 16 - len(p) % 16
    return p + bytes([n]) * n


def seal_blob(key, iv, plain, macname):
    h, n = MACS[macname]
    ct = _aes(key, iv).encrypt(pad(plain))
    return iv + ct + _hmac.digest(key, plain, h)[:n]


ALNUM = set("0123456789abcdefghijklmnopqrstuvwxyzABCDEFGHIJKLMNOPQRSTUVWXYZ")
MIN_QUOTE = set('%,()/:="\n\r #')


def quote(s, style):
    out = []
    for ch in s:
        if ch in ALNUM or (style in ("min", "minU") and ch not in MIN_QUOTE and 32 < ord(ch) < 127):
            out.append(ch)
        else:
            for b in ch.encode("utf-8"):
                out.append("%%%02X" % b if style in ("fullU", "minU") else "%%%02x" % b)
    return "".join(out)


def b64(b):
    return base64.b64encode(b).decode()


def render_cdict(items, style):
    return ":".join(k + "=" + quote(v, style) for k, v in items)


def render_locator(p, style):
    """p: dict describing a pair (see gen)."""
    if "raw" in p:
        return p["raw"]
    fields = p.get("fields")
    if fields is None:
        fields = [("pass2key", p["p2k"]), ("cipher", p["cipher"]), ("rounds", p.get("rounds_text", str(p["rounds"]))),
                  ("salt", p.get("salt_text", b64(bytes.fromhex(p["salt"]))))]
    phrase = "phrase/" + quote(p["id"], style) + "/" + quote(render_cdict(fields, style), style)
    wrap = p.get("wrap", "phrase")
    if wrap == "list":
        phrase = "list/(" + phrase + ")"
    elif wrap == "pair":
        phrase = "pair/(" + phrase + "," + quote("HMAC-SHA-1", style) + "," + quote(b64(b"0123456789abcdef" * 3), style) + ")"
    elif wrap != "phrase":
        phrase = wrap + "/" + quote(p["id"], style)
    data_text = p.get("data_text", b64(bytes.fromhex(p["data"])))
    members = [phrase, quote(p["mac"], style), quote(data_text, style)] + p.get("extra_members", [])
    members = members[:p.get("nmembers", len(members))]
    return "pair/(" + ",".join(members) + ")"


def render_vmx(c):
    style = c["style"]
    if "keysafe_raw" in c:
        ks = c["keysafe_raw"]
    else:
        ks = "vmware:key/list/(" + ",".join(render_locator(p, style) for p in c["pairs"]) + ")"
        if c.get("top") == "pair":
            ks = "vmware:key/" + render_locator(c["pairs"][0], style)
        elif c.get("top") == "phrase_in_list":
            p = c["pairs"][0]
            ks = "vmware:key/list/(phrase/" + quote(p["id"], style) + "/" + quote(render_cdict(
                [("pass2key", p["p2k"]), ("cipher", p["cipher"]), ("rounds", str(p["rounds"])),
                 ("salt", b64(bytes.fromhex(p["salt"])))], style), style) + ")"
        elif c.get("top"):
            ks = c["top"] + ks[len("vmware:key"):]
    lines = []
    for k, v in c["visible"]:
        lines.append(f'{k} = "{v}"')
    pos = c.get("ks_pos", len(lines))
    enc_lines = []
    if not c.get("no_keysafe"):
        enc_lines.append(f'{c.get("ks_key", "encryption.keySafe")} = "{ks}"')
    if not c.get("no_data"):
        enc_lines.append(f'encryption.data = "{c.get("data_text", b64(bytes.fromhex(c["cfg_blob"])))}"')
    lines[pos:pos] = enc_lines
    return c.get("eol", "\n").join(lines) + c.get("eol", "\n")


# ----------------------------------------------------------------------------- oracle hints
def hint_decrypt(rec, key, data, macname):
    if macname not in MACS:
        return None
    h, n = MACS[macname]
    iv, enc, mac = data[:16], data[16:-n], data[-n:]
    if len(key) not in (16, 24, 32) or len(iv) != 16 or len(enc) % 16:
        return None
    dec = rec.do("aes", key, iv, enc)
    if not dec:
        return None
    if dec[-1] <= 16:
        n_pad = dec[-1]
        if n_pad == 0 or dec[-n_pad:] != bytes([n_pad]) * n_pad:
            return None
        dec = dec[:-n_pad]
    d = rec.do("hmac", h, key, dec)
    return dec if d[:n] == mac else None


def compute_hints(c):
    """Primitive answers the model can need for this case (a superset is harmless)."""
    rec = Recorder()
    pw = c["pw"].encode()
    cfg_blob = bytes.fromhex(c["cfg_blob"]) if "cfg_blob" in c else b""
    keys = [bytes.fromhex(k) for k in c.get("cfg_keys", [])]
    for p in c.get("pairs", []):
        if p.get("wrap", "phrase") != "phrase" or "fields" in p or "rounds_text" in p or "salt_text" in p:
            continue
        if p["p2k"] not in KDFS or p["cipher"] not in CIPHERS or not (1 <= p["rounds"] <= 0x7FFFFFFF):
            continue
        if p["rounds"] > 100000:
            continue
        key = rec.do("pbkdf2", KDFS[p["p2k"]], pw, bytes.fromhex(p["salt"]), p["rounds"], CIPHERS[p["cipher"]])
        if "data_text" in p:
            continue
        dec = hint_decrypt(rec, key, bytes.fromhex(p["data"]), p["mac"])
        if dec is not None:
            for k in keys:
                hint_decrypt(rec, k, cfg_blob, p["mac"])
    return rec.table


def enc_call(call):
    return [call[0]] + [x.hex() if isinstance(x, bytes) else x for x in call[1:]]


def dec_call(j):
    if j[0] == "pbkdf2":
        return ("pbkdf2", j[1], bytes.fromhex(j[2]), bytes.fromhex(j[3]), j[4], j[5])
    if j[0] == "aes":
        return ("aes", bytes.fromhex(j[1]), bytes.fromhex(j[2]), bytes.fromhex(j[3]))
    return ("hmac", j[1], bytes.fromhex(j[2]), bytes.fromhex(j[3]))


# ----------------------------------------------------------------------------- generator
WORDS = ["displayName", "guestOS", "memsize", "numvcpus", "scsi0:0.fileName", "scsi0:0.present", "ethernet0.address",
         "dataFileKey", "uuid.bios", "vmci0.present", "annotation", "tools.syncTime", "nvram", "virtualHW.version",
         "ide1:0.deviceType", "sata0:1.fileName", "config.version", "extendedConfigFile", "floppy0.present"]
VALS = ["TRUE", "FALSE", "Encrypted VM", "disk 1.vmdk", "564d 3a 11", "ubuntu-64", "4096", "a=b=c", "x # y",
        "naïve café", "日本語のVM", "tab\there", "", "0", "type=key:cipher=AES-256:key=AAAA", "C:\\vm\\d.vmdk",
        # characters some line splitters take for line ends; the format's only line end is the newline
        "line\u2028sep", "para\u2029sep", "next\x85line", "form\x0cfeed", "vert\x0btab", "fs\x1cgs\x1drs\x1eus"]
PASSES = ["password", "correct horse battery staple", "p", "Pässwörd", "пароль", "🔑key", "pass word ", "12345678",
          "a" * 70, "x,y(z)/%41"]


def lower_ok(s):
    return all(ord(ch) < 128 or ch.lower() == ch for ch in s)


def gen_config(rng, want_len=None):
    """-> (config bytes, entries or None).  entries = ordered ground truth [(key, value)] when structured."""
    if want_len is not None:
        # exact length, structured: key = "vvvv..." lines padded with a comment
        if want_len < 8:
            return (b"#" * want_len, [])
        body = "k%d = \"" % rng.randrange(10)
        fill = want_len - len(body) - 2
        if fill < 0:
            return (b"#" * want_len, [])
        v = "".join(rng.choice("abcdefghij0123456789 ._-") for _ in range(fill))
        text = body + v + "\"\n"
        assert len(text) == want_len
        return (text.encode(), [(body[:2], v.strip(' '))])
    n = rng.weighted([(0, 1), (1, 2), (3, 4), (8, 3), (20, 1)])
    n = rng.randint(0, n)
    lines = []
    entries = {}
    for _ in range(n):
        k = rng.pick(WORDS)
        if rng.chance(0.3):
            k = "".join(ch.upper() if rng.chance(0.5) else ch.lower() for ch in k)
        v = rng.pick(VALS)
        if rng.chance(0.2):
            v = v + str(rng.randrange(1000))
        form = rng.weighted([("std", 6), ("tight", 1), ("spaced", 1), ("bare", 1)])
        if form == "std":
            line = f'{k} = "{v}"'
        elif form == "tight":
            line = f'{k}="{v}"'
        elif form == "spaced":
            line = f'  {k}\t=  "{v}"  '
        else:
            line = f"{k} = {v}"
        lines.append(line)
        ek = k.strip().lower()
        entries[ek] = v.strip(' "')
        if rng.chance(0.15):
            lines.append(rng.pick(["", "# comment = 1", "   ", "#", " # x"]))
    eol = rng.weighted([("\n", 8), ("\r\n", 1)])
    text = eol.join(lines) + (eol if lines and rng.chance(0.8) else "")
    return text.encode(), list(entries.items())


def new_pair(rng, combo, pw, K, ident=None, cipher_name=None):
    cipher, mac, kdf = combo
    rounds = rng.weighted([(1, 2), (2, 1), (rng.randint(3, 50), 4), (rng.randint(51, 2000), 2)])
    salt_len = rng.weighted([(16, 5), (0, 1), (1, 1), (8, 1), (rng.randint(2, 64), 3), (64, 1)])
    salt = bytes(rng.randrange(256) for _ in range(salt_len))
    key = hashlib.pbkdf2_hmac(KDFS[kdf], pw.encode(), salt, rounds, CIPHERS[cipher])
    iv = bytes(rng.randrange(256) for _ in range(16))
    cn = cipher_name or {16: "AES-128", 24: "AES-192", 32: "AES-256"}.get(len(K), "AES-256")
    kstyle = rng.pick(["full", "min"])
    keydict = render_cdict([("type", "key"), ("cipher", cn), ("key", b64(K))], kstyle)
    data = seal_blob(key, iv, keydict.encode(), mac)
    pid = ident if ident is not None else rng.pick(["JTHVQF8/BHU=", "id", "a b", "p/1", "x,y", "(z)", "ключ", ""])
    return {"id": pid, "p2k": kdf, "cipher": cipher, "rounds": rounds, "salt": salt.hex(), "mac": mac,
            "data": data.hex(), "pw": pw, "K": K.hex(), "keydict": keydict}


def base_case(rng, idx, tier, big=False, cfg_len=None, keydict_blocks=False):
    combo = COMBOS[idx % len(COMBOS)]
    klen = [16, 24, 32][(idx // len(COMBOS)) % 3] if rng.chance(0.7) else rng.pick([16, 24, 32])
    K = bytes(rng.randrange(256) for _ in range(klen))
    pw = rng.pick(PASSES) if rng.chance(0.8) else "".join(chr(rng.randrange(33, 127)) for _ in range(rng.randint(0, 20)))
    if rng.chance(0.03):
        pw = ""
    lens = [0, 1, 15, 16, 17, 31, 32, 33, 47, 48, 100, 255, 256]
    if cfg_len is not None:
        cfg, entries = gen_config(rng, cfg_len)
    elif big:
        cfg, entries = gen_config(rng, rng.pick([1000, 2047, 2048, 4000] if tier == "thorough" else [700, 1000, 1500]))
    elif rng.chance(0.35):
        cfg, entries = gen_config(rng, rng.pick(lens))
    else:
        cfg, entries = gen_config(rng)
    good = new_pair(rng, combo, pw, K)
    for _ in range(400):
        if not keydict_blocks or len(good["keydict"]) % 16 == 0:
            break
        K = bytes(rng.randrange(256) for _ in range(klen))
        good = new_pair(rng, combo, pw, K, cipher_name=rng.pick(["AES-256-CBC", "AES-256", "AES", "aes256", "A", "AES-128-CBC"]))
    pairs = [good]
    # other pairs before / after
    nother = rng.weighted([(0, 12), (1, 5), (2, 2), (3, 1)])
    decoys = []
    for _ in range(nother):
        kind = rng.weighted([("foreign", 4), ("list", 2), ("pairwrap", 1), ("otherkey", 2)])
        oc = rng.pick(COMBOS)
        if kind == "foreign":
            p = new_pair(rng, oc, pw + rng.pick(["x", "1", " "]), K)
        elif kind == "otherkey":
            K2 = bytes(rng.randrange(256) for _ in range(rng.pick([16, 24, 32])))
            p = new_pair(rng, oc, pw + "#decoy", K2)
            decoys.append(p)
        else:
            p = new_pair(rng, oc, pw, K)
            p["wrap"] = "list" if kind == "list" else "pair"
        if rng.chance(0.6):
            pairs.insert(0, p)
        else:
            pairs.append(p)
    iv = bytes(rng.randrange(256) for _ in range(16))
    blob = seal_blob(K, iv, cfg, good["mac"])
    visible = [(".encoding", "UTF-8"), ("displayName", rng.pick(["Encrypted VM", "vm 1", "Ünïcode", "a=b"]))]
    for _ in range(rng.weighted([(0, 3), (1, 2), (3, 1)])):
        visible.append((rng.pick(WORDS), rng.pick(VALS).replace('"', "'").replace("\t", " ")))
    seen = set()
    visible = [(k, v) for k, v in visible if not (k.lower() in seen or seen.add(k.lower()))]
    c = {"kind": "roundtrip", "combo": list(combo), "klen": klen, "pw": pw, "pairs": pairs, "good": pairs.index(good),
         "cfg": cfg.hex(), "cfg_blob": blob.hex(), "cfg_keys": sorted({p["K"] for p in pairs}),
         "visible": visible, "style": rng.pick(["full", "full", "min", "fullU", "minU"]),
         "ks_pos": rng.randint(0, len(visible)), "expect": "ok", "decoy_pw": [p["pw"] for p in decoys]}
    if rng.chance(0.1):
        c["ks_key"] = rng.pick(["encryption.keysafe", "ENCRYPTION.KEYSAFE", "Encryption.KeySafe"])
    if entries is not None and all(lower_ok(k) for k, _ in entries):
        c["entries"] = [list(e) for e in entries]
    return c


def tamper_bytes(b, pos, x):
    b = bytearray(b)
    b[pos] ^= x
    return bytes(b)


def regions(blob_len, macname):
    n = MACS[macname][1]
    return {"iv": (0, 16), "ct": (16, blob_len - n), "mac": (blob_len - n, blob_len)}


def make_tamper(rng, c, field=None, region=None, pos=None, x=None):
    g = c["pairs"][c["good"]]
    field = field or rng.weighted([("pair_data", 4), ("cfg_data", 4), ("salt", 1), ("rounds", 1)])
    c["kind"] = "tamper"
    c["expect"] = "err"
    if field in ("pair_data", "cfg_data"):
        blob = bytes.fromhex(g["data"] if field == "pair_data" else c["cfg_blob"])
        reg = regions(len(blob), g["mac"])
        region = region or rng.pick(["iv", "ct", "ct", "mac"])
        lo, hi = reg[region]
        if pos is None:
            pos = rng.weighted([(lo, 2), (hi - 1, 2), (rng.randrange(lo, hi), 4)])
            if region == "ct" and rng.chance(0.4):
                pos = rng.pick([hi - 1, hi - 16, hi - 17 if hi - 17 >= lo else lo])   # padding block / the block before it
        x = x or rng.weighted([(1, 2), (0x80, 2), (0xFF, 1), (rng.randrange(1, 256), 3)])
        nb = tamper_bytes(blob, pos, x)
        if field == "pair_data":
            g["data"] = nb.hex()
        else:
            c["cfg_blob"] = nb.hex()
        c["tamper"] = {"field": field, "region": region, "pos": pos, "xor": x}
    elif field == "salt":
        s = bytes.fromhex(g["salt"])
        if not s:
            s = b"\x00"
            c["tamper"] = {"field": "salt", "region": "append", "pos": 0, "xor": 0}
        else:
            pos = rng.randrange(len(s)) if pos is None else pos
            x = x or rng.randrange(1, 256)
            s = tamper_bytes(s, pos, x)
            c["tamper"] = {"field": "salt", "region": "salt", "pos": pos, "xor": x}
        g["salt"] = s.hex()
    else:
        g["rounds"] = g["rounds"] + rng.pick([1, 1, -1]) if g["rounds"] > 1 else g["rounds"] + 1
        c["tamper"] = {"field": "rounds", "region": "rounds", "pos": 0, "xor": 0}
    return c


def make_pad_tamper(rng, c, field, how):
    """Alterations that only touch PKCS#7 padding of the plaintext (directed search with the writer's keys):
    how = 'iv'   : plaintext shorter than a block, an IV byte under a padding byte is changed
    how = 'last' : plaintext a whole number of blocks; a byte of the last ciphertext block is changed so that the
                   garbled padding block still ends in 0x10."""
    g = c["pairs"][c["good"]]
    c["kind"] = "tamper"
    c["expect"] = "err"
    if field == "cfg_data":
        blob, key = bytes.fromhex(c["cfg_blob"]), bytes.fromhex(g["K"])
        plain_len = len(bytes.fromhex(c["cfg"]))
    else:
        blob = bytes.fromhex(g["data"])
        key = hashlib.pbkdf2_hmac(KDFS[g["p2k"]], c["pw"].encode(), bytes.fromhex(g["salt"]), g["rounds"], CIPHERS[g["cipher"]])
        plain_len = None
    n = MACS[g["mac"]][1]
    found = None
    if how == "iv":
        assert plain_len is not None and plain_len < 15
        pos = rng.randrange(plain_len, 15)
        found = (pos, rng.randrange(1, 256))
    else:
        ct_hi = len(blob) - n
        order = [(pos, x) for pos in range(ct_hi - 16, ct_hi) for x in range(1, 256)]
        rng.shuffle(order)
        for pos, x in order:
            nb = tamper_bytes(blob, pos, x)
            if _aes(key, nb[:16]).decrypt(nb[16:ct_hi])[-1] == 16:
                found = (pos, x)
                break
        if found is None:
            found = order[0]
    pos, x = found
    nb = tamper_bytes(blob, pos, x)
    if field == "cfg_data":
        c["cfg_blob"] = nb.hex()
    else:
        g["data"] = nb.hex()
    c["tamper"] = {"field": field, "region": "iv-under-padding" if how == "iv" else "padding-block", "pos": pos, "xor": x}
    return c


def make_wrongpw(rng, c):
    pw = c["pw"]
    alts = [pw + " ", pw + "x", pw[:-1], pw.swapcase(), " " + pw, "", pw * 2, "password1", pw.upper()]
    alts = [a for a in alts if a != pw]
    if c["decoy_pw"] and rng.chance(0.5):
        alts = c["decoy_pw"]         # opens a decoy pair whose key does not decrypt the configuration
    c["pw"] = rng.pick(alts)
    c["kind"] = "wrongpw"
    c["expect"] = "err"
    # no other pair may legitimately open with the new passphrase
    for p in c["pairs"]:
        if p["pw"] == c["pw"] and p["K"] == c["pairs"][c["good"]]["K"] and p.get("wrap", "phrase") == "phrase":
            c["pw"] = c["pw"] + "\u00a7"
    return c


MALFORMED = [
    "rounds_0", "rounds_neg", "rounds_big", "rounds_huge", "rounds_us", "rounds_ws", "rounds_bad", "rounds_plus",
    "unknown_cipher", "unknown_mac", "unknown_kdf", "case_cipher",
    "missing_field", "missing_data_line", "missing_keysafe", "bad_identifier", "top_pair", "phrase_in_list",
    "unknown_locator", "two_members", "one_member", "four_members", "no_parens", "empty_parens", "unbalanced",
    "newline_in_list", "trailing_garbage",
    "data_short", "data_no_ct", "data_odd", "data_b64_bad", "data_b64_nonascii", "data_b64_junk", "salt_b64_bad",
    "cfg_short", "cfg_no_ct", "cfg_odd", "cfg_b64_bad", "cfg_utf8_bad", "cfg_pad_zero", "cfg_pad_big", "cfg_nopad",
    "keydict_utf8_bad", "keydict_no_key", "keydict_key_len", "keydict_key_b64_bad", "keydict_dup",
    "pct_bad_hex", "pct_nonascii", "pct_high", "text_mutation",
]


# malformed kinds whose primitive calls cannot be predicted from the structure the writer knows
NEEDS_COMPLETION = {"rounds_us", "rounds_ws", "rounds_plus", "rounds_bad", "missing_field", "data_b64_bad", "data_b64_junk",
                    "data_b64_nonascii", "salt_b64_bad", "text_mutation", "empty_parens", "unbalanced", "newline_in_list",
                    "no_parens", "unknown_locator", "pct_bad_hex"}


def seal_raw(key, iv, padded_plain, mac_over, macname):
    """Seal with explicit control of padding and MACed bytes (for malformed cases)."""
    h, n = MACS[macname]
    ct = _aes(key, iv).encrypt(padded_plain) if padded_plain else b""
    return iv + ct + _hmac.digest(key, mac_over, h)[:n]


def make_malformed(rng, c, what):
    g = c["pairs"][c["good"]]
    c["kind"] = "malformed"
    c["what"] = what
    c["needs_completion"] = what in NEEDS_COMPLETION
    c["expect"] = None
    c.pop("entries", None)
    K = bytes.fromhex(g["K"])
    pwb = c["pw"].encode()

    def rekey():
        return hashlib.pbkdf2_hmac(KDFS[g["p2k"]], pwb, bytes.fromhex(g["salt"]), g["rounds"], CIPHERS[g["cipher"]])

    def reseal_pair(keydict_bytes):
        g["data"] = seal_blob(rekey(), bytes(range(16)), keydict_bytes, g["mac"]).hex()

    if what == "rounds_0":
        g["rounds"] = 0
    elif what == "rounds_neg":
        g["rounds"] = -rng.pick([1, 5, 1 << 70])
    elif what == "rounds_big":
        g["rounds"] = rng.pick([1 << 31, (1 << 31) + 5, (1 << 63) - 1])
    elif what == "rounds_huge":
        g["rounds"] = rng.pick([1 << 63, 1 << 64, 10 ** 30])
    elif what == "rounds_us":
        g["rounds_text"] = rng.pick(["1_0", "1__0", "_10", "10_", "0_1"])
    elif what == "rounds_ws":
        g["rounds_text"] = rng.pick([" 10", "10 ", "\t10\n", "\u00a010", "1 0"])
    elif what == "rounds_bad":
        g["rounds_text"] = rng.pick(["", "abc", "0x10", "1.5", "1e3", "-", "+", "--1"])
    elif what == "rounds_plus":
        g["rounds_text"] = rng.pick(["+10", "-0", "+0", "0010", "-10"])
    elif what == "unknown_cipher":
        g["cipher"] = rng.pick(["AES-512", "", "DES", "AES-256 "])
    elif what == "case_cipher":
        g["cipher"] = g["cipher"].lower()
    elif what == "unknown_mac":
        g["mac"] = rng.pick(["HMAC-MD5", "hmac-sha-1", "", "HMAC-SHA-1-96"])
    elif what == "unknown_kdf":
        g["p2k"] = rng.pick(["PBKDF2-HMAC-SHA-512", "pbkdf2-hmac-sha-1", ""])
    elif what == "missing_field":
        full = [("pass2key", g["p2k"]), ("cipher", g["cipher"]), ("rounds", str(g["rounds"])),
                ("salt", b64(bytes.fromhex(g["salt"])))]
        drop = rng.randrange(4)
        g["fields"] = full[:drop] + full[drop + 1:]
    elif what == "missing_data_line":
        c["no_data"] = True
    elif what == "missing_keysafe":
        c["no_keysafe"] = True
    elif what == "bad_identifier":
        c["top"] = rng.pick(["vmware:keys", "VMWARE:KEY", "", "vmware"])
    elif what == "top_pair":
        c["top"] = "pair"
    elif what == "phrase_in_list":
        c["top"] = "phrase_in_list"
    elif what == "unknown_locator":
        g["wrap"] = rng.pick(["rawkey", "ldap", "script", "role", "fqid", "Phrase", ""])
    elif what == "two_members":
        g["nmembers"] = 2
    elif what == "one_member":
        g["nmembers"] = 1
    elif what == "four_members":
        g["extra_members"] = ["extra"]
    elif what == "no_parens":
        g["raw"] = "pair/" + render_locator(g, c["style"])[6:-1]
    elif what == "empty_parens":
        g["raw"] = rng.pick(["pair/()", "list/()", "pair/(,)", "pair/(,,)", "pair/(a)", "list/(,)"])
    elif what == "unbalanced":
        r = render_locator(g, c["style"])
        g["raw"] = rng.pick([r[:-1], r + ")", "pair/((" + r[6:], r.replace(",", "),", 1)])
    elif what == "newline_in_list":
        r = render_locator(g, c["style"])
        k = rng.randrange(6, len(r))
        g["raw"] = r[:k] + "\\n" + r[k:] if rng.chance(0.3) else r[:k] + "\x0b" + r[k:]
    elif what == "trailing_garbage":
        g["raw"] = render_locator(g, c["style"]) + rng.pick(["xyz", " ", "/", "(", "%"])
    elif what == "data_short":
        g["data"] = bytes.fromhex(g["data"])[:rng.pick([0, 1, 15, 16, 17, 20, 35])].hex()
    elif what == "data_no_ct":
        key = rekey()
        g["data"] = seal_raw(key, bytes(16), b"", b"", g["mac"]).hex()
    elif what == "data_odd":
        d = bytes.fromhex(g["data"])
        g["data"] = (d[:20] + d[21:]).hex() if rng.chance(0.5) else (d + b"\x00").hex()
    elif what == "data_b64_bad":
        t = b64(bytes.fromhex(g["data"]))
        g["data_text"] = rng.pick([t[:-1], t[:-2], t + "A", "=" + t, t.rstrip("=")])
    elif what == "data_b64_nonascii":
        t = b64(bytes.fromhex(g["data"]))
        g["data_text"] = t[:5] + "é" + t[5:]
    elif what == "data_b64_junk":
        t = b64(bytes.fromhex(g["data"]))
        k = rng.randrange(len(t))
        g["data_text"] = t[:k] + rng.pick([" ", "\t", "-", "_", "!", "==", "="]) + t[k:]
    elif what == "salt_b64_bad":
        t = b64(bytes.fromhex(g["salt"]) or b"s")
        g["salt_text"] = rng.pick([t[:-1], t + "A", t.replace("=", ""), "é", "A"])
    elif what == "cfg_short":
        c["cfg_blob"] = bytes.fromhex(c["cfg_blob"])[:rng.pick([0, 1, 15, 16, 17, 20, 35])].hex()
    elif what == "cfg_no_ct":
        c["cfg_blob"] = seal_raw(K, bytes(16), b"", b"", g["mac"]).hex()
    elif what == "cfg_odd":
        d = bytes.fromhex(c["cfg_blob"])
        c["cfg_blob"] = (d[:20] + d[21:]).hex()
    elif what == "cfg_b64_bad":
        t = b64(bytes.fromhex(c["cfg_blob"]))
        c["data_text"] = rng.pick([t[:-1], t + "A", "é" + t, t[:7] + " " + t[7:], t[:7] + "\t\t" + t[7:]])
    elif what == "cfg_utf8_bad":
        bad = rng.pick([b"\xff", b"\xc3", b"\xe2\x82", b"\xed\xa0\x80", b"\xf4\x90\x80\x80", b"\xc0\xaf", b"a\x80b"])
        cfg = b'k = "v"\n' + bad + b"\n"
        c["cfg"] = cfg.hex()
        c["cfg_blob"] = seal_blob(K, bytes(16), cfg, g["mac"]).hex()
    elif what == "cfg_pad_zero":
        # last plaintext byte 0: the code strips to b"" and MACs the empty string
        plain = b'a = "1"\n' + b"\x00" * 8
        c["cfg_blob"] = seal_raw(K, bytes(16), plain, rng.pick([b"", plain]), g["mac"]).hex()
        c["cfg"] = b"".hex()
    elif what == "cfg_pad_big":
        # last plaintext byte > 16: nothing is stripped
        plain = b'a = "1"\n' + b" " * 7 + b"z"
        c["cfg_blob"] = seal_raw(K, bytes(16), plain, plain, g["mac"]).hex()
        c["cfg"] = plain.hex()
        c["expect_unpadded_ok"] = True
    elif what == "cfg_nopad":
        # last byte 17..255 vs exactly 16 : boundary of the `<= 16` test
        last = rng.pick([16, 17])
        plain = b'b = "2"\n' + b"#" * 7 + bytes([last])
        c["cfg_blob"] = seal_raw(K, bytes(16), plain, plain if last == 17 else plain[:-16], g["mac"]).hex()
    elif what == "keydict_utf8_bad":
        reseal_pair(b"type=key:cipher=AES-256:key=" + b64(K).encode() + b"\xff")
    elif what == "keydict_no_key":
        reseal_pair(rng.pick([b"type=key:cipher=AES-256", b"", b"key", b"Key=AAAA", b":::"]))
    elif what == "keydict_key_len":
        K2 = bytes(rng.pick([0, 1, 15, 17, 31, 33, 64]))
        reseal_pair(b"type=key:cipher=AES-256:key=" + quote(b64(K2), "full").encode())
        c["cfg_keys"] = sorted(set(c["cfg_keys"]) | {K2.hex()})
    elif what == "keydict_key_b64_bad":
        reseal_pair(b"type=key:key=" + rng.pick([b"A", b"AAAAA", "é".encode(), b"AA=A"]))
    elif what == "keydict_dup":
        K2 = bytes(range(32))
        reseal_pair(b"key=" + quote(b64(K2), "full").encode() + b":type=key:key=" + quote(b64(K), "full").encode())
        c["expect"] = "ok"
        c["kind"] = "roundtrip"
    elif what == "pct_bad_hex":
        g["id"] = rng.pick(["a%zzb", "100%", "%4", "%%41", "%4%41", "a%2"])
        g["raw"] = render_locator(g, c["style"]).replace(quote(g["id"], c["style"]), g["id"], 1)
    elif what == "pct_nonascii":
        g["id"] = "é"
        g["raw"] = render_locator(g, c["style"]).replace(quote("é", c["style"]), rng.pick(["é%41", "%c3é", "é"]), 1)
    elif what == "pct_high":
        g["id"] = "Q"
        g["raw"] = render_locator(g, c["style"]).replace("phrase/Q/", "phrase/" + rng.pick(
            ["%ff", "%c3", "%c3%a9", "%e2%82", "a%80b", "%f0%9f%94%91", "%ed%a0%80", "%C3%A9x%e9"]) + "/", 1)
    elif what == "text_mutation":
        c["needs_completion"] = True
        text = render_vmx(c)
        lo = text.index("encryption.keySafe") if "encryption.keySafe" in text else 0
        k = rng.randrange(lo, len(text))
        op = rng.pick(["del", "ins", "sub"])
        ch = rng.pick(list("(),/%=:\"\n aA0+") + ["%2", "é"])
        if op == "del":
            text = text[:k] + text[k + 1:]
        elif op == "ins":
            text = text[:k] + ch + text[k:]
        else:
            text = text[:k] + ch + text[k + 1:]
        c["vmx_text"] = text
    return c


def finish(c):
    if "vmx_text" not in c:
        c["vmx_text"] = render_vmx(c)
    c["oracle"] = [[enc_call(call), r.hex()] for call, r in compute_hints(c)]
    # slim the case: drop helper fields that are not needed for replay
    for p in c.get("pairs", []):
        p.pop("keydict", None)
    return c


def gen_cases(rng, tier):
    cases = []
    n_pos = 72 if tier == "quick" else 600
    for i in range(n_pos):
        cases.append(finish(base_case(rng, i, tier, big=(i % 36 == 35))))
    n_t = 54 if tier == "quick" else 1200
    for i in range(n_t):
        c = base_case(rng, i, tier)
        cases.append(finish(make_tamper(rng, c)))
    if tier == "thorough":
        # every byte position of both blobs of small cases, for every MAC
        for i in (0, 2, 4, 9, 13, 17):            # two combinations per MAC
            for field in ("pair_data", "cfg_data"):
                probe = base_case(core.Rng(1000 + i), i, tier)
                g = probe["pairs"][probe["good"]]
                ln = len(bytes.fromhex(g["data"] if field == "pair_data" else probe["cfg_blob"]))
                if ln > 200:
                    continue
                for pos in range(ln):
                    c = base_case(core.Rng(1000 + i), i, tier)
                    reg = [r for r, (lo, hi) in regions(ln, g["mac"]).items() if lo <= pos < hi][0]
                    cases.append(finish(make_tamper(rng, c, field=field, region=reg, pos=pos,
                                                    x=rng.pick([1, 0x80, 0xFF, rng.randrange(1, 256)]))))
    # directed: alterations that only reach PKCS#7 padding
    n_d = 1 if tier == "quick" else 12
    for r in range(n_d):
        for j, ln in enumerate([0, 1, 5, 14]):
            cases.append(finish(make_pad_tamper(rng, base_case(rng, 4 * r + j, tier, cfg_len=ln), "cfg_data", "iv")))
        for j, ln in enumerate([0, 16, 32]):
            cases.append(finish(make_pad_tamper(rng, base_case(rng, 3 * r + j + 7, tier, cfg_len=ln), "cfg_data", "last")))
        cases.append(finish(make_pad_tamper(rng, base_case(rng, r + 11, tier, keydict_blocks=True), "pair_data", "last")))
    n_w = 18 if tier == "quick" else 240
    for i in range(n_w):
        cases.append(finish(make_wrongpw(rng, base_case(rng, i, tier))))
    reps = 1 if tier == "quick" else 6
    for r in range(reps):
        for j, what in enumerate(MALFORMED):
            cases.append(finish(make_malformed(rng, base_case(rng, j + r, tier), what)))
    return cases


# ----------------------------------------------------------------------------- Coq rendering
# Coq's front end costs ~0.1 ms per number literal; named constants b0..b255 (defined in the
# preamble of every generated file) are about twice as cheap to parse.
BYTE_DEFS = "".join(f"Definition b{i} : Z := {i}.\n" for i in range(256))


# Printing is as slow as parsing: long values (the key safe, encryption.data) are printed as
# (-1, length, checksum); compact_py applies the same map to the implementation's dictionary.
SHOW_DEFS = """
Definition cksum (s : list Z) : Z := fold_left (fun a c => (a * 257 + c + 1) mod 2147483629) s 7.
Definition compact_v (v : list Z) : list Z := if 48 <? len v then [-1; len v; cksum v] else v.
Definition compact (d : dict) : dict := map (fun kv => (compact_v (fst kv), compact_v (snd kv))) d.
Definition show (m : tres dict * dict) (spec : dict) :=
  (match fst m with
   | TDone (XOk d) tr => TDone (XOk (compact d)) tr
   | other => other
   end, compact (snd m), compact spec).
"""


def cksum(cps):
    a = 7
    for c in cps:
        a = (a * 257 + c + 1) % 2147483629
    return a


def compact_s(s):
    cp = [ord(ch) for ch in s] if isinstance(s, str) else list(s)
    return (-1, len(cp), cksum(cp)) if len(cp) > 48 else tuple(cp)


def compact_py(items):
    return [(compact_s(k), compact_s(v)) for k, v in items]


def show_s(t):
    return f"<{t[1]} chars #{t[2]}>" if t and t[0] == -1 else "".join(chr(x) for x in t)


def blist(b: bytes) -> str:
    return "[" + ";".join(f"b{x}" for x in b) + "]"


def slist(s: str) -> str:
    return "[" + ";".join(f"b{ord(ch)}" if ord(ch) < 256 else str(ord(ch)) for ch in s) + "]"


def call_term(call):
    if call[0] == "pbkdf2":
        _, h, pw, salt, rounds, n = call
        return f"CPbkdf2 {slist(h)} {blist(pw)} {blist(salt)} {Z(rounds)} {Z(n)}"
    if call[0] == "aes":
        return f"CAesDec {blist(call[1])} {blist(call[2])} {blist(call[3])}"
    return f"CHmac {slist(call[1])} {blist(call[2])} {blist(call[3])}"


def case_term(c):
    tbl = "[" + "; ".join(f"({call_term(dec_call(j))}, {blist(bytes.fromhex(r))})" for j, r in c["oracle"]) + "]"
    model = f"check_unlock {tbl} vmx_text {blist(c['pw'].encode())}"
    if c.get("expect") == "ok":
        try:
            cfg_text = bytes.fromhex(c["cfg"]).decode()
        except ValueError:
            cfg_text = None
    else:
        cfg_text = None
    if cfg_text is not None:
        spec = f"dict_update (parse_dictionary vmx_text) (parse_dictionary {slist(cfg_text)})"
    else:
        spec = "@nil (str * str)"
    return f"(let vmx_text : str := {slist(c['vmx_text'])} in show ({model}) ({spec}))"


def dict_of(v):
    """parsed Coq dict -> list of (str, str)"""
    return [(tuple(item[1]), tuple(item[2])) for item in v]


EXC_FAMILY = {"EValue": "ValueError", "EKey": "KeyError", "EType": "TypeError", "EIndex": "IndexError",
              "ENotImpl": "NotImplementedError", "EAttr": "AttributeError", "EOverflow": "OverflowError"}


def complete_tables(cases, preamble, max_rounds=12):
    """Generic completion: evaluate, execute every call the model asks for, repeat."""
    todo = list(range(len(cases)))
    for _ in range(max_rounds):
        if not todo:
            break
        vals = core.eval_coq("C15_complete", preamble, [case_term(cases[i]) for i in todo], shard=3)
        nxt = []
        for i, v in zip(todo, vals):
            try:
                t = v[1]
            except Exception:  # noqa: BLE001
                continue
            if isinstance(t, tuple) and t[0] == "TNeed":
                call = coq_call(t[1])
                try:
                    r = prim(call)
                except Exception:  # noqa: BLE001
                    continue
                cases[i]["oracle"].append([enc_call(call), r.hex()])
                nxt.append(i)
        todo = nxt


def coq_call(v):
    tag = v[0]
    bs = lambda x: bytes(x)  # noqa: E731
    if tag == "CPbkdf2":
        return ("pbkdf2", "".join(chr(x) for x in v[1]), bs(v[2]), bs(v[3]), v[4], v[5])
    if tag == "CAesDec":
        return ("aes", bs(v[1]), bs(v[2]), bs(v[3]))
    return ("hmac", "".join(chr(x) for x in v[1]), bs(v[2]), bs(v[3]))


# ----------------------------------------------------------------------------- implementation driver
class _ModProxy:
    def __init__(self, real, **over):
        self._real = real
        self._over = over

    def __getattr__(self, name):
        if name in self._over:
            return self._over[name]
        return getattr(self._real, name)


def run_impl(case):
    import dissect.hypervisor.descriptor.vmx as vmx
    calls = []
    real_hashlib, real_hmac, real_aes = hashlib, _hmac, None
    from Crypto.Cipher import AES as real_aes  # noqa: N811

    def pbkdf2(h, pw, salt, rounds, dklen=None):
        r = real_hashlib.pbkdf2_hmac(h, pw, salt, rounds, dklen)
        calls.append(("pbkdf2", h, bytes(pw), bytes(salt), rounds, dklen))
        return r

    def digest(key, msg, dg):
        r = real_hmac.digest(key, msg, dg)
        calls.append(("hmac", dg, bytes(key), bytes(msg)))
        return r

    class CipherProxy:
        def __init__(self, key, iv, obj):
            self.key, self.iv, self.obj = key, iv, obj

        def decrypt(self, ct):
            r = self.obj.decrypt(ct)
            calls.append(("aes", bytes(self.key), bytes(self.iv), bytes(ct)))
            return r

        def __getattr__(self, name):
            return getattr(self.obj, name)

    def aes_new(key, mode, *a, **kw):
        obj = real_aes.new(key, mode, *a, **kw)
        iv = kw.get("iv", kw.get("IV", a[0] if a else b""))
        return CipherProxy(key, iv, obj)

    saved = (vmx.hashlib, vmx.hmac, vmx.AES, vmx.HAS_PYSTANDALONE)
    vmx.hashlib = _ModProxy(real_hashlib, pbkdf2_hmac=pbkdf2)
    vmx.hmac = _ModProxy(real_hmac, digest=digest)
    vmx.AES = _ModProxy(real_aes, new=aes_new)
    vmx.HAS_PYSTANDALONE = False
    try:
        v = vmx.VMX.parse(case["vmx_text"])
        before = list(v.attr.items())
        out = {"before": before}
        try:
            r = v.unlock_with_phrase(case["pw"])
            out["outcome"] = "ok"
            out["ret"] = repr(r)
        except Exception as e:  # noqa: BLE001
            out["outcome"] = "exc"
            out["exc"] = type(e).__name__
            fam = [k.__name__ for k in type(e).__mro__ if k.__name__ in EXC_FAMILY.values()]
            out["family"] = fam[0] if fam else type(e).__name__
            out["msg"] = str(e)[:160]
        out["after"] = list(v.attr.items())
        out["calls"] = [enc_call(c) for c in calls]
        if case.get("expect") == "ok" and out["outcome"] == "ok":
            # every call authenticates: after a successful unlock the same object still refuses a wrong passphrase
            try:
                v.unlock_with_phrase(case["pw"] + "\u00b7wrong")
                out["wrong_after_right"] = "accepted"
            except Exception:  # noqa: BLE001
                out["wrong_after_right"] = "exc"
            # the same file on one object: a wrong passphrase first (refused, nothing changes), then the right one
            v2 = vmx.VMX.parse(case["vmx_text"])
            try:
                v2.unlock_with_phrase(case["pw"] + "\u00b7wrong")
                out["retry_wrong"] = "accepted"
            except Exception as e:  # noqa: BLE001
                out["retry_wrong"] = "exc"
            out["retry_mid"] = list(v2.attr.items())
            try:
                v2.unlock_with_phrase(case["pw"])
                out["retry"] = "ok"
            except Exception as e:  # noqa: BLE001
                out["retry"] = f"{type(e).__name__}: {str(e)[:100]}"
            out["retry_after"] = list(v2.attr.items())
    finally:
        vmx.hashlib, vmx.hmac, vmx.AES, vmx.HAS_PYSTANDALONE = saved
    # the recorded primitive answers of the case must be true
    bad = []
    for j, r in case["oracle"]:
        call = dec_call(j)
        try:
            if prim(call).hex() != r:
                bad.append(j[0])
        except Exception as e:  # noqa: BLE001
            bad.append(f"{j[0]}:{type(e).__name__}")
    out["oracle_bad"] = bad
    return out


class UnlockSuite(Suite):
    name = "unlock"
    shard = 4
    per_case_timeout = 30.0
    preamble = ("From Coq Require Import ZArith List.\nImport ListNotations.\nOpen Scope Z_scope.\n"
                "From DH Require Import Model.VmxCrypto.\n" + BYTE_DEFS + SHOW_DEFS)

    def generate(self, rng, tier):
        cases = gen_cases(rng, tier)
        need = [c for c in cases if c.pop("needs_completion", False)]
        if need:
            complete_tables(need, self.preamble)
        return cases

    def impl(self, case):
        return run_impl(case)

    def coq_term(self, case):
        return case_term(case)

    def judge(self, case, impl_res, coq_val):
        fs = []
        kind = case["kind"]
        sig0 = f"vmx:unlock:{kind}"
        if impl_res.get("outcome") in ("hang", "crash", "oom"):
            return [Finding("impl_fault", f"implementation {impl_res['outcome']}: {impl_res.get('detail', '')}",
                            sig0 + ":" + impl_res["outcome"])]
        if "before" not in impl_res:
            return [Finding("impl_vs_model", f"VMX.parse raised {impl_res.get('exc')}: {impl_res.get('msg')}",
                            sig0 + ":parse-exc")]
        if impl_res["oracle_bad"]:
            fs.append(Finding("coq_error", f"recorded primitive answers are not reproducible: {impl_res['oracle_bad']}"))
        _, tr, attr_v, spec_v = coq_val
        model_attr0 = dict_of(attr_v)
        before = compact_py(impl_res["before"])
        after = compact_py(impl_res["after"])
        if before != model_attr0:
            fs.append(Finding("impl_vs_model", f"VMX.parse: implementation and model dictionaries differ: {_dict_diff(before, model_attr0)}",
                              "vmx:parse:dict"))
        need = tr[0] == "TNeed"
        if need:
            fs.append(Finding("coq_error", f"oracle table has no answer for a call of the model: {str(tr[1])[:200]}"))
            mres, trace = None, []
        else:
            _, mres, trace = tr
        table = [dec_call(j) for j, _ in case["oracle"]]
        model_calls = [enc_call(table[i]) for i in trace]
        if mres == "XFuel":
            fs.append(Finding("model_vs_spec", "model ran out of fuel", sig0 + ":fuel"))
            need = True
        if need:
            m_out, m_after = None, None
        elif isinstance(mres, tuple) and mres[0] == "XOk":
            m_out, m_after = "ok", dict_of(mres[1])
        else:
            m_out, m_after = EXC_FAMILY[mres[1]], model_attr0
        i_out = "ok" if impl_res["outcome"] == "ok" else impl_res["family"]
        combo = "/".join(case.get("combo", []))
        tam = case.get("tamper", {})
        what = case.get("what") or (f"{tam.get('field')}:{tam.get('region')}" if tam else "")
        label = f"{kind} {combo} {what}".strip()
        # ---- specification
        expect = case.get("expect")
        if expect == "ok":
            spec_after = dict_of(spec_v)
            if i_out != "ok":
                fs.append(Finding("impl_vs_spec", f"{label}: correct passphrase, untampered file: implementation raised "
                                  f"{impl_res['exc']} ({impl_res.get('msg', '')[:80]}); the property requires the original entries",
                                  f"vmx:unlock:roundtrip:{case['combo'][1] if 'combo' in case else ''}:exc"))
            elif after != spec_after:
                fs.append(Finding("impl_vs_spec", f"{label}: unlocked dictionary differs from attr + parse(cfg): "
                                  f"{_dict_diff(after, spec_after)}", "vmx:unlock:roundtrip:dict"))
            if i_out == "ok" and impl_res.get("wrong_after_right") == "accepted":
                fs.append(Finding("impl_vs_spec", f"{label}: after a successful unlock the same object accepted a wrong passphrase",
                                  "vmx:unlock:retry:wrong-after-right"))
            if i_out == "ok" and "retry" in impl_res:
                if impl_res["retry_wrong"] != "exc":
                    fs.append(Finding("impl_vs_spec", f"{label}: a wrong passphrase was accepted on a fresh object",
                                      "vmx:unlock:retry:wrong-accepted"))
                elif compact_py(impl_res["retry_mid"]) != before:
                    fs.append(Finding("impl_vs_spec", f"{label}: a refused passphrase changed the dictionary",
                                      "vmx:unlock:retry:mid"))
                elif impl_res["retry"] != "ok":
                    fs.append(Finding("impl_vs_spec", f"{label}: the correct passphrase after a refused one on the same object "
                                      f"raised {impl_res['retry']}; the property requires the original entries",
                                      "vmx:unlock:retry:exc"))
                elif compact_py(impl_res["retry_after"]) != after:
                    fs.append(Finding("impl_vs_spec", f"{label}: unlocking after a refused passphrase gives a different dictionary: "
                                      f"{_dict_diff(compact_py(impl_res['retry_after']), after)}", "vmx:unlock:retry:dict"))
            if "entries" in case and i_out == "ok":
                want = dict(before)
                for k, v in compact_py(case["entries"]):
                    want[k] = v
                if dict(after) != want:
                    fs.append(Finding("impl_vs_spec", f"{label}: unlocked dictionary differs from the writer's entries: "
                                      f"{_dict_diff(after, list(want.items()))}", "vmx:unlock:roundtrip:entries"))
            if need:
                pass
            elif m_out != "ok":
                fs.append(Finding("model_vs_spec", f"{label}: model raises {m_out} on a sealed file", sig0 + ":mvs"))
            elif m_after != spec_after:
                fs.append(Finding("model_vs_spec", f"{label}: model dictionary differs from the specification",
                                  sig0 + ":mvs-dict"))
        elif expect == "err":
            if i_out == "ok":
                fs.append(Finding("impl_vs_spec", f"{label}: unlock succeeded although "
                                  f"{'the passphrase is wrong' if kind == 'wrongpw' else 'a byte was altered: ' + str(tam)}",
                                  f"vmx:unlock:{kind}:{what}:accepted"))
            if after != before and i_out != "ok":
                fs.append(Finding("impl_vs_spec", f"{label}: unlock failed ({impl_res.get('exc')}) but the visible "
                                  f"configuration changed: {_dict_diff(after, before)}", f"vmx:unlock:{kind}:partial-update"))
            if m_out == "ok":
                fs.append(Finding("model_vs_spec", f"{label}: model accepts", sig0 + ":mvs-accept"))
        if need:
            return fs
        # ---- implementation vs model
        if i_out != m_out:
            fs.append(Finding("impl_vs_model", f"{label}: implementation {i_out} "
                              f"({impl_res.get('exc', '')}: {impl_res.get('msg', '')[:60]}), model {m_out}",
                              sig0 + f":outcome:{m_out}"))
        if after != m_after:
            k = "impl_vs_spec" if (i_out != "ok" and after != before) else "impl_vs_model"
            fs.append(Finding(k, f"{label}: final dictionary differs from the model: {_dict_diff(after, m_after)}",
                              sig0 + ":after"))
        if impl_res["calls"] != model_calls:
            fs.append(Finding("impl_vs_model", f"{label}: primitive call sequence differs: implementation "
                              f"{[c[0] for c in impl_res['calls']]} model {[c[0] for c in model_calls]}"
                              f"{_call_diff(impl_res['calls'], model_calls)}", sig0 + ":calls"))
        return fs

    def nontrivial(self, case, impl_res, coq_val):
        try:
            tr = coq_val[1]
            if tr[0] == "TDone" and len(tr[2]) >= 1:
                tam = case.get("tamper", {})
                out = tr[1][0] if isinstance(tr[1], tuple) else tr[1]
                return (case["kind"], tuple(case.get("combo", [])), case.get("klen"), case.get("what"), tam.get("field"),
                        tam.get("region"), str(out), len(tr[2]), len(case.get("pairs", [])))
        except Exception:  # noqa: BLE001
            pass
        return None

    def dist(self, case):
        d = {"kind": case["kind"], "style": case.get("style")}
        if "combo" in case:
            d["cipher"], d["mac"], d["kdf"] = case["combo"]
            d["cfg_key_len"] = case.get("klen")
            d["pairs"] = len(case.get("pairs", []))
            d["good_index"] = case.get("good")
            ln = len(case.get("cfg", "")) // 2
            d["cfg_len"] = "0" if ln == 0 else "<16" if ln < 16 else "x16" if ln % 16 == 0 else "<256" if ln < 256 else ">=256"
            g = case["pairs"][case["good"]] if case.get("pairs") else None
            if g and "rounds" in g:
                r = g["rounds"]
                d["rounds"] = "<1" if r < 1 else "1" if r == 1 else "<=50" if r <= 50 else "<=2000" if r <= 2000 else "big"
                d["salt_len"] = len(g.get("salt", "")) // 2
        if case.get("tamper"):
            d["tamper"] = f"{case['tamper']['field']}:{case['tamper']['region']}"
        if case.get("what"):
            d["malformed"] = case["what"]
        return d

    def describe(self, case):
        c = dict(case)
        c["oracle"] = f"<{len(case['oracle'])} recorded primitive answers>"
        if len(c.get("vmx_text", "")) > 1500:
            c["vmx_text"] = c["vmx_text"][:1500] + "..."
        return c


def _dict_diff(a, b):
    da, db = dict(a), dict(b)
    out = []
    for k in list(da) + [k for k in db if k not in da]:
        if da.get(k) != db.get(k):
            sa = show_s(da[k]) if k in da else None
            sb = show_s(db[k]) if k in db else None
            out.append(f"{show_s(k)!r}: {str(sa)[:40]!r} vs {str(sb)[:40]!r}")
        if len(out) >= 3:
            break
    if not out and list(da) != list(db):
        out.append("same entries, different order")
    return "; ".join(out)


def _call_diff(a, b):
    for i, (x, y) in enumerate(zip(a, b)):
        if x != y:
            return f" (first difference at call {i}: {x[0]} vs {y[0]})"
    return ""


SUITES = {"unlock": UnlockSuite()}
