"""C07 — layer precedence in differencing, backing and snapshot chains; required parents."""
from __future__ import annotations

import os
import shutil
import struct
import tempfile
import uuid

from harness import core, fmt_vhdx
from harness.core import Z, zpairs
from harness.main import Finding, Suite
from harness.props import c01, c02, c05, c06
from harness.readers import call, judge_read, outcome_of

PROPERTY = "C07"
PROPS_FILE = "Props/C07.v"
MODEL_FILES = ["Model/Hdd.v", "Proofs/Layers.v", "Model/Chain.v", "Model/Vdi.v", "Model/Hds.v", "Model/Vhdx.v", "Model/OpenParent.v", "Model/Vmdk.v",
               "Model/Qcow2.v"]
META = {
    "category": "proof",
    "text": "Coq theorems: sparse VMDK delta links are chain layers at sector granularity (chains of any depth); a QCOW2 chain over a base SHORTER than its overlays reads zeros beyond the base and keeps overlay data in place (clip_layer_ok, C07_qcow2_short_base_chain); a .hdd split over storages reads every byte from the chain of the storage that holds its sector and never from a neighbour (Model/Hdd.v); reading a chain of layers of ANY depth yields for every byte the topmost layer that holds it, else "
            "the nearest ancestor, else zero (generic overlay theorem by induction on the chain); the VDI, Parallels HDS and "
            "VHDX readers are such layers for every allocation map; the VHDX sector-bitmap run iterator expands to exactly the "
            "bitmap bits for every bitmap, start bit and length (the 12 pinned vectors hold of the model); a required VHDX "
            "parent / Parallels image that cannot be resolved makes opening fail and the first existing candidate wins. Tied "
            "to the code by differential correspondence on generated chains (VDI/HDS objects, VHDX and HDD chains on disk).",
    "design_ref": "DESIGN.md §6 C07",
    "note": "Trusted: Coq kernel; hand-written models validated on generated chains only; the file system is an oracle "
            "(exists); VMDK delta extents are covered by C02's check and QCOW2 backing files/snapshots by C01's (their layer "
            "lemmas live there); VDI without a parent argument is a recorded known finding.",
    "technique": "Coq proof (induction over chain depth; per-format layer lemmas; bitmap run iterator) + differential "
                 "correspondence on chains",
    "rule": "chains of depth 1..4 (VDI, HDS objects), 1..3 (VHDX files with parent locators, HDD directories with snapshot "
            "chains); per-layer allocation maps random/alternating/complementary; VHDX partially-present blocks with bitmaps "
            "{00,FF,alternating bytes,random,byte-straddling runs}; requests at every sector alignment 0..7 inside partial "
            "blocks, lengths 1..40 sectors, crossing block boundaries; directory layouts same-dir/absolute-fallback/missing. "
            "Non-trivial = the expected result draws bytes from >= 2 layers (or a layer and zeros); distinct by case hash.",
    "trusted_base": ["hand-written models Model/{Chain,Vdi,Hds,Vhdx,OpenParent}.v (correspondence-checked)"],
    "assumptions": ["the file system does not change while a chain is open"],
}
MB = 1 << 20


def mat_lsegs(lsegs, files):
    out = []
    for s in lsegs:
        if s[0] == "LSZero":
            out.append(b"\x00" * s[1])
        elif s[0] == "LSFile":
            out.append(files[s[1]].content(s[2], s[3]))
        else:
            raise ValueError(f"unexpected lseg {s}")
    return b"".join(out)


def layers_used(lsegs):
    return {("z" if s[0] == "LSZero" else s[1]) for s in lsegs}


class ChainSuite(Suite):
    """Common judge for chain suites. Subclasses: gen, build_files(case) -> list of SparseFile (top first),
    open_top(case, files), layer_terms(case) -> list of Gallina layer terms, granule."""
    fmt = "chain"
    shard = 10

    def impl(self, case):
        tmp = None
        try:
            files = self.build_files(case)
            if isinstance(files, tuple):
                files, tmp = files
            out = {"open": None, "reqs": []}
            try:
                top = self.open_top(case, files, tmp)
            except Exception as e:  # noqa: BLE001
                out["open"] = {"outcome": "exc", "exc": type(e).__name__, "msg": str(e)[:200]}
                return out
            out["size"] = int(top.size)
            for kind, a, b in case["reqs"]:
                if kind == "raw":
                    out["reqs"].append(call(top._read, a, b))
                elif kind == "sectors":
                    out["reqs"].append(call(top.read_sectors, a, b))
                else:
                    def f(a=a, b=b):
                        top.seek(a)
                        return top.read(b)
                    out["reqs"].append(call(f))
            return out
        finally:
            if tmp:
                shutil.rmtree(tmp, ignore_errors=True)

    def byte_range(self, case, kind, a, b):
        if kind == "sectors":
            ss = case["sector_size"]
            return a * ss, b * ss
        return a, b

    def coq_term(self, case):
        items = []
        g = self.granule(case)
        for kind, a, b in case["reqs"]:
            off, n = self.byte_range(case, kind, a, b)
            o0 = off - off % g
            n0 = (off + n + g - 1) // g * g - o0
            items.append(f"(chain_read_c ls {Z(o0)} {Z(n0)}, chain_spec_c ls {Z(o0)} {Z(n0)})")
        return "let ls := [" + "; ".join(self.layer_terms(case)) + "] in [" + "; ".join(items) + "]"

    def judge(self, case, impl_res, coq_val):
        fmt = self.fmt
        if impl_res.get("outcome"):
            return [Finding("impl_fault", f"implementation {impl_res['outcome']}: {impl_res.get('detail', '')}",
                            f"{fmt}:whole:" + impl_res["outcome"])]
        if impl_res["open"] is not None:
            return [Finding("impl_vs_spec", f"open failed on a well-formed chain: {impl_res['open']}", f"{fmt}:open:exc")]
        files = self.mat_files(case)
        g = self.granule(case)
        fs = []
        for (kind, a, b), r, cv in zip(case["reqs"], impl_res["reqs"], coq_val):
            _, model_v, spec_v = cv
            off, n = self.byte_range(case, kind, a, b)
            skip = off % g
            spec_bytes = mat_lsegs(spec_v, files)[skip:skip + n]
            mres = core.res_of(model_v)
            label = f"{kind}({a},{b})"
            sig = f"{fmt}:chain{len(self.layer_terms(case))}:{kind}"
            io = outcome_of(r)
            if io[0] == "ok":
                if io[1] != spec_bytes:
                    d = core.first_diff(io[1], spec_bytes)
                    fs.append(Finding("impl_vs_spec", f"{label}: bytes differ from the overlay of the layers at +{d} "
                                      f"(lengths {len(io[1])}/{len(spec_bytes)})", sig + ":bytes"))
            elif io[0] == "exc":
                fs.append(Finding("impl_vs_spec", f"{label}: implementation raised {io[1]} at {io[2]} ({io[3][:80]})",
                                  sig + f":exc:{io[1]}"))
            else:
                fs.append(Finding("impl_fault", f"{label}: implementation {io[0]}", sig + f":{io[0]}"))
            if mres[0] == "ok":
                mb = mat_lsegs(mres[1], files)[skip:skip + n]
                if mb != spec_bytes:
                    fs.append(Finding("model_vs_spec", f"{label}: chain model differs from the overlay spec", sig + ":mvs"))
                if io[0] == "ok" and io[1] != mb:
                    fs.append(Finding("impl_vs_model", f"{label}: implementation differs from the chain model", sig + ":model"))
            else:
                fs.append(Finding("model_vs_spec", f"{label}: chain model returned {mres[0]}", sig + ":mvs-" + mres[0]))
                if io[0] == "ok":
                    fs.append(Finding("impl_vs_model", f"{label}: model {mres[0]}, implementation ok", sig + ":model-err"))
        return fs

    def mat_files(self, case):
        return self.build_files(case)

    def nontrivial(self, case, impl_res, coq_val):
        for cv in coq_val or []:
            if len(layers_used(cv[2])) >= 2:
                return core.sha(core.jdump(case).encode())
        return None


# ----------------------------------------------------------------------------- VDI chains
def complementary(rng, n, depth):
    """per-layer presence maps where each block tends to be held by exactly one layer"""
    owner = [rng.randrange(0, depth + 1) for _ in range(n)]     # depth = nobody
    return owner


class VdiChain(ChainSuite):
    name = "vdi_chain"
    fmt = "vdi"
    preamble = ("From Coq Require Import ZArith List.\nImport ListNotations.\nOpen Scope Z_scope.\n"
                "From DH Require Import Base.Plan Base.Table Model.Chain Model.Vdi Proofs.Layers.\n")

    def generate(self, rng, tier):
        n = 400 if tier == "thorough" else 40
        out = []
        for _ in range(n):
            depth = rng.randint(1, 4)
            size = rng.randint(1, 40) * 512 + rng.pick([0, 0, 100])
            layers = []
            for d in range(depth):
                bs = rng.pick([512, 1024, 4096])
                nb = (size + bs - 1) // bs
                m = []
                slots = list(range(nb))
                rng.shuffle(slots)
                mode = rng.pick(["rand", "alt", "sparse"])
                for b in range(nb):
                    hold = {"rand": rng.chance(0.5), "alt": (b + d) % 2 == 0, "sparse": rng.chance(0.2)}[mode]
                    m.append(slots[b] if hold else rng.weighted([(-1, 4), (-2, 1)]))
                blocks_offset = 512
                data_offset = 512 + 4 * nb + (-(512 + 4 * nb)) % 512
                layers.append({"size": size, "block_size": bs, "map": m, "blocks_offset": blocks_offset,
                               "data_offset": data_offset, "file_size": data_offset + nb * bs,
                               "salt": rng.randrange(1 << 30)})
            reqs = []
            for _ in range(5):
                a = rng.randrange(0, size)
                ln = rng.randint(1, min(size - a, 6000))
                reqs.append([rng.pick(["raw", "bytes"]), a, ln])
            out.append({"layers": layers, "size": size, "reqs": reqs})
        return out

    def build_files(self, case):
        return [c05.SUITES["vdi"].build_files(l)["file"] for l in case["layers"]]

    def open_top(self, case, files, tmp):
        from dissect.hypervisor.disk.vdi import VDI
        obj = None
        for fh in reversed(files):
            obj = VDI(fh, parent=obj)
        return obj

    def layer_terms(self, case):
        terms = []
        n = len(case["layers"])
        for i, l in enumerate(case["layers"]):
            ent = [(k, e) for k, e in enumerate(l["map"]) if e != -1]
            terms.append(f"vdi_layer {{| v_size := {Z(l['size'])}; v_bs := {Z(l['block_size'])}; v_data := {Z(l['data_offset'])}; "
                         f"v_map := tbl {zpairs(ent)} (-1) {Z(len(l['map']))}; v_parent := {core.cbool(i < n - 1)} |}}")
        return terms

    def granule(self, case):
        return 1

    def dist(self, case):
        return {"depth": len(case["layers"])}


# ----------------------------------------------------------------------------- HDS chains
class HdsChain(ChainSuite):
    name = "hds_chain"
    fmt = "hds"
    preamble = ("From Coq Require Import ZArith List.\nImport ListNotations.\nOpen Scope Z_scope.\n"
                "From DH Require Import Base.Plan Base.Table Model.Chain Model.Hds Proofs.Layers.\n")

    def generate(self, rng, tier):
        n = 400 if tier == "thorough" else 40
        out = []
        for _ in range(n):
            depth = rng.randint(1, 4)
            nsect = rng.randint(1, 60)
            size = nsect * 512
            layers = []
            for d in range(depth):
                ms = rng.pick([1, 2, 8])
                ver = rng.pick([1, 2])
                cs = ms * 512
                nc = (size + cs - 1) // cs
                hdr = (64 + 4 * nc + cs - 1) // cs
                slots = list(range(nc))
                rng.shuffle(slots)
                mode = rng.pick(["rand", "alt", "sparse"])
                bat = []
                for b in range(nc):
                    hold = {"rand": rng.chance(0.5), "alt": (b + d) % 2 == 0, "sparse": rng.chance(0.2)}[mode]
                    pos = hdr + slots[b]
                    bat.append((pos * ms if ver == 1 else pos) if hold else 0)
                layers.append({"kind": f"v{ver}", "version": ver, "m_sectors": ms, "size": size, "bat": bat,
                               "first_block": hdr * ms, "file_size": (hdr + nc) * cs, "salt": rng.randrange(1 << 30)})
            reqs = []
            for _ in range(5):
                a = rng.randrange(0, size)
                ln = rng.randint(1, min(size - a, 6000))
                reqs.append([rng.pick(["raw", "bytes"]), a, ln])
            out.append({"layers": layers, "size": size, "reqs": reqs})
        return out

    def build_files(self, case):
        return [c06.SUITES["hds"].build_files(l)["file"] for l in case["layers"]]

    def open_top(self, case, files, tmp):
        from dissect.hypervisor.disk.hdd import HDS
        obj = None
        for fh in reversed(files):
            obj = HDS(fh, parent=obj)
        return obj

    def layer_terms(self, case):
        terms = []
        n = len(case["layers"])
        for i, l in enumerate(case["layers"]):
            ent = [(k, e) for k, e in enumerate(l["bat"]) if e != 0]
            cs = l["m_sectors"] * 512
            mult = 1 if l["version"] == 1 else l["m_sectors"]
            terms.append(f"hds_layer {{| h_size := {Z(l['size'])}; h_cs := {Z(cs)}; h_mult := {Z(mult)}; "
                         f"h_bat := tbl {zpairs(ent)} 0 {Z(len(l['bat']))}; h_parent := {core.cbool(i < n - 1)} |}}")
        return terms

    def granule(self, case):
        return 1

    def dist(self, case):
        return {"depth": len(case["layers"])}


# ----------------------------------------------------------------------------- Parallels .hdd directories (snapshot chains)
class HddChain(HdsChain):
    """The same HDS layers, but assembled by HDD(path).open() from a DiskDescriptor.xml: snapshot chain through ParentGUID
    links, TopGUID (default or explicit), images looked up per snapshot GUID; optional plain base image."""
    name = "hdd_chain"
    fmt = "hdd"

    def generate(self, rng, tier):
        cases = super().generate(rng, tier)[: (200 if tier == "thorough" else 16)]
        for c in cases:
            n = len(c["layers"])
            guids = [rng.getrandbits(128) | 1 for _ in range(n)]
            c["explicit_top"] = rng.chance(0.6)
            if not c["explicit_top"]:
                guids[0] = 0x5fbaabe3695840ff92a7860e329aab41
            c["guids"] = guids
            c["plain_base"] = rng.chance(0.3)
            c["shot_order"] = rng.sample(range(n), n)
            c["extra_shots"] = rng.randint(0, 2)
            c["reqs"] = [r for r in c["reqs"] if r[0] == "bytes"] or [["bytes", 0, min(c["size"], 4096)]]
        return cases

    def _plain(self, case):
        return core.SparseFile(case["size"], {}, salt=case["layers"][-1]["salt"] ^ 0x77)

    def build_files(self, case):
        files = [c06.SUITES["hds"].build_files(l)["file"] for l in case["layers"]]
        if case.get("plain_base"):
            files[-1] = self._plain(case)
        return files

    def impl(self, case):
        from pathlib import Path
        from dissect.hypervisor.disk.hdd import HDD
        tmp = tempfile.mkdtemp(prefix="verif_c07h_")
        try:
            d = os.path.join(tmp, "disk.hdd")
            os.makedirs(d)
            files = self.build_files(case)
            n = len(files)
            g = lambda v: "{" + str(uuid.UUID(int=v)) + "}"  # noqa: E731
            images = ""
            for i, fh in enumerate(files):
                fn = f"disk.hdd.0.{g(case['guids'][i])}.hds"
                with open(os.path.join(d, fn), "wb") as w:
                    w.write(fh.content(0, fh.size))
                typ = "Plain" if (case.get("plain_base") and i == n - 1) else "Compressed"
                images += f"<Image><GUID>{g(case['guids'][i])}</GUID><Type>{typ}</Type><File>{fn}</File></Image>"
            shots = []
            for i in range(n):
                parent = g(case["guids"][i + 1]) if i + 1 < n else "{00000000-0000-0000-0000-000000000000}"
                shots.append(f"<Shot><GUID>{g(case['guids'][i])}</GUID><ParentGUID>{parent}</ParentGUID></Shot>")
            for k in range(case["extra_shots"]):
                shots.append(f"<Shot><GUID>{g(0xABC000 + k)}</GUID><ParentGUID>{g(case['guids'][-1])}</ParentGUID></Shot>")
            shots = [shots[i] for i in case["shot_order"]] + shots[n:]
            top = f"<TopGUID>{g(case['guids'][0])}</TopGUID>" if case["explicit_top"] else ""
            xml = ("<?xml version='1.0' encoding='UTF-8'?>\n<Parallels_disk_image Version=\"1.0\">"
                   f"<Disk_Parameters><Disk_size>{case['size'] // 512}</Disk_size></Disk_Parameters>"
                   f"<StorageData><Storage><Start>0</Start><End>{case['size'] // 512}</End><Blocksize>8</Blocksize>{images}"
                   f"</Storage></StorageData><Snapshots>{top}{''.join(shots)}</Snapshots></Parallels_disk_image>")
            with open(os.path.join(d, "DiskDescriptor.xml"), "w") as w:
                w.write(xml)
            out = {"open": None, "reqs": []}
            try:
                st = HDD(Path(d)).open()
            except Exception as e:  # noqa: BLE001
                out["open"] = {"outcome": "exc", "exc": type(e).__name__, "msg": str(e)[:200]}
                return out
            out["size"] = int(st.size)
            for kind, a, b in case["reqs"]:
                def f(a=a, b=b):
                    st.seek(a)
                    return st.read(b)
                out["reqs"].append(call(f))
            return out
        finally:
            shutil.rmtree(tmp, ignore_errors=True)

    def layer_terms(self, case):
        terms = super().layer_terms(case)
        if case.get("plain_base"):
            terms[-1] = "{| l_read := fun off n => Ok [SFile off n]; l_src := File |}"
        return terms

    def dist(self, case):
        return {"depth": len(case["layers"]), "explicit_top": case["explicit_top"], "plain_base": case["plain_base"]}


gen_hds_layers = c06.gen_hds_layers
HddSplit = c06.HddSplit


# ----------------------------------------------------------------------------- VHDX chains on disk
BITMAP_PATTERNS = ["zero", "ones", "alt_bytes", "random", "straddle", "alt_bits"]


def gen_bitmap(rng, nbytes, pattern):
    if pattern == "zero":
        return bytes(nbytes)
    if pattern == "ones":
        return b"\xff" * nbytes
    if pattern == "alt_bytes":
        return bytes((0xFF if (i // rng.pick([1, 1, 2])) % 2 == 0 else 0) for i in range(nbytes))
    if pattern == "alt_bits":
        return bytes([rng.pick([0x55, 0xAA, 0x33, 0xCC, 0x0F, 0xF0])] * nbytes)
    if pattern == "straddle":
        bits = []
        v = rng.pick([0, 1])
        while len(bits) < nbytes * 8:
            bits += [v] * rng.randint(1, 21)
            v ^= 1
        bits = bits[:nbytes * 8]
        return bytes(sum(bits[i * 8 + j] << j for j in range(8)) for i in range(nbytes))
    return bytes(rng.randrange(256) for _ in range(nbytes))


class VhdxChain(ChainSuite):
    name = "vhdx_chain"
    fmt = "vhdx"
    shard = 3
    preamble = ("From Coq Require Import ZArith List.\nImport ListNotations.\nOpen Scope Z_scope.\n"
                "From DH Require Import Base.Plan Base.Table Model.Chain Model.Vhdx Proofs.VhdxLayer.\n")

    def generate(self, rng, tier):
        n = 240 if tier == "thorough" else 18
        out = []
        for it in range(n):
            depth = rng.randint(1, 3)
            ss = rng.weighted([(512, 3), (4096, 1)])
            bs = MB
            nblocks = rng.randint(1, 3)
            # one chain in six is larger than one chunk (2^23 sectors: 4096 blocks of 1 MiB at 512-byte sectors): partially
            # present blocks beyond the first chunk have their bitmaps in the sector-bitmap block of THEIR chunk
            big = it % 6 == 2
            if big:
                ss, depth = 512, max(2, depth)
                nblocks = 4096 + rng.randint(1, 3)
            size = nblocks * bs - rng.pick([0, 0, ss * rng.randrange(0, 64)])
            spb = bs // ss
            cr = fmt_vhdx.chunk_ratio(bs, ss)
            layers = []
            interesting = []     # (block, sector in block) worth reading around
            for d in range(depth):
                top = d < depth - 1
                bat_off = 3 * MB
                next_mb = 5
                blocks = []
                bitmaps = {}
                sb = {}
                special = set(range(nblocks)) if not big else {0, 1, 4095, 4096, nblocks - 1}
                for b in range(nblocks):
                    if b not in special:
                        blocks.append([0, 0])
                        continue
                    st = rng.weighted([(0, 3), (6, 3), (7, 4 if top else 0), (rng.pick([1, 2, 3]), 1)])
                    if big and top and b in (0, 4096):
                        st = 7
                    mb = 0
                    if st in (6, 7):
                        mb = next_mb
                        next_mb += 1
                    blocks.append([st, mb])
                for ch in sorted({b // cr for b, (st, _) in enumerate(blocks) if st == 7}):
                    sbmb = next_mb
                    next_mb += 1
                    sb[ch] = [6, sbmb]
                    for b, (st, _) in enumerate(blocks):
                        if st == 7 and b // cr == ch:
                            nbytes = spb // 8
                            bm = gen_bitmap(rng, nbytes, rng.pick(BITMAP_PATTERNS if not big else ["random", "alt_bits", "straddle"]))
                            bitmaps[str(sbmb * MB + (b % cr) * nbytes)] = bm.hex()
                            for _ in range(3):
                                interesting.append((b, rng.randrange(0, spb)))
                layers.append({"size": size, "block_size": bs, "sector_size": ss, "blocks": blocks, "sb": sb,
                               "bat_offset": bat_off, "file_size": next_mb * MB, "has_parent": top,
                               "bitmaps": bitmaps, "salt": rng.randrange(1 << 30), "disk_id": d + 1,
                               "locator": {"relative_path": f".\\L{d + 1}.vhdx",
                                           "absolute_win32_path": f"C:\\nowhere\\L{d + 1}.vhdx"}})
            nsect = size // ss
            reqs = []
            for _ in range(6):
                if interesting and rng.chance(0.7):
                    b, s = rng.pick(interesting)
                    sec = min(nsect - 1, b * spb + s)
                else:
                    sec = rng.randrange(0, nsect)
                    if rng.chance(0.4) and nblocks > 1:
                        sec = max(0, rng.randrange(1, nblocks) * spb - rng.randint(1, 20))
                cnt = max(1, min(nsect - sec, rng.randint(1, 40 if ss == 512 else 8) if rng.chance(0.3) else rng.randint(1, 12 if ss == 512 else 2)))
                k = rng.pick(["sectors", "sectors", "bytes"])
                if k == "sectors":
                    reqs.append(["sectors", sec, cnt])
                else:
                    a = sec * ss + rng.randrange(0, ss)
                    reqs.append(["bytes", a, min(size - a, cnt * ss - rng.randrange(0, ss))])
            out.append({"layers": layers, "size": size, "sector_size": ss, "reqs": reqs})
        return out

    def build_files(self, case):
        return [fmt_vhdx.build(l) for l in case["layers"]]

    def mat_files(self, case):
        return self.build_files(case)

    def impl(self, case):
        # real files: the parent is opened by path through the parent locator
        tmp = tempfile.mkdtemp(prefix="verif_c07_")
        try:
            files = self.build_files(case)
            for d, (l, sf) in enumerate(zip(case["layers"], files)):
                path = os.path.join(tmp, f"L{d}.vhdx")
                with open(path, "wb") as fh:
                    fh.truncate(l["file_size"])
                    for off, b in sf._chunks:
                        fh.seek(off)
                        fh.write(b)
                    for st, mb in l["blocks"]:
                        if st in (6, 7):
                            fh.seek(mb * MB)
                            fh.write(sf.content(mb * MB, l["block_size"]))
            out = {"open": None, "reqs": []}
            from pathlib import Path
            from dissect.hypervisor.disk.vhdx import VHDX
            try:
                top = VHDX(Path(tmp) / "L0.vhdx")
            except Exception as e:  # noqa: BLE001
                out["open"] = {"outcome": "exc", "exc": type(e).__name__, "msg": str(e)[:200]}
                return out
            out["size"] = int(top.size)
            for kind, a, b in case["reqs"]:
                if kind == "sectors":
                    out["reqs"].append(call(top.read_sectors, a, b))
                else:
                    def f(a=a, b=b):
                        top.seek(a)
                        return top.read(b)
                    out["reqs"].append(call(f))
            return out
        finally:
            shutil.rmtree(tmp, ignore_errors=True)

    def layer_terms(self, case):
        terms = []
        for l in case["layers"]:
            fb = {}
            for off, hx in l["bitmaps"].items():
                for i, b in enumerate(bytes.fromhex(hx)):
                    if b:
                        fb[int(off) + i] = b
            terms.append("vhdx_layer " + fmt_vhdx.coq_img(l, fb))
        return terms

    def granule(self, case):
        return case["sector_size"]

    def dist(self, case):
        return {"depth": len(case["layers"]), "ss": case["sector_size"],
                "partial_blocks": sum(1 for l in case["layers"] for st, _ in l["blocks"] if st == 7)}


# ----------------------------------------------------------------------------- required parents (directory layouts)
class OpenLayouts(Suite):
    name = "open_layouts"
    shard = 50
    preamble = ("From Coq Require Import ZArith List Bool.\nImport ListNotations.\nOpen Scope Z_scope.\n"
                "From DH Require Import Base.Plan Model.OpenParent.\n")

    def generate(self, rng, tier):
        out = []
        n = 60 if tier == "thorough" else 16
        for _ in range(n):
            out.append({"fmt": "vhdx", "has_parent": rng.chance(0.8), "loc_ok": rng.chance(0.85),
                        "rel_exists": rng.chance(0.5), "abs_exists": rng.chance(0.5), "salt": rng.randrange(1 << 20)})
        # the child handed over as a nameless stream (io.BytesIO): there is no directory to resolve the parent in, so a
        # differencing image cannot be opened that way, whatever lies on disk
        for k in range(4):
            out.append({"fmt": "vhdx", "has_parent": k != 3, "loc_ok": k != 2, "rel_exists": True, "abs_exists": k % 2 == 0,
                        "salt": rng.randrange(1 << 20), "nameless": True})
        # VMDK: the parent named by parentFileNameHint next to the child, and / or in the directory the hint names next to the
        # child's directory (a bare hint: one directory up) — the one next to the child wins
        for hint in ("base.vmdk", "sub/base.vmdk", "C:\\vms\\sub\\base.vmdk"):
            for rel_exists in (True, False):
                for abs_exists in (True, False):
                    out.append({"fmt": "vmdk", "has_parent": True, "loc_ok": True, "rel_exists": rel_exists, "abs_exists": abs_exists,
                                "hint": hint, "salt": rng.randrange(1 << 20)})
        out.append({"fmt": "vmdk", "has_parent": False, "loc_ok": True, "rel_exists": True, "abs_exists": True, "hint": "base.vmdk",
                    "salt": rng.randrange(1 << 20)})
        return out

    def impl_vmdk(self, case):
        from pathlib import Path
        from dissect.hypervisor.disk.vmdk import VMDK
        tmp = tempfile.mkdtemp(prefix="verif_c07v_")
        try:
            vm = os.path.join(tmp, "vms", "vm")
            os.makedirs(vm)
            sub = "sub" if "sub" in case["hint"] else ""
            up = os.path.join(tmp, "vms", sub)
            os.makedirs(up, exist_ok=True)

            def base(d, fill):
                with open(os.path.join(d, "base-flat.bin"), "wb") as fh:
                    fh.write(bytes([fill]) * (16 * 512))
                with open(os.path.join(d, "base.vmdk"), "w") as fh:
                    fh.write('# Disk DescriptorFile\nversion=1\nCID=00000002\nparentCID=ffffffff\ncreateType="monolithicFlat"\n'
                             'RW 16 FLAT "base-flat.bin" 0\n')
            if case["rel_exists"]:
                base(vm, 0x52)            # 'R': next to the child
            if case["abs_exists"]:
                base(up, 0x41)            # 'A': where the hint's directory points
            # the child: one hosted sparse extent of 16 sectors in which nothing is allocated
            with open(os.path.join(vm, "child-s001.vmdk"), "wb") as fh:
                fh.write(c02.kdmv_header(1, 16, 8, 0, 0, 512, 1, overhead=2) + bytes(512))
            with open(os.path.join(vm, "child.vmdk"), "w") as fh:
                fh.write("# Disk DescriptorFile\nversion=1\nCID=00000003\nparentCID=%s\n" % ("00000002" if case["has_parent"] else "ffffffff")
                         + ('parentFileNameHint="%s"\n' % case["hint"] if case["has_parent"] else "")
                         + 'createType="twoGbMaxExtentSparse"\nRW 16 SPARSE "child-s001.vmdk"\n')
            try:
                v = VMDK(Path(vm) / "child.vmdk")
            except Exception as e:  # noqa: BLE001
                return {"result": "err", "exc": type(e).__name__}
            data = v.read(4096)
            which = {0x52: "rel", 0x41: "abs", 0: "zeros"}.get(data[0] if data and data == bytes([data[0]]) * 4096 else -1, "other")
            return {"result": "ok", "which": which, "has_parent_obj": v.parent is not None}
        finally:
            shutil.rmtree(tmp, ignore_errors=True)

    def impl(self, case):
        from pathlib import Path
        from dissect.hypervisor.disk.vhdx import VHDX
        if case["fmt"] == "vmdk":
            return self.impl_vmdk(case)
        tmp = tempfile.mkdtemp(prefix="verif_c07o_")
        try:
            base = {"size": MB, "block_size": MB, "sector_size": 512, "blocks": [[6, 5]], "bat_offset": 3 * MB,
                    "file_size": 6 * MB, "has_parent": False, "salt": case["salt"], "disk_id": 2}
            absdir = os.path.join(tmp, "elsewhere")
            os.makedirs(absdir)
            os.makedirs(os.path.join(tmp, "vm"))
            child = dict(base, has_parent=case["has_parent"], blocks=[[0, 0]], disk_id=1,
                         locator={"relative_path": ".\\parent.vhdx",
                                  "absolute_win32_path": absdir.lstrip("/").replace("/", "\\") + "\\parent_abs.vhdx"})
            if not case["loc_ok"]:
                child["locator_type"] = str(uuid.UUID(int=7))

            def write(path, c):
                sf = fmt_vhdx.build(c)
                if c.get("locator_type"):
                    # rebuild with a foreign locator type
                    items_sf = fmt_vhdx.build(dict(c))
                    sf = items_sf
                with open(path, "wb") as fh:
                    fh.truncate(c["file_size"])
                    for off, b in sf._chunks:
                        if c.get("locator_type"):
                            b = b.replace(fmt_vhdx.G["vhdx_locator"].bytes_le, uuid.UUID(c["locator_type"]).bytes_le)
                        fh.seek(off)
                        fh.write(b)
                    for st, mb in c["blocks"]:
                        if st == 6:
                            fh.seek(mb * MB)
                            fh.write(sf.content(mb * MB, c["block_size"]))
                return sf
            write(os.path.join(tmp, "vm", "child.vhdx"), child)
            rel_sf = abs_sf = None
            if case["rel_exists"]:
                rel_sf = write(os.path.join(tmp, "vm", "parent.vhdx"), dict(base, salt=case["salt"] + 1))
            if case["abs_exists"]:
                abs_sf = write(os.path.join(absdir, "parent_abs.vhdx"), dict(base, salt=case["salt"] + 2))
            try:
                if case.get("nameless"):
                    import io
                    v = VHDX(io.BytesIO((Path(tmp) / "vm" / "child.vhdx").read_bytes()))
                else:
                    v = VHDX(Path(tmp) / "vm" / "child.vhdx")
            except Exception as e:  # noqa: BLE001
                return {"result": "err", "exc": type(e).__name__}
            data = v.read(4096)
            which = "none"
            if rel_sf is not None and data == rel_sf.content(5 * MB, 4096):
                which = "rel"
            elif abs_sf is not None and data == abs_sf.content(5 * MB, 4096):
                which = "abs"
            elif data == b"\x00" * 4096:
                which = "zeros"
            else:
                which = "other"
            return {"result": "ok", "which": which, "has_parent_obj": v.parent is not None}
        finally:
            shutil.rmtree(tmp, ignore_errors=True)

    def coq_term(self, case):
        if case.get("nameless"):
            case = dict(case, rel_exists=False, abs_exists=False)       # nothing can be looked up without a path
        fs = f"(fun p : Z => if p =? 1 then {core.cbool(case['rel_exists'])} else {core.cbool(case['abs_exists'])})"
        if case["fmt"] == "vmdk":
            return f"vmdk_open_parent {fs} {core.cbool(case['has_parent'])} 1 2"
        return f"vhdx_open_parent {fs} {core.cbool(case['has_parent'])} {core.cbool(case['loc_ok'])} 1 2"

    def judge(self, case, impl_res, coq_val):
        if impl_res.get("outcome"):
            return [Finding("impl_fault", f"implementation {impl_res}", "vhdx:open:" + impl_res["outcome"])]
        m = core.res_of(coq_val)
        fs = []
        if case.get("nameless"):
            case = dict(case, rel_exists=False, abs_exists=False)
        # specification: a differencing disk needs its parent
        need = case["has_parent"]
        resolvable = case["loc_ok"] and (case["rel_exists"] or case["abs_exists"])
        if need and not resolvable and impl_res["result"] == "ok":
            fs.append(Finding("impl_vs_spec", f"child served without its required parent: {impl_res}", "vhdx:open:served-alone"))
        if need and resolvable:
            want = "rel" if case["rel_exists"] else "abs"
            if impl_res["result"] != "ok" or impl_res.get("which") != want:
                fs.append(Finding("impl_vs_spec", f"expected parent '{want}', got {impl_res}", "vhdx:open:wrong-parent"))
        if not need and impl_res["result"] != "ok":
            fs.append(Finding("impl_vs_spec", f"plain disk failed to open: {impl_res}", "vhdx:open:plain-failed"))
        # model agreement
        if m[0] == "err" and impl_res["result"] == "ok":
            fs.append(Finding("impl_vs_model", f"model predicts failure, implementation opened: {impl_res}", "vhdx:open:m1"))
        if m[0] == "ok":
            if impl_res["result"] != "ok":
                fs.append(Finding("impl_vs_model", f"model predicts success {m[1]}, implementation failed", "vhdx:open:m2"))
            else:
                want = {"None": ("zeros",), ("Some", 1): ("rel",), ("Some", 2): ("abs",)}[m[1] if m[1] == "None" else tuple(m[1])]
                if impl_res.get("which") not in want:
                    fs.append(Finding("impl_vs_model", f"model chose {m[1]}, implementation {impl_res}", "vhdx:open:m3"))
        return fs

    def nontrivial(self, case, impl_res, coq_val):
        return core.sha(core.jdump(case).encode())

    def dist(self, case):
        return {"has_parent": case["has_parent"], "loc_ok": case["loc_ok"],
                "layout": f"rel={int(case['rel_exists'])},abs={int(case['abs_exists'])}"}


# ----------------------------------------------------------------------------- VMDK delta extents over parents (on disk)
class VmdkDelta(Suite):
    """A flat base, then 1..2 delta descriptors each split over 1..3 hosted sparse extents with parentCID/parentFileNameHint.
    Three-way: implementation vs the C02 extent model (SParent segments resolved with the lower layers) vs the generator's
    intent (topmost layer that holds the sector)."""
    name = "vmdk_delta"
    shard = 4
    per_case_timeout = 60.0
    preamble = c02.VmdkSuite.preamble

    def generate(self, rng, tier):
        n = 160 if tier == "thorough" else 14
        out = []
        while len(out) < n:
            depth = rng.randint(1, 2)
            layers = []
            total = None
            ok = True
            for d in range(depth):
                nx = rng.randint(1, 3)
                exts = []
                for _ in range(nx):
                    for _t in range(200):
                        sc = c02.gen_sparse(rng, "quick", "hosted")
                        if not sc["huge"] and sc["fsize"] < 2_000_000 and not (sc["flags"] & c02.F_COMPRESSED) \
                                and sc["capacity"] <= 4000:
                            break
                    else:
                        ok = False
                    sc["reqs"] = []
                    exts.append(sc)
                cap = sum(e["capacity"] for e in exts)
                if total is None:
                    total = cap
                elif cap != total:
                    # make the last extent absorb the difference by regenerating is expensive: pad/trim with a flat tail
                    ok = cap <= total
                    if ok and cap < total:
                        exts.append({"kind": "flatpad", "capacity": total - cap, "salt": rng.randrange(1 << 30)})
                layers.append(exts)
            if not ok or total is None or total > 12000:
                continue
            base_salt = rng.randrange(1 << 30)
            reqs = []
            bounds = []
            for exts in layers:
                acc = 0
                for e in exts:
                    acc += e["capacity"]
                    bounds.append(acc)
            for _ in range(6):
                b = rng.pick(bounds)
                s0 = max(0, min(total - 1, b - rng.randint(0, 30))) if rng.chance(0.7) else rng.randrange(0, total)
                cnt = max(1, min(total - s0, rng.randint(1, 80)))
                reqs.append(["sectors", s0, cnt] if rng.chance(0.6) else ["bytes", s0 * 512 + rng.randrange(512),
                                                                            cnt * 512 - rng.randrange(512)])
            out.append({"layers": layers, "total": total, "base_salt": base_salt, "reqs": reqs})
        return out

    # -- files
    @staticmethod
    def _ext_file(e):
        if e["kind"] == "flatpad":
            return core.SparseFile(e["capacity"] * 512, {}, salt=e["salt"]), {}
        return c02.build_image(e)

    def _write(self, case, d):
        total = case["total"]
        base = core.SparseFile(total * 512, {}, salt=case["base_salt"])
        with open(os.path.join(d, "base-flat.vmdk"), "wb") as w:
            w.write(base.content(0, base.size))
        with open(os.path.join(d, "L9.vmdk"), "w") as w:
            w.write("# Disk DescriptorFile\nversion=1\nCID=11111111\nparentCID=ffffffff\ncreateType=\"vmfs\"\n\n"
                    f"RW {total} FLAT \"base-flat.vmdk\" 0\n")
        n = len(case["layers"])
        for li, exts in enumerate(case["layers"]):
            lines = ["# Disk DescriptorFile", "version=1", f"CID=2222{li:04x}", "parentCID=11111111",
                     'createType="twoGbMaxExtentSparse"',
                     f'parentFileNameHint="{("L%d.vmdk" % (li + 1)) if li + 1 < n else "L9.vmdk"}"', ""]
            for xi, e in enumerate(exts):
                fn = f"L{li}-s{xi:03d}.vmdk"
                fh, _ = self._ext_file(e)
                with open(os.path.join(d, fn), "wb") as w:
                    w.write(fh.content(0, fh.size))
                lines.append(f'RW {e["capacity"]} {"FLAT" if e["kind"] == "flatpad" else "SPARSE"} "{fn}"' +
                             (" 0" if e["kind"] == "flatpad" else ""))
            with open(os.path.join(d, f"L{li}.vmdk"), "w") as w:
                w.write("\n".join(lines) + "\n")

    def impl(self, case):
        from pathlib import Path
        from dissect.hypervisor.disk.vmdk import VMDK
        d = tempfile.mkdtemp(prefix="verif_c07v_")
        try:
            self._write(case, d)
            out = {"open": None, "reqs": []}
            try:
                v = VMDK(Path(d) / "L0.vmdk")
            except Exception as e:  # noqa: BLE001
                out["open"] = {"outcome": "exc", "exc": type(e).__name__, "msg": str(e)[:300]}
                return out
            out["size"] = int(v.size)
            for kind, a, b in case["reqs"]:
                if kind == "sectors":
                    out["reqs"].append(call(v.read_sectors, a, b))
                else:
                    def f(a=a, b=b):
                        v.seek(a)
                        return v.read(b)
                    out["reqs"].append(call(f))
            return out
        finally:
            shutil.rmtree(d, ignore_errors=True)

    # -- intent
    def _layer_sector(self, case, li, s):
        """('data', bytes) | ('zero',) | ('absent',) for absolute sector s in layer li"""
        acc = 0
        for e in case["layers"][li]:
            if s < acc + e["capacity"]:
                rel = s - acc
                if e["kind"] == "flatpad":
                    return ("data", core.SparseFile(e["capacity"] * 512, {}, salt=e["salt"]).content(rel * 512, 512))
                gs = e["grain_size"]
                st = {g: (x, p) for g, x, p in e["states"]}
                g, o = divmod(rel, gs)
                state, phys = st.get(g, ("absent", 0))
                if state == "data":
                    fh, _ = c02.build_image(e)
                    return ("data", fh.content((phys + o) * 512, 512))
                return (state,)
            acc += e["capacity"]
        return ("absent",)

    def intent(self, case, s0, cnt, from_layer=0):
        out = []
        base = core.SparseFile(case["total"] * 512, {}, salt=case["base_salt"])
        for s in range(s0, s0 + cnt):
            for li in range(from_layer, len(case["layers"])):
                r = self._layer_sector(case, li, s)
                if r[0] == "data":
                    out.append(r[1])
                    break
                if r[0] == "zero":
                    out.append(b"\x00" * 512)
                    break
            else:
                out.append(base.content(s * 512, 512))
        return b"".join(out)

    def coq_term(self, case):
        exts = case["layers"][0]
        binds, xs = [], []
        for i, e in enumerate(exts):
            if e["kind"] == "flatpad":
                xs.append(f"XRaw {Z(e['capacity'] * 512)} 0")
                continue
            fh, _ = c02.build_image(e)
            binds.append(f"do sp{i} <- open_sparse ({c02.file_term(e, fh)});")
            xs.append(f"XSparse ({c02.file_term(e, fh)}) sp{i} true")
        items = []
        for kind, a, b in case["reqs"]:
            if kind == "sectors":
                items.append(f"vmdk_read_sectors v {Z(a)} {Z(b)}")
            else:
                b = min(b, case["total"] * 512 - a)
                s0 = a // 512
                cnt = (a + b + 511) // 512 - s0
                items.append(f"vmdk_read_sectors v {Z(s0)} {Z(cnt)}")
        return (" ".join(binds) + f" let v := mk_vmdk [{'; '.join(xs)}] in Ok [" + "; ".join(items) + "]")

    def judge(self, case, impl_res, coq_val):
        if impl_res.get("outcome"):
            return [Finding("impl_fault", f"implementation {impl_res['outcome']}", "vmdk:delta:" + impl_res["outcome"])]
        if impl_res["open"] is not None:
            return [Finding("impl_vs_spec", f"open failed on a well-formed delta chain: {impl_res['open']}", "vmdk:delta:open")]
        fs = []
        if impl_res["size"] != case["total"] * 512:
            fs.append(Finding("impl_vs_spec", f"size {impl_res['size']} != {case['total'] * 512}", "vmdk:delta:size"))
        m = core.res_of(coq_val)
        files0 = [self._ext_file(e)[0] for e in case["layers"][0]]
        for i, ((kind, a, b), r) in enumerate(zip(case["reqs"], impl_res["reqs"])):
            if kind == "sectors":
                s0, cnt, skip, want = a, b, 0, b * 512
            else:
                b = min(b, case["total"] * 512 - a)
                s0 = a // 512
                cnt = (a + b + 511) // 512 - s0
                skip, want = a - s0 * 512, b
            spec = self.intent(case, s0, cnt)[skip:skip + want]
            io = outcome_of(r)
            label = f"{kind}({a},{b})"
            sig = f"vmdk:delta{len(case['layers'])}:{kind}"
            if io[0] == "ok":
                if io[1] != spec:
                    dd = core.first_diff(io[1], spec)
                    fs.append(Finding("impl_vs_spec", f"{label}: bytes differ from the overlay of the layers at +{dd} "
                                      f"(sector {s0 + (dd + skip) // 512})", sig + ":bytes"))
            elif io[0] == "exc":
                fs.append(Finding("impl_vs_spec", f"{label}: implementation raised {io[1]} at {io[2]}", sig + f":exc:{io[1]}"))
            else:
                fs.append(Finding("impl_fault", f"{label}: {io[0]}", sig + ":" + io[0]))
            if m[0] == "ok":
                pm = core.res_of(m[1][i])
                if pm[0] == "ok":
                    parts = []
                    for x in pm[1]:
                        _, idx, seg = x
                        seg = tuple(seg)
                        if seg[0] == "SParent":
                            parts.append(self.intent(case, seg[1] // 512, (seg[2] + 511) // 512, from_layer=1)[:seg[2]])
                        elif seg[0] == "SZero":
                            parts.append(b"\x00" * seg[1])
                        else:
                            parts.append(files0[idx].content(seg[1], seg[2]))
                    mb = b"".join(parts)[skip:skip + want]
                    if mb != spec:
                        fs.append(Finding("model_vs_spec", f"{label}: extent model differs from the overlay intent", sig + ":mvs"))
                    if io[0] == "ok" and io[1] != mb:
                        fs.append(Finding("impl_vs_model", f"{label}: implementation differs from the extent model", sig + ":model"))
                else:
                    fs.append(Finding("model_vs_spec", f"{label}: extent model returned {pm[0]}", sig + ":mvs-err"))
            else:
                fs.append(Finding("model_vs_spec", f"extent model could not open the layer: {m[0]}", sig + ":mvs-open"))
        return fs

    def nontrivial(self, case, impl_res, coq_val):
        return core.sha(core.jdump(case["reqs"]).encode() + str(case["base_salt"]).encode()) \
            if sum(len(l) for l in case["layers"]) >= 2 else None

    def dist(self, case):
        return {"depth": len(case["layers"]), "extents_top": len(case["layers"][0])}

    def describe(self, case):
        return {"total": case["total"], "layers": [[(e["kind"], e["capacity"]) for e in l] for l in case["layers"]],
                "reqs": case["reqs"]}


# ----------------------------------------------------------------------------- QCOW2 backing chains
class Qcow2Chain(ChainSuite):
    """QCow2 over QCow2 over ... (each backing file is itself an opened QCow2 stream); same virtual size."""
    name = "qcow2_chain"
    fmt = "qcow2"
    shard = 6
    preamble = c01.Qcow2Suite.preamble + "From DH Require Import Model.Chain.\n"

    def generate(self, rng, tier):
        out = []
        n = 200 if tier == "thorough" else 20
        for _ in range(n):
            depth = rng.randint(2, 4)
            extcase = rng.chance(0.5)         # some layers use extended L2 entries (32 sub-clusters with alloc/zero bits)
            # some chains span several L2 ranges (512-byte clusters, 64 entries per table), with L1 holes in the upper layers
            multi = (not extcase) and rng.chance(0.35)
            ncl_bytes = rng.randint(2, 20) * 512 if not extcase else rng.randint(20, 96) * 512
            if multi:
                ncl_bytes = rng.randint(70, 150) * 512
            size = ncl_bytes - rng.pick([0, 0, 77])
            layers = []
            # the bottom image may be shorter than the overlays on top of it (an overlay created larger, or resized, over an
            # older base): beyond the end of the base the chain reads as zeros, overlay clusters there stay in place
            short_base = (not multi) and size > 3 * 512 and rng.chance(0.35)
            full_size = size
            for d in range(depth):
                ext = extcase and (d == 0 or rng.chance(0.4))      # the top layer of an ext case is always extended
                cb = 14 if ext else (rng.pick([11, 12]) if extcase else (9 if multi else rng.pick([9, 9, 10])))
                cs = 1 << cb
                size = full_size
                if short_base and d == depth - 1:
                    size = rng.randint(512, full_size - 512) - rng.pick([0, 0, 77, 300])
                ncl = (size + cs - 1) // cs
                hosts = list(range(ncl))
                rng.shuffle(hosts)
                cl = {}
                mode = rng.pick(["rand", "alt", "sparse"]) if not ext else "dense"
                for g in range(ncl):
                    hold = {"rand": rng.chance(0.5), "alt": (g + d) % 2 == 0, "sparse": rng.chance(0.2), "dense": rng.chance(0.85)}[mode]
                    if hold and ext:
                        if rng.chance(0.5):
                            alloc = c01.gen_bitmap(rng, rng.pick(c01.BITMAP_PATTERNS)) & 0xFFFFFFFF
                            zero = c01.gen_bitmap(rng, rng.pick(c01.BITMAP_PATTERNS)) & ~alloc & 0xFFFFFFFF
                        else:
                            # every sub-cluster independently unallocated / zero / allocated, in short runs: all nine
                            # adjacencies (unallocated next to zero next to data ...) occur inside one cluster
                            alloc = zero = 0
                            i = 0
                            while i < 32:
                                st, run = rng.randrange(3), rng.randint(1, 4)
                                for k in range(i, min(32, i + run)):
                                    alloc |= (st == 2) << k
                                    zero |= (st == 1) << k
                                i += run
                        cl[str(g)] = {"t": "ext", "host": (8 + hosts[g]) * cs, "alloc": alloc, "zero": zero, "copied": True}
                    elif hold:
                        cl[str(g)] = rng.weighted([({"t": "normal", "host": (8 + hosts[g]) * cs, "copied": True}, 5),
                                                    ({"t": "zero_plain"}, 1)])
                top = d < depth - 1
                l1_size, l2tabs = 1, {"0": 2 * cs}
                if multi:
                    l2n = cs // 8
                    l1_size = (ncl + l2n - 1) // l2n
                    have = [k for k in range(l1_size) if not (top and rng.chance(0.4))]
                    if top and l1_size >= 2 and rng.chance(0.6):
                        have = [k for k in have if k != 0] or [1]          # a hole in front of a range with a table
                        cl[str(l2n)] = {"t": "normal", "host": (8 + hosts[l2n]) * cs, "copied": True}
                    l2tabs = {str(k): (4 + k) * cs for k in have}
                    cl = {g: v for g, v in cl.items() if int(g) // l2n in have}
                layers.append({"cluster_bits": cb, "ext": ext, "datafile": False, "version": 3, "header_length": 112 if ext else 104,
                               "l1_size": l1_size, "l1_offset": cs, "rc_offset": 3 * cs, "l2tabs": l2tabs, "clusters": cl,
                               "backing": ({"size": size} if top else None), "backing_name_off": 200, "size": size,
                               "salt": rng.randrange(1 << 30), "file_size": (8 + ncl + 1) * cs, "data_size": 0})
            size = full_size
            reqs = []
            for _ in range(5):
                a = rng.randrange(0, size)
                reqs.append([rng.pick(["raw", "bytes"]), a, rng.randint(1, min(size - a, 20000 if extcase else 3000))])
            reqs.append([rng.pick(["raw", "bytes"]), 0, size])          # the whole disk in one request
            if multi:
                for k in range(1, (size + 64 * 512 - 1) // (64 * 512)):
                    b = k * 64 * 512
                    a = max(0, b - rng.randint(1, 1500))
                    reqs.append(["raw", a, min(size - a, b - a + rng.randint(1, 3000))])   # across an L2 range boundary
            out.append({"layers": layers, "size": size, "reqs": reqs})
        return out

    def build_files(self, case):
        return [c01.build_files(l)[0] for l in case["layers"]]

    def open_top(self, case, files, tmp):
        from dissect.hypervisor.disk.qcow2 import QCow2
        obj = None
        for fh in reversed(files):
            obj = QCow2(fh, backing_file=obj) if obj is not None else QCow2(fh)
        return obj

    def layer_terms(self, case):
        terms = []
        for l in case["layers"]:
            im = c01.coq_image(l, c01.layout(l))
            t = (f"(let im := {im} in {{| l_read := fun off n => qcow2_read im (S (Z.to_nat n)) off n; "
                 f"l_src := guest_src im |}})")
            if l["size"] < case["size"]:
                t = f"(clip_layer {Z(l['size'])} {t})"           # a base shorter than the chain: zero-extended view
            terms.append(t)
        return terms

    def granule(self, case):
        return 1

    def dist(self, case):
        return {"depth": len(case["layers"])}


# ----------------------------------------------------------------------------- QCOW2 internal snapshots
class Qcow2Snapshots(Suite):
    """An image with an active L1 and one internal snapshot L1 over different cluster mappings; histories interleave reads of
    the active disk and of the view opened with QCow2Snapshot.open(). Each view must read as its own mapping, whatever was
    read before on the other one."""
    name = "qcow2_snapshot"
    shard = 6
    preamble = c01.Qcow2Suite.preamble

    def generate(self, rng, tier):
        out = []
        n = 120 if tier == "thorough" else 12
        for _ in range(n):
            cb = rng.pick([9, 9, 10, 12])
            cs = 1 << cb
            ncl = rng.randint(1, 24)
            size = ncl * cs - rng.pick([0, 0, 100])

            def mapping(first_host):
                cl = {}
                hosts = list(range(ncl))
                rng.shuffle(hosts)
                for g in range(ncl):
                    t = rng.weighted([("normal", 5), ("zero_plain", 1), (None, 2)])
                    if t == "normal":
                        cl[str(g)] = {"t": "normal", "host": (first_host + hosts[g]) * cs, "copied": rng.chance(0.5)}
                    elif t == "zero_plain":
                        cl[str(g)] = {"t": "zero_plain"}
                return cl
            base = {"cluster_bits": cb, "ext": False, "datafile": False, "version": 3, "header_length": 104, "l1_size": 1,
                    "rc_offset": 6 * cs, "backing": None, "size": size, "salt": rng.randrange(1 << 30)}
            act = dict(base, l1_offset=1 * cs, l2tabs={"0": 2 * cs}, clusters=mapping(16))
            snp = dict(base, l1_offset=3 * cs, l2tabs={"0": 4 * cs}, clusters=mapping(16 + ncl))
            ops = []
            opened = False
            for _ in range(rng.randint(3, 16)):
                if not opened and rng.chance(0.4):
                    ops.append(["open"])
                    opened = True
                    continue
                who = rng.pick(["a", "s"]) if opened else "a"
                pos = rng.weighted([(0, 3), (rng.randrange(0, size), 4), (rng.randrange(0, ncl) * cs, 2)])
                ln = rng.weighted([(rng.randint(1, 64), 3), (rng.randint(1, 3 * cs), 4), (-1, 1)])
                ops.append([who, pos, ln])
            if not opened:
                ops.append(["open"])
                ops.append(["s", 0, rng.randint(1, 2 * cs)])
            out.append({"active": act, "snap": snp, "size": size, "cs": cs, "ops": ops,
                        "file_size": (16 + 2 * ncl + 2) * cs})
        return out

    def _file(self, case):
        la, ls = c01.layout(case["active"]), c01.layout(case["snap"])
        cs = case["cs"]
        chunks = dict(la["chunks"])
        chunks[case["snap"]["l1_offset"]] = ls["chunks"][case["snap"]["l1_offset"]]
        for off in ls["l2"]:
            chunks[off] = ls["chunks"][off]
        # snapshot table: one entry (40-byte header, 16 bytes of extra data, id "1", name "snap-one")
        ent = struct.pack(">QIHHIIQII", case["snap"]["l1_offset"], 1, 1, 8, 0, 0, 0, 0, 16) + struct.pack(">QQ", 0, case["size"]) \
            + b"1" + b"snap-one"
        chunks[5 * cs] = ent
        hdr = bytearray(chunks[0])
        struct.pack_into(">I", hdr, 60, 1)
        struct.pack_into(">Q", hdr, 64, 5 * cs)
        chunks[0] = bytes(hdr)
        return core.SparseFile(case["file_size"], chunks, salt=case["active"]["salt"]), la, ls

    def impl(self, case):
        from dissect.hypervisor.disk.qcow2 import QCow2
        fh, _, _ = self._file(case)
        q = QCow2(fh)
        view = None
        out = []
        for op in case["ops"]:
            if op[0] == "open":
                view = call(lambda: q.snapshots[0].open())
                out.append("opened" if not isinstance(view, dict) else view)
                continue
            st = q if op[0] == "a" else view

            def f(st=st, op=op):
                st.seek(op[1])
                return st.read(op[2])
            out.append(call(f))
        return out

    def coq_term(self, case):
        fh, la, ls = self._file(case)
        cs, size = case["cs"], case["size"]
        cnt = (size + 63) // 64
        return (f"(spec_plan (guest_src {c01.coq_image(case['active'], la)}) 64 0 {cnt}, "
                f"spec_plan (guest_src {c01.coq_image(case['snap'], ls)}) 64 0 {cnt})")

    def judge(self, case, impl_res, coq_val):
        if isinstance(impl_res, dict):
            return [Finding("impl_fault", f"implementation {impl_res}", "qcow2:snapshot:" + str(impl_res.get("outcome")))]
        fh, _, _ = self._file(case)
        _, pa, ps = coq_val
        size = case["size"]
        disk = {"a": core.materialise(core.plan_of(pa), file=fh)[:size], "s": core.materialise(core.plan_of(ps), file=fh)[:size]}
        fs = []
        for op, r in zip(case["ops"], impl_res):
            if op[0] == "open":
                if r != "opened":
                    fs.append(Finding("impl_vs_spec", f"QCow2Snapshot.open() failed: {r}", "qcow2:snapshot:open"))
                continue
            n = size - op[1] if op[2] < 0 else min(op[2], size - op[1])
            want = disk[op[0]][op[1]:op[1] + max(0, n)]
            io = outcome_of(r)
            who = "active disk" if op[0] == "a" else "snapshot view"
            if io[0] != "ok":
                fs.append(Finding("impl_vs_spec", f"{who} read({op[1]},{op[2]}) {io[:3]}", f"qcow2:snapshot:{op[0]}:{io[0]}"))
            elif io[1] != want:
                other = disk["s" if op[0] == "a" else "a"][op[1]:op[1] + max(0, n)]
                hint = " (these are the OTHER view's bytes)" if io[1] == other else ""
                fs.append(Finding("impl_vs_spec", f"{who} read({op[1]},{op[2]}) differs from its own mapping at "
                                  f"+{core.first_diff(io[1], want)}{hint}", f"qcow2:snapshot:{op[0]}:bytes"))
        return fs

    def nontrivial(self, case, impl_res, coq_val):
        whos = {op[0] for op in case["ops"]}
        return core.sha(core.jdump(case).encode()) if {"a", "s"} <= whos else None

    def dist(self, case):
        return {"cluster_bits": case["active"]["cluster_bits"], "nops": len(case["ops"])}


class VdiDifferencing(Suite):
    """A VDI whose header says 'differencing' (ImageType 4) opened without a parent: the property wants an error, the
    constructor has no such check (recorded known finding, see DESIGN.md §11.5)."""
    name = "vdi_differencing"

    def generate(self, rng, tier):
        out = []
        for it in (1, 2, 3, 4):
            c = c05.gen_case(rng, "quick")
            c["image_type"] = it
            c["parent_salt"] = None
            c.pop("reqs", None)
            out.append(c)
        return out

    def impl(self, case):
        from dissect.hypervisor.disk.vdi import VDI
        fh = c05.SUITES["vdi"].build_files(case)["file"]
        try:
            v = VDI(fh)
            return {"opened": True, "n": len(v.read(512))}
        except Exception as e:  # noqa: BLE001
            return {"opened": False, "exc": type(e).__name__}

    def judge(self, case, impl_res, coq_val):
        if impl_res.get("outcome"):
            return [Finding("impl_fault", f"implementation {impl_res}", "vdi:open:" + impl_res["outcome"])]
        if case["image_type"] == 4 and impl_res["opened"]:
            return [Finding("impl_vs_spec", "differencing VDI (ImageType 4) opened without a parent is served alone instead "
                            "of raising", "vdi:open:differencing-served-alone")]
        if case["image_type"] != 4 and not impl_res["opened"]:
            return [Finding("impl_vs_spec", f"VDI of image type {case['image_type']} refused: {impl_res}", "vdi:open:refused")]
        return []

    def nontrivial(self, case, impl_res, coq_val):
        return case["image_type"]

    def dist(self, case):
        return {"image_type": case["image_type"]}


SUITES = {"vdi_differencing": VdiDifferencing(), "hdd_chain": HddChain(), "hdd_split": HddSplit(), "qcow2_chain": Qcow2Chain(), "qcow2_snapshot": Qcow2Snapshots(), "vmdk_delta": VmdkDelta(), "vdi_chain": VdiChain(), "hds_chain": HdsChain(), "vhdx_chain": VhdxChain(), "open_layouts": OpenLayouts()}
