"""C04 — VHD: every byte range reads as the guest-visible content."""
from __future__ import annotations

import struct

from harness import core
from harness.core import Z, zpairs
from harness.main import Finding, Suite
from harness.readers import call, judge_read, keep_alive

PROPERTY = "C04"
PROPS_FILE = "Props/C04.v"
MODEL_FILES = ["Model/Vhd.v"]
META = {
    "category": "proof",
    "text": "Coq theorems: the VHD reader model (dynamic: BAT walk, bitmap skip, per-block split; fixed; "
            "legacy 511-byte footer choice) returns exactly the guest bytes for every BAT, block size, placement "
            "and request, and terminates for arbitrary tables; the model is tied to vhd.py by differential "
            "correspondence on generated images (impl vs model vs spec, byte for byte).",
    "design_ref": "DESIGN.md §6 C03–C06",
    "note": "Trusted: Coq kernel; hand-written model Model/Vhd.v validated against the code only on the generated "
            "cases; Gen/Consts.v from the translator; cstruct/AlignedStream behaviour as exercised.",
    "technique": "Coq proof of model-refines-spec + differential correspondence model/implementation",
    "rule": "images: sectors-per-block from {1,2,4,8,16,64,4096}, 1..12 blocks (thorough ..40), entries "
            "present/absent/zero, placement asc/desc/random/gaps/high(>2^32 bytes), size not a multiple of the block, "
            "512/511-byte footer, fixed/dynamic; requests: read_sectors, raw _read (incl. past the end), stream "
            "seek+read. Non-trivial = request touches >= 2 blocks or >= 2 source kinds; distinct by (geometry, bat, request).",
    "trusted_base": ["Model/Vhd.v is hand-written (correspondence-checked, not proved against Python)"],
    "assumptions": ["file handles behave as io.RawIOBase files (SparseFile stand-in)"],
}

SECTOR = 512


def build_footer(size, data_offset, disk_type, features=2):
    # original_size is the size at creation; current_size is the size of the disk.  They differ once a disk was resized
    # (derived from the size so that the serialiser stays a function of its arguments)
    original = [size, size, max(512, size // 2), size + 1048576][(size // 512) % 4]
    f = struct.pack(">8sIIQIIIIQQIII16sB", b"conectix", features, 0x00010000, data_offset, 0, 0x76706320, 0x00050003,
                    0x5769326B, original, size, 0, disk_type, 0, b"\x11" * 16, 0)
    return f + b"\x00" * (511 - len(f))


def build_dyn_header(table_offset, max_entries, block_size):
    h = struct.pack(">8sQQIIII16sII", b"cxsparse", 0xFFFFFFFFFFFFFFFF, table_offset, 0x00010000, max_entries,
                    block_size, 0, b"\x00" * 16, 0, 0)
    return h + b"\x00" * (1024 - len(h))


def build_image(case):
    """-> SparseFile"""
    size = case["size"]
    chunks = {}
    if case["kind"] == "fixed":
        body = size
        data_offset = 0xFFFFFFFFFFFFFFFF
        disk_type = 2
        if case.get("nested") and size >= 4096:
            # the guest's own data starts with a dynamic VHD (an image stored raw on the disk): footer copy, dynamic
            # header, an all-sparse table.  It is guest data like any other; the file's own footer is the one at its end.
            inner = 5 * 1048576
            chunks[0] = build_footer(inner, 512, 3) + b"\x00"
            chunks[512] = build_dyn_header(1536, 5, 1048576)
            chunks[1536] = b"\xff" * 512
    else:
        data_offset = 512
        disk_type = 3
        chunks[0] = build_footer(size, data_offset, disk_type) + b"\x00"
        chunks[512] = build_dyn_header(case["table_offset"], case["max_entries"], case["block_size"])
        bat = b"".join(struct.pack(">I", e) for e in case["bat_raw"])
        chunks[case["table_offset"]] = bat
        body = case["body_end"]
    footer = build_footer(size, data_offset, disk_type)
    if case["legacy511"]:
        chunks[body] = footer
        fsize = body + 511
    else:
        chunks[body] = footer + b"\x00"
        fsize = body + 512
    return core.SparseFile(fsize, chunks, salt=case.get("salt", 0))


def gen_case(rng, tier):
    kind = rng.weighted([("dynamic", 8), ("fixed", 1)])
    legacy = rng.chance(0.15)
    c = {"kind": kind, "legacy511": legacy, "salt": rng.randrange(1 << 30)}
    if kind == "fixed":
        nsect = rng.pick([1, 3, 16, 17, 100, 5000])
        c["size"] = nsect * SECTOR
        size = c["size"]
        c["nested"] = nsect >= 16 and rng.chance(0.5)
    else:
        spb = rng.weighted([(1, 1), (2, 2), (3, 1), (4, 3), (8, 3), (16, 2), (24, 1), (64, 1), (4096, 1), (16384, 1), (65536, 1)])
        maxb = 40 if tier == "thorough" else 12
        nblocks = rng.randint(1, maxb if spb < 4096 else (4 if spb == 4096 else 3))
        many = rng.chance(0.06)
        if many:
            # a table of more than 16384 entries (tiny blocks keep the image small): whatever a reader preloads or caches
            # for the first entries, the later ones mean the same
            spb = rng.pick([1, 2])
            nblocks = rng.randint(16385, 17300)
        bs = spb * SECTOR
        cut = rng.weighted([(0, 3), (SECTOR * rng.randrange(0, spb), 3), (rng.randrange(0, bs), 1)])
        size = max(SECTOR if spb > 1 else 1, nblocks * bs - cut)
        if size <= (nblocks - 1) * bs:
            size = (nblocks - 1) * bs + 1
        bm = (spb // 8 + SECTOR - 1) // SECTOR
        slack = rng.pick([0, 0, 1, 5])
        max_entries = nblocks + slack
        table_offset = rng.pick([1536, 2048, 4096, 1536 + 512 * rng.randrange(0, 50)])
        first = (table_offset + 4 * max_entries + SECTOR - 1) // SECTOR + rng.randrange(0, 3)
        # which blocks are present
        mode = rng.weighted([("all", 2), ("none", 1), ("alt", 2), ("rand", 5)])
        present = []
        for b in range(nblocks):
            p = {"all": True, "none": False, "alt": b % 2 == 0, "rand": rng.chance(0.6)}[mode]
            if many:
                p = b >= 16380 and rng.chance(0.5) or rng.chance(0.001)
            present.append(p)
        order = [b for b in range(nblocks) if present[b]]
        place = rng.weighted([("asc", 2), ("desc", 2), ("random", 4), ("gaps", 2), ("high", 1), ("logical", 2)])
        if place == "desc":
            order.reverse()
        elif place in ("random", "gaps", "high"):
            rng.shuffle(order)
        unit = bm + spb
        pos = first
        if place == "high":
            pos = (1 << 32) - 2 - unit * (len(order) + 2) - rng.randrange(0, 1000)
        entries = {}
        for b in order:
            if place == "gaps":
                pos += rng.randrange(0, 3 * unit)
            if place == "logical":
                # block b lies where it would lie in a fully allocated image: an absent block leaves a hole of one unit
                pos = first + b * unit
            entries[b] = pos
            pos += unit
        body_end = pos * SECTOR
        raw = []
        for b in range(max_entries):
            if b in entries:
                raw.append(entries[b])
            else:
                raw.append(rng.weighted([(0xFFFFFFFF, 6), (0, 1)]))
        c.update(size=size, block_size=bs, max_entries=max_entries, table_offset=table_offset, bat_raw=raw,
                 body_end=body_end, place=place, mode=mode)
    # requests
    nsect = (size + SECTOR - 1) // SECTOR
    reqs = []
    spb_ = c.get("block_size", 8 * SECTOR) // SECTOR
    for _ in range(6):
        k = rng.weighted([("sectors", 4), ("raw", 3), ("bytes", 4)])
        if k == "sectors":
            s = rng.randrange(0, nsect)
            span = rng.weighted([(1, 1), (spb_, 2), (2 * spb_ + 1, 3), (nsect, 1)])
            cnt = max(1, min(nsect - s, rng.randint(1, max(1, span))))
            cnt = min(cnt, 3 * spb_ + 16, 9000)
            reqs.append(["sectors", s, cnt])
        elif k == "raw":
            s = rng.randrange(0, nsect)
            cnt = rng.randint(1, min(9000, max(1, 3 * spb_)))
            if rng.chance(0.4):
                cnt = min(9000, nsect - s + rng.randint(0, 2 * spb_ + 16))   # up to / past the end
            reqs.append(["raw", s * SECTOR, max(1, cnt) * SECTOR])
        else:
            off = rng.randrange(0, size + 3)
            n = rng.weighted([(rng.randint(0, 600), 2), (rng.randint(0, min(3 * spb_, 9000) * SECTOR + 100), 4),
                              (-1, 1), (size, 1)])
            if n > 4_000_000:
                n = 4_000_000
            reqs.append(["bytes", off, n])
    # history on one object: part of a block, then a read somewhere else (a block not looked at before), then the
    # continuation exactly where the first read stopped
    if nsect >= 8:
        s1 = rng.randrange(0, max(1, nsect - 4))
        n1 = max(1, min(rng.randint(1, max(1, spb_ // 2 + 1)), nsect - s1 - 1))
        other = rng.randrange(0, nsect)
        reqs.append(["sectors", s1, n1])
        reqs.append(["sectors", other, min(2, nsect - other)])
        reqs.append(["sectors", s1 + n1, max(1, min(nsect - s1 - n1, rng.randint(1, spb_ + 2)))])
    if c.get("max_entries", 0) > 16384:
        for _ in range(6):
            b = rng.randrange(16380, nblocks if kind != "fixed" else 1)
            reqs.append(["sectors", b * spb_, min(nsect - b * spb_, rng.randint(1, 4 * spb_))])
    c["reqs"] = reqs
    return c


class VhdSuite(Suite):
    name = "vhd"
    shard = 25
    preamble = ("From Coq Require Import ZArith List.\nImport ListNotations.\nOpen Scope Z_scope.\n"
                "From DH Require Import Base.Plan Base.Table Model.Vhd.\n")

    def generate(self, rng, tier):
        n = 1500 if tier == "thorough" else 150
        from harness.readers import with_twins
        return with_twins([gen_case(rng, tier) for _ in range(n)], rng)

    def impl(self, case):
        from dissect.hypervisor.disk.vhd import VHD
        fh = build_image(case)
        out = {"open": None, "reqs": []}
        try:
            v = keep_alive(VHD(fh))
        except Exception as e:  # noqa: BLE001
            out["open"] = {"outcome": "exc", "exc": type(e).__name__, "msg": str(e)[:200]}
            return out
        out["size"] = int(v.size)
        for k, (kind, a, b) in enumerate(case["reqs"]):
            if k % 2 == 1:
                fh.seek((a * 7 + k * 4099) % max(1, fh.size))      # the handle is the caller's: it may have been used meanwhile
            if kind == "sectors":
                out["reqs"].append(call(v.disk.read_sectors, a, b))
            elif kind == "raw":
                out["reqs"].append(call(v._read, a, b))
            else:
                def f():
                    v.seek(a)
                    r = v.read(b)
                    return r if v.tell() == a + len(r) else {"outcome": "exc", "exc": "PositionError",
                                                             "msg": f"tell {v.tell()} after reading {len(r)} at {a}"}
                out["reqs"].append(call(f))
        return out

    def _spec_range(self, case, kind, a, b):
        """(first sector, sector count, byte skip, want_len) of the spec plan needed for a request"""
        size = case["size"]
        if kind == "sectors":
            return a, b, 0, b * SECTOR
        if kind == "raw":
            want = max(0, min(b, size - a))
            return a // SECTOR, (want + SECTOR - 1) // SECTOR, 0, want
        n = b
        if a >= size:
            return 0, 0, 0, 0
        n = size - a if n < 0 else min(n, size - a)
        s0 = a // SECTOR
        s1 = (a + n + SECTOR - 1) // SECTOR
        return s0, s1 - s0, a - s0 * SECTOR, n

    def coq_term(self, case):
        items = []
        if case["kind"] == "fixed":
            for kind, a, b in case["reqs"]:
                s0, cnt, _, _ = self._spec_range(case, kind, a, b)
                spec = f"spec_plan fixed_src 512 {Z(s0 * SECTOR)} {Z(cnt)}"
                if kind == "sectors":
                    model = f"Ok (fixed_read_sectors {Z(a)} {Z(b)})"
                elif kind == "raw":
                    model = f"Ok (fixed_read {Z(case['size'])} {Z(a)} {Z(b)})"
                else:
                    model = "(@Err (list seg))"   # unused
                items.append(f"({model}, {spec})")
            return "[" + "; ".join(items) + "]"
        ent = [(i, v) for i, v in enumerate(case["bat_raw"]) if v != 0xFFFFFFFF]
        d = (f"{{| d_size := {Z(case['size'])}; d_block_size := {Z(case['block_size'])}; "
             f"d_max_entries := {Z(case['max_entries'])}; "
             f"d_bat := tbl {zpairs(ent)} 4294967295 {Z(case['max_entries'])} |}}")
        for kind, a, b in case["reqs"]:
            s0, cnt, _, _ = self._spec_range(case, kind, a, b)
            spec = f"spec_plan (guest_src d) 512 {Z(s0 * SECTOR)} {Z(cnt)}"
            if kind == "sectors":
                model = f"dyn_read_sectors d (fuel_for {Z(b)}) {Z(a)} {Z(b)}"
            elif kind == "raw":
                model = f"dyn_read d (fuel_for {Z(b // SECTOR + 1)}) {Z(a)} {Z(b)}"
            else:
                model = "(@Err (list seg))"
            items.append(f"({model}, {spec})")
        return f"let d := {d} in [" + "; ".join(items) + "]"

    def judge(self, case, impl_res, coq_val):
        fs = []
        if impl_res.get("outcome"):
            return [Finding("impl_fault", f"implementation {impl_res['outcome']}: {impl_res.get('detail','')}",
                            "vhd:open:" + impl_res["outcome"])]
        if impl_res["open"] is not None:
            return [Finding("impl_vs_spec", f"open failed on a well-formed image: {impl_res['open']}", "vhd:open:exc")]
        if impl_res["size"] != case["size"]:
            fs.append(Finding("impl_vs_spec", f"size {impl_res['size']} != stored {case['size']}", "vhd:size"))
        fh = build_image(case)
        mat = lambda p: core.materialise(p, file=fh)  # noqa: E731
        for (kind, a, b), r, cv in zip(case["reqs"], impl_res["reqs"], coq_val):
            _, model_v, spec_v = cv
            s0, cnt, skip, want = self._spec_range(case, kind, a, b)
            spec_plan = core.plan_of(spec_v)
            label = f"{kind}({a},{b})"
            sig = f"vhd:{case['kind']}:{kind}"
            if kind == "bytes":
                full = mat(spec_plan)[skip:skip + want]
                fs += judge_read(label, r, None, full, want, mat, exact_len=True, sig=sig)
            else:
                fs += judge_read(label, r, core.res_of(model_v), mat(spec_plan)[skip:skip + want], want, mat,
                                 exact_len=False, sig=sig)
        return fs

    def nontrivial(self, case, impl_res, coq_val):
        kinds = set()
        multi = False
        for cv in coq_val or []:
            plan = core.plan_of(cv[2])
            if len(plan) >= 2:
                multi = True
            kinds |= {s[0] for s in plan}
        if multi or len(kinds) >= 2:
            return core.sha(core.jdump(case).encode())
        return None

    def dist(self, case):
        d = {"kind": case["kind"], "legacy511": case["legacy511"]}
        if case["kind"] == "dynamic":
            d.update(spb=case["block_size"] // SECTOR, place=case["place"], mode=case["mode"],
                     size_aligned=case["size"] % case["block_size"] == 0)
        d["req_kinds"] = ",".join(sorted({r[0] for r in case["reqs"]}))
        return d

    def describe(self, case):
        return case


SUITES = {"vhd": VhdSuite()}

from harness.readers import under_O, under_debug, under_bufsize  # noqa: E402
SUITES["vhd_pyO"] = under_O(SUITES["vhd"])
SUITES["vhd_dbg"] = under_debug(SUITES["vhd"])
SUITES["vhd_buf12288"] = under_bufsize(SUITES["vhd"], 12288)
SUITES["vhd_buf1536"] = under_bufsize(SUITES["vhd"], 1536, n=4)
