"""Shared machinery of the correspondence harness.

* Rng            one PRNG state per run (VERIF_SEED), every random choice derives from it
* SparseFile     read-only backing file: metadata chunks at arbitrary offsets, position-stamped
                 bytes elsewhere, every operation logged, any non-read operation recorded
* plans          materialise a Coq plan (list of seg) into bytes with a case's backing content
* Coq bridge     render Python values as Gallina terms, evaluate generated cases_*.v with
                 coqc + vm_compute, parse the printed values back
* worker         run the implementation on a list of cases in a resource-limited subprocess
"""
from __future__ import annotations

import array
import hashlib
import io
import json
import os
import pickle
import random
import re
import subprocess
import sys
import time

VERIF = os.path.dirname(os.path.dirname(os.path.abspath(__file__)))
REPO = os.environ.get("VERIF_REPO", "/repo")
COQ = os.path.join(VERIF, "coq")
COQ_EVAL = None      # set by the driver to a reference build (genref/) when the current generated model does not build
OUT = os.path.join(VERIF, "out")
PY = "/venv/bin/python"


# ----------------------------------------------------------------------------- rng
class Rng(random.Random):
    def pick(self, seq):
        return seq[self.randrange(len(seq))]

    def weighted(self, pairs):
        total = sum(w for _, w in pairs)
        x = self.random() * total
        for v, w in pairs:
            x -= w
            if x <= 0:
                return v
        return pairs[-1][0]

    def chance(self, p):
        return self.random() < p


# ----------------------------------------------------------------------------- stamped content
_STAMP_SALTS = {}


def stamp(off: int, n: int, salt: int = 0) -> bytes:
    """n bytes of position-dependent content starting at byte offset off.
    8-byte little-endian words of ((word index * K) ^ salt-mix); a wrong file offset
    (even by one byte) cannot produce the right bytes."""
    if n <= 0:
        return b""
    w0 = off // 8
    w1 = (off + n + 7) // 8
    K = 0x9E3779B97F4A7C15
    mix = (salt * 0xD1B54A32D192ED03 + 0x8CB92BA72F3D8DD7) & 0xFFFFFFFFFFFFFFFF
    a = array.array("Q", (((w * K) ^ mix ^ (w >> 7)) & 0xFFFFFFFFFFFFFFFF for w in range(w0, w1)))
    if sys.byteorder != "little":
        a.byteswap()
    b = a.tobytes()
    s = off - w0 * 8
    return b[s:s + n]


_DECOY_FD = None


class SparseFile(io.RawIOBase):
    """A read-only virtual file of `size` bytes.

    content: chunks (offset -> bytes) override; elsewhere stamp(offset, salt) when fill == 'stamp',
    zeros when fill == 'zero'.  All operations are logged in .log as tuples; operations outside
    {seek, read, readinto, tell, readable, seekable, close, name, fileno-less} are recorded in
    .violations (C09)."""

    def __init__(self, size: int, chunks: dict | None = None, salt: int = 0, fill: str = "stamp", name=None):
        super().__init__()
        self.size = size
        self.salt = salt
        self.fill = fill
        self._chunks = sorted((chunks or {}).items())
        self._pos = 0
        self.log = []
        self.violations = []
        self.bytes_read = 0
        self.read_calls = 0
        self.ranges = []          # (off, n) of every read that returned data
        if name is not None:
            self.name = name

    # -- content
    def content(self, off: int, n: int) -> bytes:
        """Bytes [off, off+n) clipped to the file size."""
        if off >= self.size or n <= 0:
            return b""
        n = min(n, self.size - off)
        if self.fill == "stamp":
            buf = bytearray(stamp(off, n, self.salt))
        else:
            buf = bytearray(n)
        end = off + n
        for co, cb in self._chunks:
            ce = co + len(cb)
            if ce <= off or co >= end:
                continue
            a = max(co, off)
            b = min(ce, end)
            buf[a - off:b - off] = cb[a - co:b - co]
        return bytes(buf)

    # -- file protocol
    def readable(self):
        return True

    def seekable(self):
        return True

    def writable(self):
        return False

    def seek(self, pos, whence=0):
        if whence == 0:
            if pos < 0:
                raise ValueError("negative seek position")
            new = pos
        elif whence == 1:
            new = max(0, self._pos + pos)
        elif whence == 2:
            new = max(0, self.size + pos)
        else:
            raise ValueError("bad whence")
        self._pos = new
        self.log.append(("seek", pos, whence))
        return new

    def tell(self):
        return self._pos

    def read(self, n=-1):
        if n is None or n < 0:
            n = max(0, self.size - self._pos)
        data = self.content(self._pos, n)
        self.log.append(("read", self._pos, n, len(data)))
        self.read_calls += 1
        if data:
            self.ranges.append((self._pos, len(data)))
        self.bytes_read += len(data)
        self._pos += len(data)
        return data

    def readall(self):
        return self.read(-1)

    def readinto(self, b):
        data = self.read(len(b))
        b[:len(data)] = data
        return len(data)

    def fileno(self):
        """Like gzip.GzipFile or a tarfile member stream, this handle has a descriptor that is NOT the byte stream it
        exposes (here: a decoy file of 0xA5 bytes).  A reader may only use the file protocol of the object it was given."""
        global _DECOY_FD
        if _DECOY_FD is None:
            path = os.path.join(OUT, "decoy.bin")
            if not os.path.exists(path) or os.path.getsize(path) != (4 << 20):
                os.makedirs(OUT, exist_ok=True)
                tmp = f"{path}.{os.getpid()}"
                with open(tmp, "wb") as fh:
                    fh.write(b"\xa5" * (4 << 20))
                os.replace(tmp, path)
            _DECOY_FD = os.open(path, os.O_RDONLY)
        self.log.append(("fileno",))
        return _DECOY_FD

    def write(self, *a, **k):
        self.violations.append(("write",))
        raise io.UnsupportedOperation("write")

    def truncate(self, *a, **k):
        self.violations.append(("truncate",))
        raise io.UnsupportedOperation("truncate")

    def writelines(self, *a, **k):
        self.violations.append(("writelines",))
        raise io.UnsupportedOperation("writelines")

    def reset_counters(self):
        self.log = []
        self.bytes_read = 0
        self.read_calls = 0
        self.ranges = []


# ----------------------------------------------------------------------------- plans
def materialise(plan, file: SparseFile | None = None, data: SparseFile | None = None, parent=None, infl=None) -> bytes:
    """plan: list of tuples ('SZero', n) / ('SFile', o, n) / ('SData', o, n) / ('SParent', o, n) /
    ('SInfl', d, k, n).  parent: callable (off, n) -> bytes ; infl: callable (d, k, n) -> bytes.
    File reads are clipped at EOF exactly as fh.read is."""
    out = []
    for s in plan:
        tag = s[0]
        if tag == "SZero":
            out.append(b"\x00" * max(0, s[1]))
        elif tag == "SFile":
            out.append(file.content(s[1], s[2]))
        elif tag == "SData":
            out.append(data.content(s[1], s[2]))
        elif tag == "SParent":
            out.append(parent(s[1], s[2]))
        elif tag == "SInfl":
            out.append(infl(s[1], s[2], s[3]))
        else:
            raise ValueError(f"unknown segment {s!r}")
    return b"".join(out)


def plan_len(plan):
    return sum(s[-1] for s in plan)


# ----------------------------------------------------------------------------- Coq terms
def Z(v: int) -> str:
    return f"({v})" if v < 0 else str(v)


def zlist(vs) -> str:
    return "[" + "; ".join(Z(v) for v in vs) + "]"


def zpairs(items) -> str:
    return "[" + "; ".join(f"({Z(a)}, {Z(b)})" for a, b in items) + "]"


def cbool(b) -> str:
    return "true" if b else "false"


def copt(v, f=Z) -> str:
    return "None" if v is None else f"(Some {f(v)})"


def codepoints(s: str) -> str:
    return zlist([ord(c) for c in s])


def bytes_term(b: bytes) -> str:
    """run-length friendly byte-string term: uses Base.Bytes.rl when long runs exist."""
    return zlist(list(b))


# parsing of printed Coq values ----------------------------------------------
_TOKEN = re.compile(r"\s*(?:(-?\d+)(?:%[A-Za-z]+)?|(\"(?:[^\"]|\"\")*\")(?:%[A-Za-z]+)?|([A-Za-z_][A-Za-z_0-9'.]*)|(\(|\)|\[|\]|;|,|\{\||\|\}|:=))")


def parse_coq(text: str):
    """Parse a printed Coq value built from constructors, numbers, strings, lists, tuples.
    Constructor applications become tuples ('Name', arg, ...); bare constructors become 'Name';
    lists become Python lists; Coq tuples become Python tuples tagged by position ('', a, b)."""
    toks = []
    pos = 0
    text = text.strip()
    while pos < len(text):
        m = _TOKEN.match(text, pos)
        if not m:
            raise ValueError(f"cannot tokenise Coq output at {text[pos:pos+40]!r}")
        pos = m.end()
        if m.group(1) is not None:
            toks.append(("n", int(m.group(1))))
        elif m.group(2) is not None:
            toks.append(("s", m.group(2)[1:-1].replace('""', '"')))
        elif m.group(3) is not None:
            toks.append(("i", m.group(3)))
        else:
            toks.append(("p", m.group(4)))
    idx = 0

    def peek():
        return toks[idx] if idx < len(toks) else None

    def atom():
        nonlocal idx
        t = toks[idx]
        if t[0] in "ns":
            idx += 1
            return t[1]
        if t[0] == "i":
            idx += 1
            return t[1]
        if t == ("p", "("):
            idx += 1
            first = term()
            items = [first]
            while peek() == ("p", ","):
                idx += 1
                items.append(term())
            if peek() != ("p", ")"):
                raise ValueError("expected )")
            idx += 1
            if len(items) == 1:
                return first
            return ("",) + tuple(items)
        if t == ("p", "["):
            idx += 1
            items = []
            if peek() != ("p", "]"):
                items.append(term())
                while peek() == ("p", ";"):
                    idx += 1
                    items.append(term())
            if peek() != ("p", "]"):
                raise ValueError("expected ]")
            idx += 1
            return items
        raise ValueError(f"unexpected token {t}")

    def term():
        nonlocal idx
        head = atom()
        args = []
        while True:
            t = peek()
            if t is None or t[0] == "p" and t[1] in (")", "]", ";", ","):
                break
            args.append(atom())
        if args:
            if not isinstance(head, str):
                raise ValueError("application of a non-constructor")
            return (head,) + tuple(args)
        return head

    v = term()
    if idx != len(toks):
        raise ValueError(f"trailing tokens in Coq output: {toks[idx:idx+5]}")
    return v


def plan_of(v):
    """parsed Coq `list seg` -> list of tuples (already that shape)."""
    return [tuple(x) if isinstance(x, tuple) else (x,) for x in v]


def res_of(v):
    """parsed Coq `res A` -> ('ok', a) | ('err',) | ('fuel',)"""
    if v == "Err":
        return ("err",)
    if v == "Fuel":
        return ("fuel",)
    if isinstance(v, tuple) and v[0] == "Ok":
        return ("ok", v[1])
    raise ValueError(f"not a res value: {v!r}")


def eval_coq(tag: str, preamble: str, terms: list[str], shard: int = 400, jobs: int = 8, timeout: int = 600,
             _retry: bool = True):
    """Evaluate each term with vm_compute; returns list of parsed values (or ('coq-error', msg)).
    A shard that fails as a whole is re-evaluated one case per file so that one bad term cannot hide the others."""
    d = os.path.join(OUT, "cases", tag)
    os.makedirs(d, exist_ok=True)
    for f in os.listdir(d):
        os.unlink(os.path.join(d, f))
    files = []
    for si in range(0, len(terms), shard):
        path = os.path.join(d, f"cases_{si // shard:04d}.v")
        with open(path, "w") as fh:
            fh.write(preamble + "\nSet Printing Width 100000000.\nSet Printing Depth 100000000.\n")
            for k, t in enumerate(terms[si:si + shard]):
                fh.write(f"Definition case_{si + k} := {t}.\nEval vm_compute in case_{si + k}.\n")
        files.append(path)
    procs = []
    results = [None] * len(terms)

    def launch(path):
        return subprocess.Popen(
            ["bash", "-c", f"ulimit -s unlimited 2>/dev/null; ulimit -v {COQC_MEM_KB}; exec timeout {timeout} coqc -Q {COQ_EVAL or COQ} DH {path}"],
            stdout=subprocess.PIPE, stderr=subprocess.STDOUT, text=True, cwd=d)

    pending = list(enumerate(files))
    running = []
    outputs = {}
    while pending or running:
        while pending and len(running) < jobs:
            i, p = pending.pop(0)
            running.append((i, launch(p)))
        i, pr = running.pop(0)
        out, _ = pr.communicate()
        outputs[i] = (pr.returncode, out)
    for i in range(len(files)):
        rc, out = outputs[i]
        vals = re.findall(r"^\s*= (.*?)\n\s*: ", out, flags=re.S | re.M)
        base = i * shard
        cnt = min(shard, len(terms) - base)
        if rc != 0 or len(vals) != cnt:
            msg = out.strip()[-2000:]
            if _retry and cnt > 1:
                sub = eval_coq(tag + "_retry", preamble, terms[base:base + cnt], shard=1, jobs=jobs, timeout=timeout,
                               _retry=False)
                for k in range(cnt):
                    results[base + k] = sub[k]
            else:
                for k in range(cnt):
                    results[base + k] = ("coq-error", msg)
            continue
        for k, v in enumerate(vals):
            try:
                results[base + k] = parse_coq(" ".join(v.split()))
            except ValueError as e:
                results[base + k] = ("coq-error", f"{e}: {v[:200]}")
    return results


# ----------------------------------------------------------------------------- worker
COQC_MEM_KB = 10_000_000   # address-space cap per coqc evaluating cases (typical use is below 2 GB): a term that explodes ends as a coq-error
MAX_FAULTS = 8           # per suite: hang / crash / oom outcomes after which the remaining cases are skipped
FAULT_SECONDS = 150.0    # ... or this much time spent waiting for them


def run_impl(module: str, suite: str, cases: list, per_case_timeout: float = 20.0, mem_mb: int = 2048,
             env_extra: dict | None = None):
    """Run module.SUITES[suite].impl(case) for every case in a subprocess; returns list of results.
    A result is whatever impl returns (picklable) or {'outcome': 'hang'|'crash'|'oom', ...}."""
    os.makedirs(os.path.join(OUT, "work"), exist_ok=True)
    tagbase = f"{module}.{suite}.{os.getpid()}"
    cpath = os.path.join(OUT, "work", tagbase + ".cases.pkl")
    results = [None] * len(cases)
    start = 0
    env = dict(os.environ)
    env["PYTHONPATH"] = REPO + os.pathsep + VERIF
    env["PYTHONHASHSEED"] = "0"
    env["DISSECT_HYPERVISOR_VERIF"] = "1"
    env.pop("DISSECT_STREAM_BUFFER_SIZE", None)
    if env_extra:
        env.update({k: str(v) for k, v in env_extra.items()})
    with open(cpath, "wb") as fh:
        pickle.dump(cases, fh)
    faults, t_faults = 0, 0.0
    while start < len(cases):
        if faults >= MAX_FAULTS or t_faults > FAULT_SECONDS:
            # a storm of hangs / memory blow-ups: the violation is established; the rest of the suite is not run so that
            # the check still ends in reasonable time
            for k in range(start, len(cases)):
                results[k] = {"outcome": "skipped", "detail": f"not run after {faults} resource faults"}
            break
        t_launch = time.time()
        rpath = os.path.join(OUT, "work", tagbase + f".res.{start}.pkl")
        if os.path.exists(rpath):
            os.unlink(rpath)
        pr = subprocess.Popen([PY, "-m", "harness.worker", module, suite, cpath, rpath, str(start), str(mem_mb),
                               str(per_case_timeout)],
                              env=env, cwd=VERIF, stdout=subprocess.PIPE, stderr=subprocess.STDOUT, text=True)
        out, _ = pr.communicate()
        got = []
        if os.path.exists(rpath):
            with open(rpath, "rb") as fh:
                while True:
                    try:
                        got.append(pickle.load(fh))
                    except EOFError:
                        break
                    except Exception:
                        break
            os.unlink(rpath)
        for k, r in enumerate(got):
            results[start + k] = r
        start += len(got)
        if start < len(cases) and "WORKER-FAULT-BUDGET" in (out or ""):
            faults = max(faults, MAX_FAULTS)          # the worker itself saw that many memory blow-ups: stop the suite
            continue
        if start < len(cases):
            # the worker died on case `start`
            last = (out or "").strip().splitlines()[-3:]
            kind = "hang" if pr.returncode in (-14, -27, 124, -9) or "WORKER-TIMEOUT" in (out or "") or \
                "Timeout (" in (out or "") else "crash"
            if "MemoryError" in (out or ""):
                kind = "oom"
            results[start] = {"outcome": kind, "detail": " | ".join(last)[-500:], "rc": pr.returncode}
            start += 1
            faults += 1
            t_faults += min(time.time() - t_launch, per_case_timeout + 5)
    try:
        os.unlink(cpath)
    except OSError:
        pass
    return results


def sha(b: bytes) -> str:
    return hashlib.sha256(b).hexdigest()[:16]


def first_diff(a: bytes, b: bytes):
    n = min(len(a), len(b))
    if a[:n] != b[:n]:
        for i in range(0, n, 4096):
            if a[i:i + 4096] != b[i:i + 4096]:
                for j in range(i, min(n, i + 4096)):
                    if a[j] != b[j]:
                        return j
    return n if len(a) != len(b) else None


def now():
    return time.time()


def jdump(obj):
    return json.dumps(obj, sort_keys=True, default=lambda o: o.hex() if isinstance(o, (bytes, bytearray)) else str(o))
