"""./check driver: translator -> proofs -> correspondence -> verdict -> evidence.

Verdict protocol (DESIGN.md §5):
  failing   := cases with impl != spec               -> VIOLATION replay=<case file> (or KNOWN-FINDING)
  tie_broken:= translator refused | a .v in the cone fails | unexpected axioms | impl != model
               -> if no failing input was found: VIOLATION ... no-failing-input-found
"""
from __future__ import annotations

import argparse
import fcntl
import hashlib
import importlib
import json
import os
import re
import shutil
import subprocess
import sys
import time

from harness import core

VERIF = core.VERIF
COQ = core.COQ
FORBIDDEN = re.compile(
    r"\b(Admitted|admit|Axiom|Axioms|Parameter|Parameters|Conjecture|Admit Obligations|bypass_check)\b|Unset Guard|"
    r"Unset Positivity|Unset Universe|type-in-type|impredicative-set|native_compute")
ALLOWED_AXIOMS: set[str] = set()   # none needed so far; see DESIGN §8


class Finding:
    def __init__(self, kind, detail, signature=None):
        self.kind = kind            # impl_vs_spec | impl_vs_model | model_vs_spec | impl_fault | coq_error
        self.detail = detail
        self.signature = signature or ""

    def as_dict(self):
        return {"kind": self.kind, "detail": self.detail, "signature": self.signature}


class Suite:
    """One correspondence suite of a property module."""
    name = "suite"
    preamble = ""                   # Coq imports for the generated cases file
    env = None                      # extra environment for the implementation worker
    per_case_timeout = 20.0
    mem_mb = 2048
    shard = 300

    def generate(self, rng, tier):   # -> list of JSON-able cases
        raise NotImplementedError

    def impl(self, case):            # runs in the worker
        raise NotImplementedError

    def coq_term(self, case):        # -> Gallina term (str) or None
        return None

    def judge(self, case, impl_res, coq_val):   # -> list[Finding]
        raise NotImplementedError

    def nontrivial(self, case, impl_res, coq_val):   # -> hashable key or None
        return None

    def describe(self, case):
        return case

    def dist(self, case):            # -> dict of dimension -> bucket, for the distribution report
        return {}


# ----------------------------------------------------------------------------- build
def sh(cmd, timeout=None, cwd=None):
    p = subprocess.run(cmd, shell=True, cwd=cwd, stdout=subprocess.PIPE, stderr=subprocess.STDOUT, text=True,
                       timeout=timeout)
    return p.returncode, p.stdout


def coq_files():
    out = []
    for sub in ("Base", "Gen", "Spec", "Model", "Proofs", "Props"):
        d = os.path.join(COQ, sub)
        if os.path.isdir(d):
            for f in sorted(os.listdir(d)):
                if f.endswith(".v"):
                    out.append(f"{sub}/{f}")
    return out


def ensure_makefile():
    files = coq_files()
    content = "-Q . DH\n" + "\n".join(files) + "\n"
    cp = os.path.join(COQ, "_CoqProject")
    changed = True
    try:
        changed = open(cp).read() != content
    except OSError:
        pass
    if changed or not os.path.exists(os.path.join(COQ, "Makefile")):
        with open(cp, "w") as fh:
            fh.write(content)
        rc, out = sh("coq_makefile -f _CoqProject -o Makefile", cwd=COQ, timeout=120)
        if rc != 0:
            raise RuntimeError("coq_makefile failed: " + out)


class BuildLock:
    def __enter__(self):
        os.makedirs(core.OUT, exist_ok=True)
        self.fh = open(os.path.join(core.OUT, ".build.lock"), "w")
        fcntl.flock(self.fh, fcntl.LOCK_EX)
        return self

    def __exit__(self, *a):
        fcntl.flock(self.fh, fcntl.LOCK_UN)
        self.fh.close()


def translate():
    rc, out = sh(f"{sys.executable} {VERIF}/tools/translate.py --repo {core.REPO} --out {COQ}/Gen", timeout=300)
    return rc == 0, out.strip()


GENREF = os.path.join(VERIF, "genref")


def genref_differs():
    """True when coq/Gen (generated from the tree under check) differs from the committed reference copy genref/
    (generated from the tree the proofs were developed against)."""
    if not os.path.isdir(GENREF):
        return False
    ref = sorted(f for f in os.listdir(GENREF) if f.endswith(".v"))
    cur = sorted(f for f in os.listdir(os.path.join(COQ, "Gen")) if f.endswith(".v"))
    if ref != cur:
        return True
    for f in ref:
        if open(os.path.join(GENREF, f)).read() != open(os.path.join(COQ, "Gen", f)).read():
            return True
    return False


def build_reference(targets):
    """The failing-input search needs an executable model.  When the model regenerated from the tree under check no
    longer builds (or its proofs break), build the development once more in out/refbuild with the REFERENCE generated
    files (genref/): the hand-written models then run exactly as they were proved, and the cases are judged against them.
    Returns the directory or None."""
    if not os.path.isdir(GENREF):
        return None
    dst = os.path.join(core.OUT, "refbuild")
    os.makedirs(dst, exist_ok=True)
    rc, out = sh(f"rsync -a --delete --exclude Gen/ {COQ}/ {dst}/", timeout=600)
    if rc != 0:
        return None
    gen = os.path.join(dst, "Gen")
    os.makedirs(gen, exist_ok=True)
    want = {f for f in os.listdir(GENREF) if f.endswith(".v")}
    for f in os.listdir(gen):
        if f.endswith(".v") and f not in want:
            for ext in (".v", ".vo", ".vos", ".vok", ".glob"):
                try:
                    os.unlink(os.path.join(gen, f[:-2] + ext))
                except OSError:
                    pass
    for f in want:
        src, d = os.path.join(GENREF, f), os.path.join(gen, f)
        try:
            same = open(src).read() == open(d).read()
        except OSError:
            same = False
        if not same:
            shutil.copyfile(src, d)
        os.utime(d)        # everything that depends on the generated files is rebuilt against the reference
    files = []
    for sub in ("Base", "Gen", "Spec", "Model", "Proofs", "Props"):
        p = os.path.join(dst, sub)
        if os.path.isdir(p):
            files += sorted(f"{sub}/{f}" for f in os.listdir(p) if f.endswith(".v"))
    with open(os.path.join(dst, "_CoqProject"), "w") as fh:
        fh.write("-Q . DH\n" + "\n".join(files) + "\n")
    rc, out = sh("coq_makefile -f _CoqProject -o Makefile", cwd=dst, timeout=120)
    if rc != 0:
        return None
    rc, out = sh("timeout 3000 make -j8 " + " ".join(targets), cwd=dst, timeout=3030)
    return dst if rc == 0 else None


def gen_deps(targets):
    """the generated files (Gen/X.v) the given .vo targets depend on, from coq_makefile's dependency file"""
    deps = {}
    try:
        for line in open(os.path.join(COQ, ".Makefile.d")):
            if ".vo " not in line or ":" not in line:
                continue
            lhs, rhs = line.split(":", 1)
            head = lhs.split()[0]
            if head.endswith(".vo"):
                deps[head] = [d for d in rhs.split() if d.endswith(".vo")]
    except OSError:
        return None
    seen, todo = set(), list(targets)
    while todo:
        t = todo.pop()
        if t in seen:
            continue
        seen.add(t)
        todo += deps.get(t, [])
    return {t[len("Gen/"):-3] + ".v" for t in seen if t.startswith("Gen/")}


def translator_failures_for(targets):
    """[(generator, message)] of the failed generators whose files the targets depend on (all of them when unknown)"""
    try:
        st = json.load(open(os.path.join(COQ, "Gen", ".status.json")))
    except (OSError, ValueError):
        return None
    needed = gen_deps(targets)
    out = []
    for g, msg in st.get("errors", {}).items():
        owned = st.get("owners", {}).get(g)
        if needed is None or not owned or needed & set(owned):
            out.append((g, msg))
    return out


def enclosing_statement(path, line):
    try:
        lines = open(path).read().split("\n")
    except OSError:
        return None
    for i in range(min(line, len(lines)) - 1, -1, -1):
        m = re.match(r"\s*(Theorem|Lemma|Example|Corollary|Definition|Fixpoint|Fact|Remark)\s+([\w']+)", lines[i])
        if m:
            return m.group(2)
    return None


def make_targets(targets, jobs=8, timeout=3000):
    """make the .vo targets (keep going); returns (ok, failures[list of dict], log)"""
    rc, out = sh(f"timeout {timeout} make -k -j{jobs} " + " ".join(targets), cwd=COQ, timeout=timeout + 30)
    if rc != 0 and ("missing separator" in out or "No rule to make target" in out):
        # stale or damaged generated build files: regenerate them once and retry
        for f in (".Makefile.d", "Makefile", "Makefile.conf", "_CoqProject"):
            try:
                os.unlink(os.path.join(COQ, f))
            except OSError:
                pass
        ensure_makefile()
        rc, out = sh(f"timeout {timeout} make -k -j{jobs} " + " ".join(targets), cwd=COQ, timeout=timeout + 30)
    failures = []
    for m in re.finditer(r'File "\./([^"]+)", line (\d+), characters [\d-]+:\s*\n(Error:(?:.*\n?){1,6})', out):
        f, ln, err = m.group(1), int(m.group(2)), m.group(3)
        failures.append({"file": f, "line": ln, "statement": enclosing_statement(os.path.join(COQ, f), ln),
                         "error": " ".join(err.split())[:400]})
    if rc != 0 and not failures:
        failures.append({"file": "?", "line": 0, "statement": None, "error": out.strip()[-600:]})
    return rc == 0, failures, out


def theorems_of(props_file):
    src = open(os.path.join(COQ, props_file)).read()
    return re.findall(r"^\s*(?:Theorem|Corollary)\s+([\w']+)", src, flags=re.M)


def print_assumptions(prop, props_file, thms):
    d = os.path.join(core.OUT, "assum")
    os.makedirs(d, exist_ok=True)
    path = os.path.join(d, f"A_{prop}.v")
    modname = "DH." + props_file[:-2].replace("/", ".")
    with open(path, "w") as fh:
        fh.write(f"Require Import {modname}.\n")
        for t in thms:
            fh.write(f'Print Assumptions {t}.\n')
    rc, out = sh(f"timeout 600 coqc -Q {COQ} DH {path}", timeout=630)
    res = {}
    if rc != 0:
        return None, out
    blocks = re.split(r"(?=Closed under the global context|Axioms:)", out)
    blocks = [b for b in blocks if b.strip()]
    for t, b in zip(thms, blocks):
        if b.startswith("Closed"):
            res[t] = []
        else:
            res[t] = re.findall(r"^([\w.']+)\s*:", b, flags=re.M)
    if len(blocks) != len(thms):
        return None, out
    return res, out


def forbidden_scan():
    hits = []
    for f in coq_files():
        if f.startswith("Gen/"):
            pass
        src = open(os.path.join(COQ, f)).read()
        src_nc = re.sub(r"\(\*.*?\*\)", " ", src, flags=re.S)
        for m in FORBIDDEN.finditer(src_nc):
            hits.append(f"{f}: {m.group(0)}")
    return hits


# ----------------------------------------------------------------------------- known findings
def load_known():
    path = os.path.join(VERIF, "KNOWN_FINDINGS.jsonl")
    out = []
    if os.path.exists(path):
        for line in open(path):
            line = line.strip()
            if line and not line.startswith("#"):
                out.append(json.loads(line))
    return out


def match_known(known, prop, finding):
    for k in known:
        if k.get("status") == "known" and k.get("property") == prop and k.get("signature") and \
                k["signature"] == finding.signature:
            return k
    return None


# ----------------------------------------------------------------------------- run
def load_corpus(prop):
    d = os.path.join(VERIF, "corpus", prop)
    out = []
    if os.path.isdir(d):
        for f in sorted(os.listdir(d)):
            if f.endswith(".json"):
                j = json.load(open(os.path.join(d, f)))
                out.append((j["suite"], j["case"], f))
    return out


def run_suite(mod, sname, suite, cases):
    t0 = time.time()
    impl = core.run_impl(mod.__name__, sname, cases, per_case_timeout=suite.per_case_timeout, mem_mb=suite.mem_mb,
                         env_extra=suite.env)
    t1 = time.time()
    terms = [suite.coq_term(c) for c in cases]
    idx = [i for i, t in enumerate(terms) if t is not None]
    vals = [None] * len(cases)
    if idx:
        got = core.eval_coq(f"{mod.PROPERTY}_{sname}", suite.preamble, [terms[i] for i in idx], shard=suite.shard)
        for i, v in zip(idx, got):
            vals[i] = v
    t2 = time.time()
    return impl, vals, (t1 - t0, t2 - t1)


def write_replay(prop, sname, case, findings, extra=None):
    d = os.path.join(core.OUT, "replays", prop)
    os.makedirs(d, exist_ok=True)
    body = {"property": prop, "suite": sname, "case": case, "findings": [f.as_dict() for f in findings]}
    if extra:
        body.update(extra)
    s = core.jdump(body)
    h = hashlib.sha256(s.encode()).hexdigest()[:12]
    path = os.path.join(d, f"{h}.json")
    with open(path, "w") as fh:
        fh.write(s)
    return path


def check(prop, tier, seed, replay=None, only_suite=None, ncases=None):
    t_start = time.time()
    mod = importlib.import_module(f"harness.props.{prop.lower()}")
    known = load_known()
    lines = []
    tie_broken = []          # list of (what, detail)
    info = {}

    # 1. translator + 2. build
    with BuildLock():
        ok, tout = translate()
        info["translate"] = tout[-300:]
        ensure_makefile()
        model_targets = [t[:-2] + ".vo" for t in getattr(mod, "MODEL_FILES", [])]
        props_target = mod.PROPS_FILE[:-2] + ".vo"
        mok, mfail, mlog = (True, [], "")
        if model_targets:
            mok, mfail, mlog = make_targets(model_targets)
        pok, pfail, plog = make_targets([props_target])
        if not ok:
            # only the generators this property's theorems and models depend on count for it
            mine = translator_failures_for(model_targets + [props_target])
            if mine is None:
                tie_broken.append(("translator", tout[-400:]))
            else:
                for g, msg in mine:
                    tie_broken.append(("translator", f"{g}: {msg}"[:400]))
                ok = bool(mine) is False
    for f in pfail:
        tie_broken.append(("proof", f"{f['file']}:{f['line']} {f['statement']}: {f['error']}"))
    if not mok and not pfail:
        for f in mfail:
            tie_broken.append(("model-build", f"{f['file']}:{f['line']} {f['statement']}: {f['error']}"))
    # the regenerated model does not build / prove: search for a failing input with the reference model
    if (not mok or not pok or not ok) and replay is None and genref_differs():
        with BuildLock():
            ref = build_reference(model_targets + [props_target])
        if ref:
            core.COQ_EVAL = ref
            info["reference_model"] = "cases are evaluated against out/refbuild (generated files from genref/)"
    thms = theorems_of(mod.PROPS_FILE)
    assum = None
    discharged = 0
    if pok:
        assum, aout = print_assumptions(prop, mod.PROPS_FILE, thms)
        if assum is None:
            tie_broken.append(("assumptions", aout[-400:]))
        else:
            for t, ax in assum.items():
                bad = [a for a in ax if a not in ALLOWED_AXIOMS and a not in getattr(mod, "ALLOWED_AXIOMS", ())]
                if bad:
                    tie_broken.append(("axioms", f"{t} depends on {bad}"))
                else:
                    discharged += 1
    hits = forbidden_scan()
    if hits:
        tie_broken.append(("forbidden", "; ".join(hits[:10])))
    # thorough tier: independent re-check of the compiled property file and everything it depends on
    coqchk = None
    if tier == "thorough" and pok and replay is None:
        modname = "DH." + mod.PROPS_FILE[:-2].replace("/", ".")
        rc, out = sh(f"timeout 1500 coqchk -silent -o -Q {COQ} DH {modname}", timeout=1530)
        m = re.search(r"\* Axioms:(.*?)\n\s*\n\* Constants", out, flags=re.S)
        axioms = " ".join(m.group(1).split()) if m else "?"
        coqchk = {"rc": rc, "axioms": axioms}
        if rc != 0:
            tie_broken.append(("coqchk", out.strip()[-400:]))
        elif axioms != "<none>" and not getattr(mod, "COQCHK_AXIOMS_OK", False):
            tie_broken.append(("coqchk-axioms", axioms[:400]))

    # static, model-level extras (inventories etc.)
    static_findings = []
    if hasattr(mod, "static_check"):
        static_findings = mod.static_check({"tier": tier, "seed": seed, "tie_broken": tie_broken}) or []

    # 3. correspondence
    rng_master = core.Rng(seed)
    evaluations = 0
    nontrivial = set()
    samples = []
    dist = {}
    all_findings = []        # (suite, case, [Finding])
    timing = {}
    suites = mod.SUITES
    corpus = load_corpus(prop) if replay is None else []
    if replay is not None:
        rj = json.load(open(replay))
        todo = {rj["suite"]: [rj["case"]]} if rj.get("case") is not None else {}
    else:
        todo = {}
        for sname, suite in suites.items():
            if only_suite and sname != only_suite:
                continue
            rng = core.Rng(rng_master.getrandbits(64))
            cs = [c for (s, c, _) in corpus if s == sname]
            ncorp = len(cs)
            gen = suite.generate(rng, tier)
            if ncases:
                gen = gen[:ncases]
            todo[sname] = cs + gen
            info[f"{sname}.corpus"] = ncorp
    for sname, cases in todo.items():
        suite = suites[sname]
        if not cases:
            continue
        impl, vals, tm = run_suite(mod, sname, suite, cases)
        timing[sname] = {"impl_s": round(tm[0], 2), "coq_s": round(tm[1], 2), "cases": len(cases)}
        for i, c in enumerate(cases):
            if isinstance(impl[i], dict) and impl[i].get("outcome") == "skipped":
                info[f"{sname}.skipped"] = info.get(f"{sname}.skipped", 0) + 1
                continue
            evaluations += 1
            v = vals[i]
            if isinstance(v, tuple) and v and v[0] == "coq-error":
                fs = [Finding("coq_error", v[1][-300:])]
            else:
                try:
                    fs = suite.judge(c, impl[i], v) or []
                except Exception as e:  # noqa: BLE001
                    fs = [Finding("coq_error", f"judge failed: {type(e).__name__}: {e}")]
            if fs:
                all_findings.append((sname, c, fs))
            try:
                k = suite.nontrivial(c, impl[i], v)
            except Exception:  # noqa: BLE001
                k = None
            if k is not None:
                nontrivial.add((sname, k))
            for dk, dv in suite.dist(c).items():
                dist.setdefault(f"{sname}.{dk}", {}).setdefault(str(dv), 0)
                dist[f"{sname}.{dk}"][str(dv)] += 1
            if len(samples) < 3 and i in (0, len(cases) // 2, len(cases) - 1):
                samples.append({"suite": sname, "case": suite.describe(c)})
            if replay is not None:
                print(f"--- replay suite={sname}")
                print("case:", core.jdump(suite.describe(c))[:3000])
                print("implementation:", str(impl[i])[:1500])
                print("model/spec (Coq):", str(v)[:1500])
                for f in fs:
                    print("finding:", f.kind, f.detail[:600])

    # 4. verdict
    violations = 0
    known_hits = 0
    failing = []
    for sname, c, fs in all_findings:
        spec_f = [f for f in fs if f.kind in ("impl_vs_spec", "impl_fault")]
        if spec_f:
            failing.append((sname, c, fs))
        else:
            for f in fs:
                tie_broken.append((f.kind, f"suite {sname}: {f.detail[:300]}"))
    for f in static_findings:
        if f.kind in ("impl_vs_spec", "impl_fault"):
            failing.append(("static", None, [f]))
        else:
            tie_broken.append((f.kind, f.detail[:300]))
    reported = set()
    for sname, c, fs in failing:
        f0 = [f for f in fs if f.kind in ("impl_vs_spec", "impl_fault")][0]
        k = match_known(known, prop, f0)
        if k:
            key = ("known", k["signature"])
            if key not in reported:
                reported.add(key)
                lines.append(f"KNOWN-FINDING: property={prop} {k.get('what', k['signature'])}")
            known_hits += 1
            continue
        key = ("viol", f0.signature or f0.detail[:80])
        if key in reported:
            violations += 1
            continue
        reported.add(key)
        path = write_replay(prop, sname, c, fs, {"tie_broken": [list(t) for t in tie_broken][:5]})
        lines.append(f"VIOLATION property={prop} replay={path}")
        violations += 1
    if not any(l.startswith("VIOLATION") for l in lines) and tie_broken:
        path = write_replay(prop, "none", None, [], {
            "no_failing_input_found": True,
            "broken": [{"what": w, "detail": d} for w, d in tie_broken][:20]})
        lines.append(f"VIOLATION property={prop} replay={path} no-failing-input-found")
        violations += 1

    wall = time.time() - t_start
    # 5. evidence
    if replay is None:
        meta = mod.META
        ev = {
            "property_id": prop,
            "tier": tier,
            "seed": seed,
            "level": meta.get("category", "proof"),
            "coverage": {
                "obligations": len(thms),
                "discharged": discharged,
                "checker_cmd": f"make -C coq {props_target} ; coqc Print Assumptions for each theorem of {mod.PROPS_FILE}",
                "trusted_base": meta.get("trusted_base", []) + [
                    "Coq 8.16.1 kernel incl. vm_compute (no native_compute)",
                    "Print Assumptions: " + ("; ".join(f"{t}: {'closed' if not a else ','.join(a)}"
                                                      for t, a in (assum or {}).items()) or "not available"),
                    "tools/translate.py (Gen/*.v)", "correspondence harness (harness/*.py)"],
                "theorems": thms,
                "evaluations": evaluations,
                "distinct_nontrivial": len(nontrivial),
                "rule": meta.get("rule", ""),
                "samples": samples or [{"note": "no cases"}],
                "traces_validated_against_impl": evaluations,
                "disagreements_checked": len(all_findings),
                "distribution": dist,
                "timing": timing,
                "tie_broken": [list(t) for t in tie_broken][:10],
                "known_findings_hit": known_hits,
                "coqchk": coqchk,
            },
            "assumptions": meta.get("assumptions", []),
            "wall_s": round(wall, 2),
            "violations": violations,
        }
        ev["coverage"].update(info)
        os.makedirs(os.path.join(VERIF, "evidence"), exist_ok=True)
        with open(os.path.join(VERIF, "evidence", f"{prop}.json"), "w") as fh:
            json.dump(ev, fh, indent=1, sort_keys=True, default=str)
    for l in lines:
        print(l)
    status = "FAIL" if violations else "ok"
    print(f"[{prop}] {status}: theorems {discharged}/{len(thms)} closed, {evaluations} cases, "
          f"{len(nontrivial)} distinct non-trivial, {len(all_findings)} disagreements, "
          f"{len(tie_broken)} tie breaks, {wall:.1f}s")
    if tie_broken and replay is None:
        for w, d in tie_broken[:8]:
            print(f"   broken[{w}]: {d[:300]}")
    return 1 if violations else 0


def main():
    ap = argparse.ArgumentParser()
    ap.add_argument("prop")
    ap.add_argument("--tier", default=os.environ.get("VERIF_TIER", "quick"), choices=["quick", "thorough"])
    ap.add_argument("--replay")
    ap.add_argument("--suite")
    ap.add_argument("--n", type=int)
    args = ap.parse_args()
    seed = int(os.environ.get("VERIF_SEED", "1") or "1")
    sys.exit(check(args.prop.upper(), args.tier, seed, replay=args.replay, only_suite=args.suite, ncases=args.n))


if __name__ == "__main__":
    main()
