"""Worker: runs the implementation side of a suite on cases[start:], one result
pickled per case, under an address-space limit and a per-case alarm.  If a case
hangs the alarm kills the process; the driver records 'hang' and restarts after it."""
import faulthandler
import importlib
import os
import pickle
import resource
import signal
import sys
import traceback


def main():
    module, suite, cpath, rpath, start, mem_mb, tmo = sys.argv[1:8]
    start = int(start)
    mem = int(mem_mb) * 1024 * 1024
    try:
        resource.setrlimit(resource.RLIMIT_AS, (mem, mem))
    except (ValueError, OSError):
        pass
    tmo = float(tmo)
    mod = importlib.import_module(module)
    st = mod.SUITES[suite]
    with open(cpath, "rb") as fh:
        cases = pickle.load(fh)

    def on_alarm(signum, frame):
        sys.stdout.write("WORKER-TIMEOUT\n")
        sys.stdout.flush()
        os._exit(124)

    signal.signal(signal.SIGALRM, on_alarm)
    signal.signal(signal.SIGPROF, on_alarm)
    inband = 0          # resource faults that impl itself reported (a MemoryError it caught): they count against the budget too
    with open(rpath, "ab") as out:
        for i in range(start, len(cases)):
            if inband >= 8:
                sys.stdout.write("WORKER-FAULT-BUDGET\n")
                sys.stdout.flush()
                break
            # the per-case limit counts CPU time of this process (a busy machine does not turn a slow case into a "hang");
            # wall-clock time is limited too, four times as generously
            signal.setitimer(signal.ITIMER_PROF, tmo)
            signal.setitimer(signal.ITIMER_REAL, 4 * tmo)
            # second line of defence: a C-level watchdog that fires even when the interpreter is stuck inside one long C call
            # (a multi-gigabyte bytes operation) and cannot run the Python-level signal handler
            faulthandler.dump_traceback_later(4 * tmo + 15, exit=True)
            try:
                r = st.impl(cases[i])
            except MemoryError:
                r = {"outcome": "oom"}
            except RecursionError as e:
                r = {"outcome": "exc", "exc": "RecursionError", "msg": str(e)[:200]}
            except BaseException as e:  # noqa: BLE001
                if isinstance(e, (KeyboardInterrupt, SystemExit)):
                    raise
                tb = traceback.extract_tb(e.__traceback__)
                where = ""
                for fr in reversed(tb):
                    if "dissect" in fr.filename:
                        where = f"{os.path.basename(fr.filename)}:{fr.lineno}:{fr.name}"
                        break
                r = {"outcome": "exc", "exc": type(e).__name__, "msg": str(e)[:300], "where": where}
            signal.setitimer(signal.ITIMER_PROF, 0)
            signal.setitimer(signal.ITIMER_REAL, 0)
            faulthandler.cancel_dump_traceback_later()
            if isinstance(r, dict) and r.get("outcome") in ("oom", "hang", "crash"):
                inband += 1
            pickle.dump(r, out)
            out.flush()


if __name__ == "__main__":
    main()
