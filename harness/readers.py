"""Shared judging logic for the block-mapped reader suites (C01–C08, C10, C13)."""
from __future__ import annotations

from harness import core
from harness.main import Finding


def outcome_of(r):
    """implementation request result -> ('ok', bytes) | ('exc', name, where) | ('hang',) ..."""
    if isinstance(r, (bytes, bytearray)):
        return ("ok", bytes(r))
    if isinstance(r, dict):
        if r.get("outcome") == "exc":
            return ("exc", r.get("exc"), r.get("where", ""), r.get("msg", ""))
        return (r.get("outcome", "crash"), r.get("detail", ""))
    return ("crash", repr(r)[:100])


def call(fn, *a):
    """Run one implementation request, catching exceptions into a result dict (worker side)."""
    import os
    import traceback
    try:
        return fn(*a)
    except MemoryError:
        raise
    except Exception as e:  # noqa: BLE001
        where = ""
        for fr in reversed(traceback.extract_tb(e.__traceback__)):
            if "dissect" in fr.filename:
                where = f"{os.path.basename(fr.filename)}:{fr.name}"
                break
        return {"outcome": "exc", "exc": type(e).__name__, "msg": str(e)[:200], "where": where}


def judge_read(label, impl_r, model_res, spec_bytes, want_len, mat, exact_len=True, sig=""):
    """Compare one read three ways.

    impl_r      what the implementation returned for the request
    model_res   ('ok', plan) | ('err',) | ('fuel',) | None (no model for this request)
    spec_bytes  the want_len bytes the specification defines for the request, or None
    want_len    number of leading bytes that must equal the spec (the rest, if any, is slack)
    mat         function plan -> bytes (materialises a model plan with the case's backing content)
    exact_len   implementation must return exactly want_len bytes (stream-level) rather than >= want_len
    """
    fs = []
    io = outcome_of(impl_r)
    if isinstance(spec_bytes, list):       # a spec plan (older call shape): materialise it
        spec_bytes = mat(spec_bytes)[:want_len]
    if spec_bytes is not None and len(spec_bytes) != want_len:
        fs.append(Finding("coq_error", f"{label}: spec plan yields {len(spec_bytes)} bytes, wanted {want_len}"))
        spec_bytes = None
    model_bytes = None
    if model_res is not None:
        if model_res[0] == "fuel":
            fs.append(Finding("model_vs_spec", f"{label}: model ran out of fuel", sig + ":fuel"))
        elif model_res[0] == "ok":
            model_bytes = mat(core.plan_of(model_res[1]))
    # impl vs spec
    if spec_bytes is not None:
        if io[0] == "ok":
            got = io[1]
            bad = (len(got) != want_len) if exact_len else (len(got) < want_len)
            if bad:
                fs.append(Finding("impl_vs_spec", f"{label}: implementation returned {len(got)} bytes, "
                                  f"specification {want_len}", sig + ":len"))
            elif got[:want_len] != spec_bytes:
                d = core.first_diff(got[:want_len], spec_bytes)
                fs.append(Finding("impl_vs_spec", f"{label}: bytes differ from the specification at +{d} "
                                  f"(impl {got[d:d+8].hex()} spec {spec_bytes[d:d+8].hex()})", sig + ":bytes"))
        elif io[0] == "exc":
            fs.append(Finding("impl_vs_spec", f"{label}: implementation raised {io[1]} at {io[2]} ({io[3][:80]}) "
                              f"where the specification defines {want_len} bytes", sig + f":exc:{io[1]}"))
        else:
            fs.append(Finding("impl_fault", f"{label}: implementation {io[0]} {io[1:]}", sig + f":{io[0]}"))
    # impl vs model
    if model_res is not None and model_res[0] != "fuel":
        if model_res[0] == "ok" and io[0] == "ok":
            if io[1] != model_bytes:
                d = core.first_diff(io[1], model_bytes)
                fs.append(Finding("impl_vs_model", f"{label}: implementation bytes differ from the model plan at +{d} "
                                  f"(lengths {len(io[1])}/{len(model_bytes)})", sig + ":model-bytes"))
        elif model_res[0] == "ok" and io[0] == "exc":
            fs.append(Finding("impl_vs_model", f"{label}: implementation raised {io[1]} at {io[2]}, model returns a plan",
                              sig + ":model-ok-impl-exc"))
        elif model_res[0] == "err" and io[0] == "ok":
            fs.append(Finding("impl_vs_model", f"{label}: model predicts an exception, implementation returned "
                              f"{len(io[1])} bytes", sig + ":model-err-impl-ok"))
    # model vs spec
    if model_bytes is not None and spec_bytes is not None:
        if model_bytes[:want_len] != spec_bytes:
            fs.append(Finding("model_vs_spec", f"{label}: model plan differs from the specification", sig + ":mvs"))
    if model_res is not None and model_res[0] == "err" and spec_bytes is not None:
        fs.append(Finding("model_vs_spec", f"{label}: model predicts an exception where the spec defines bytes",
                          sig + ":mvs-err"))
    return fs


# ----------------------------------------------------------------------------- generic reader suite
from harness.main import Suite  # noqa: E402


class ReaderSuite(Suite):
    """Common driver for byte-range reader suites.

    A case is a dict with at least: size (virtual size in bytes), reqs (list of [kind, a, b]) where kind is
      'raw'     -> stream._read(a, b)          back-end call (a aligned as the subclass requires)
      'bytes'   -> stream.seek(a); stream.read(b)   (b = -1 reads to the end)
      'sectors' -> reader.read_sectors(a, b)   (when sector_iface(case) is not None)
    Subclasses provide: build_files(case), open_impl(case, files), coq_img(case) (Gallina term for the image),
    model_term(case, kind, a, b) (term of type res (list seg), or None), spec_fn(case) (term of type Z -> src, may
    mention img), granule(case), materialiser(case, files), sector_size(case)."""

    fmt = "fmt"
    shard = 25

    # -- hooks
    def build_files(self, case):
        raise NotImplementedError

    def open_impl(self, case, files):
        raise NotImplementedError

    def coq_img(self, case):
        raise NotImplementedError

    def model_term(self, case, kind, a, b):
        return None

    def spec_fn(self, case):
        raise NotImplementedError

    def granule(self, case):
        return 512

    def sector_size(self, case):
        return 512

    def materialiser(self, case, files):
        return lambda p: core.materialise(p, file=files.get("file"), data=files.get("data"))

    def sectors_call(self, obj, a, b):
        return obj.read_sectors(a, b)

    # -- machinery
    def impl(self, case):
        files = self.build_files(case)
        out = {"open": None, "reqs": []}
        try:
            v = keep_alive(self.open_impl(case, files))
        except Exception as e:  # noqa: BLE001
            out["open"] = {"outcome": "exc", "exc": type(e).__name__, "msg": str(e)[:200]}
            return out
        out["size"] = int(v.size)
        for k, (kind, a, b) in enumerate(case["reqs"]):
            # the file objects belong to the caller, who may use them between two reads of the disk (hashing the
            # container, another reader object on the same handle): every access positions the handle itself
            for j, fo in enumerate(files.values()):
                if hasattr(fo, "seek") and hasattr(fo, "size") and k % 2 == 1:
                    try:
                        fo.seek((a * 7 + k * 4099 + j) % max(1, int(fo.size)))
                    except Exception:  # noqa: BLE001
                        pass
            if kind == "sectors":
                out["reqs"].append(call(self.sectors_call, v, a, b))
            elif kind == "raw":
                out["reqs"].append(call(v._read, a, b))
            else:
                def f(a=a, b=b):
                    v.seek(a)
                    r = v.read(b)
                    if v.tell() != a + len(r):
                        return {"outcome": "exc", "exc": "PositionError", "where": "stream",
                                "msg": f"tell {v.tell()} after reading {len(r)} at {a}"}
                    return r
                out["reqs"].append(call(f))
        return out

    def spec_range(self, case, kind, a, b):
        """-> (granule-aligned start byte, granule count, byte skip, want_len)"""
        size = case["size"]
        g = self.granule(case)
        if kind == "sectors":
            ss = self.sector_size(case)
            a, b = a * ss, b * ss
            want = b
        elif kind == "raw":
            want = max(0, min(b, size - a))
        else:
            if a >= size:
                return 0, 0, 0, 0
            want = size - a if b < 0 else min(b, size - a)
        g0 = a // g
        g1 = (a + want + g - 1) // g
        return g0 * g, g1 - g0, a - g0 * g, want

    def coq_term(self, case):
        items = []
        g = self.granule(case)
        for kind, a, b in case["reqs"]:
            start, cnt, _, _ = self.spec_range(case, kind, a, b)
            spec = f"spec_plan {self.spec_fn(case)} {g} {core.Z(start)} {core.Z(cnt)}"
            m = self.model_term(case, kind, a, b)
            items.append(f"({m if m is not None else '(@Err (list seg))'}, {spec})")
        return f"let img := {self.coq_img(case)} in [" + "; ".join(items) + "]"

    def judge(self, case, impl_res, coq_val):
        fs = []
        fmt = self.fmt
        if impl_res.get("outcome"):
            return [Finding("impl_fault", f"implementation {impl_res['outcome']}: {impl_res.get('detail', '')}",
                            f"{fmt}:whole:" + impl_res["outcome"])]
        if impl_res["open"] is not None:
            return [Finding("impl_vs_spec", f"open failed on a well-formed image: {impl_res['open']}", f"{fmt}:open:exc")]
        if impl_res["size"] != case["size"]:
            fs.append(Finding("impl_vs_spec", f"size {impl_res['size']} != stored {case['size']}", f"{fmt}:size"))
        files = self.build_files(case)
        mat = self.materialiser(case, files)
        for (kind, a, b), r, cv in zip(case["reqs"], impl_res["reqs"], coq_val):
            _, model_v, spec_v = cv
            start, cnt, skip, want = self.spec_range(case, kind, a, b)
            spec_plan = core.plan_of(spec_v)
            label = f"{kind}({a},{b})"
            sig = f"{fmt}:{case.get('kind', '')}:{kind}"
            full = mat(spec_plan)[skip:skip + want]
            has_model = self.model_term(case, kind, a, b) is not None
            fs += judge_read(label, r, core.res_of(model_v) if has_model else None, full, want, mat,
                             exact_len=(kind != "raw"), sig=sig)
        return fs

    def nontrivial(self, case, impl_res, coq_val):
        kinds = set()
        multi = False
        for cv in coq_val or []:
            plan = core.plan_of(cv[2])
            if len(plan) >= 2:
                multi = True
            kinds |= {s[0] for s in plan}
        if multi or len(kinds) >= 2:
            return core.sha(core.jdump(case).encode())
        return None


def _near_boundary(rng, size, unit, align=1):
    """an offset shortly before (or at) a unit boundary inside the disk"""
    nunits = max(1, (size + unit - 1) // unit)
    k = rng.randrange(0, nunits + 1)
    back = rng.weighted([(0, 1), (rng.randint(1, 16) * align, 3), (rng.randint(1, max(1, min(unit, 65536) // align)) * align, 3)])
    a = k * unit - back
    a = max(0, min(a, max(0, size - 1)))
    return a - a % align


def gen_requests(rng, size, unit, n=6, sector=None, raw_align=1, max_bytes=4_000_000, big=0):
    """Requests against a disk of `size` bytes with allocation unit `unit` bytes.
    sector: sector size when the reader has a read_sectors interface; raw_align: alignment of back-end offsets.
    Half of the requests start shortly before a unit boundary so that crossings are common even for huge units."""
    reqs = []
    kinds = [("raw", 3), ("bytes", 4)] + ([("sectors", 3)] if sector else [])
    span_cap = max(1, min(3 * unit, max_bytes))
    for _ in range(n):
        k = rng.weighted(kinds)
        near = rng.chance(0.5)
        if k == "sectors":
            nsect = max(1, (size + sector - 1) // sector)
            s = (_near_boundary(rng, size, unit, sector) // sector) if near else rng.randrange(0, nsect)
            s = min(s, nsect - 1)
            spu = max(1, unit // sector)
            span = rng.weighted([(1, 1), (spu, 2), (2 * spu + 1, 3), (nsect, 1), (40, 2)])
            cnt = max(1, min(nsect - s, rng.randint(1, max(1, span)), max(1, max_bytes // sector)))
            reqs.append(["sectors", s, cnt])
        elif k == "raw":
            a = _near_boundary(rng, size, unit, raw_align) if near else rng.randrange(0, max(1, size))
            a -= a % raw_align
            ln = rng.weighted([(rng.randint(1, span_cap), 3), (rng.randint(1, 700), 1),
                               (rng.randint(1, 70000), 2),
                               (min(max_bytes, size - a + rng.randint(0, min(2 * unit, max_bytes) + 8192)), 2)])
            if raw_align > 1:
                ln = max(raw_align, ln - ln % raw_align)
            reqs.append(["raw", a, max(1, ln)])
        else:
            a = _near_boundary(rng, size, unit) if near else rng.randrange(0, size + 3)
            ln = rng.weighted([(rng.randint(0, 600), 2), (rng.randint(0, span_cap + 100), 4), (-1, 1), (size, 1),
                               (rng.randint(1, 70000), 2)])
            if size - a > max_bytes and (ln < 0 or ln > max_bytes):
                ln = max_bytes
            reqs.append(["bytes", a, ln])
    if big and size > max_bytes and rng.chance(0.5):
        # one large single read: long zero / data runs are only exercised by requests above the usual cap
        a = _near_boundary(rng, size, unit, raw_align) if rng.chance(0.5) else rng.randrange(0, size)
        a -= a % raw_align
        ln = min(size - a, rng.randint(min(big, unit // 2), big))
        ln -= ln % raw_align
        if ln > 0:
            reqs[rng.randrange(len(reqs))] = [rng.pick(["raw", "bytes"]), a, ln]
    # history on one object: the same back-end offset first with a short, then with a longer length (anything
    # remembered per offset must not depend on the first request), and one position read twice
    a = _near_boundary(rng, size, unit, raw_align) if rng.chance(0.6) else rng.randrange(0, max(1, size))
    a -= a % max(raw_align, 512) if size > 512 else a % raw_align
    a = max(0, min(a, size - 1))
    a -= a % raw_align
    short = max(raw_align, 512 - 512 % raw_align if raw_align <= 512 else raw_align)
    long_ = min(max_bytes, max(short * 2, rng.pick([8192, 32768, 65536, 3 * unit])))
    long_ -= long_ % raw_align
    reqs.append(["raw", a, short])
    reqs.append(["raw", a, max(raw_align, long_)])
    reqs.append(["raw", a, short])
    # ... and a read that stops inside a unit, a read somewhere else, then the continuation exactly where the first stopped
    if size > 4 * max(raw_align, 512):
        g = max(raw_align, 512)
        a1 = rng.randrange(0, max(1, (size - 2 * g) // g)) * g
        n1 = g * rng.randint(1, max(1, min(unit // g // 2, 16)))
        n1 = min(n1, max(g, (size - a1) // 2 // g * g), 1 << 20)
        other = rng.randrange(0, max(1, size // g)) * g
        reqs.append(["raw", a1, n1])
        reqs.append(["raw", other, min(g, size - other)])
        if size - (a1 + n1) > 0:
            reqs.append(["raw", a1 + n1, max(g, min(size - a1 - n1, n1 + unit, max_bytes, 2 << 20) // g * g)])
    return reqs


_ALIVE = []


def keep_alive(obj, n=2):
    """worker side: the last n reader objects stay referenced, so that a reader opened next finds its predecessors alive
    (whatever is shared through weak references, or keyed by identifiers that two images can have in common)"""
    _ALIVE.append(obj)
    del _ALIVE[:-n]
    return obj


def with_twins(cases, rng, every=12, relaid=None):
    """after every few images, the same image again with other content (same layout, same table entries, another salt):
    two objects alive in one worker process whose tables and offsets coincide must not see each other's data — whatever a
    reader memoises per block number, file offset or table identity"""
    import copy
    out = []
    for i, c in enumerate(cases):
        out.append(c)
        if i % every == 0 and isinstance(c.get("salt"), int):
            t = copy.deepcopy(c)
            t["salt"] = (c["salt"] ^ 0x2B5A5A5) & ((1 << 30) - 1)
            out.append(t)
            out.append(copy.deepcopy(c))          # ... and the first one once more, after its twin
            if relaid is not None:
                r = relaid(copy.deepcopy(c))      # ... and the same image laid out differently (same header identifiers and
                if r is not None:                 # counts, another block map: a defragmented copy)
                    out.append(r)
    return out


def under_O(suite, n=10):
    """the same suite with the worker interpreter started under PYTHONOPTIMIZE=1 (python -O: assert statements are
    stripped), on the first n generated cases: behaviour must not depend on an assert being executed"""
    base = type(suite)

    class Optimised(base):
        name = suite.name + "_pyO"
        env = dict(getattr(suite, "env", None) or {}, PYTHONOPTIMIZE="1")

        def generate(self, rng, tier):
            return base.generate(self, rng, tier)[: (3 * n if tier == "thorough" else n)]
    inst = Optimised.__new__(Optimised)
    inst.__dict__.update(suite.__dict__)
    return inst


_DEBUG_SINK = []


def _debug_on():
    """worker side: every logger of the library at DEBUG, records formatted into a bounded in-memory sink (what an
    application that passes -v, or DISSECT_LOG_<MODULE>=DEBUG in the environment, gets)"""
    import importlib
    import logging
    import pkgutil

    import dissect.hypervisor as pkg
    if not _DEBUG_SINK:
        for m in pkgutil.walk_packages(pkg.__path__, pkg.__name__ + "."):
            try:
                importlib.import_module(m.name)
            except Exception:  # noqa: BLE001
                pass

        class Sink(logging.Handler):
            def emit(self, record):
                _DEBUG_SINK.append(len(self.format(record)))
                del _DEBUG_SINK[:-8]
        root = logging.getLogger("dissect")
        root.addHandler(Sink())
        root.propagate = False
        _DEBUG_SINK.append(0)
    for name, lg in list(logging.Logger.manager.loggerDict.items()):
        if name.startswith("dissect") and isinstance(lg, logging.Logger):
            lg.setLevel(logging.DEBUG)


def under_debug(suite, n=8):
    """the same suite with diagnostic logging switched on (environment DISSECT_LOG_<MODULE>=DEBUG for every module, and
    every logger of the library set to DEBUG with a formatting handler), on the first n generated cases: what a reader
    returns must not depend on whether its diagnostics are evaluated"""
    base = type(suite)
    mods = ["VHDX", "VMDK", "VHD", "VDI", "QCOW2", "HDD", "HDS", "HYPERV", "VMX", "OVF", "VBOX", "PVS", "ENVELOPE", "VMTAR"]

    class Debugged(base):
        name = suite.name + "_dbg"
        env = dict(getattr(suite, "env", None) or {}, **{"DISSECT_LOG_" + m: "DEBUG" for m in mods})

        def generate(self, rng, tier):
            return base.generate(self, rng, tier)[: (3 * n if tier == "thorough" else n)]

        def impl(self, case):
            _debug_on()
            return base.impl(self, case)
    inst = Debugged.__new__(Debugged)
    inst.__dict__.update(suite.__dict__)
    return inst


def under_bufsize(suite, size, n=8):
    """the same suite with DISSECT_STREAM_BUFFER_SIZE=size (any multiple of 512 is valid: 1536, 12288 ... need not divide
    or be divided by the image's allocation unit), on the first n generated cases"""
    base = type(suite)

    class Buffered(base):
        name = f"{suite.name}_buf{size}"
        env = dict(getattr(suite, "env", None) or {}, DISSECT_STREAM_BUFFER_SIZE=str(size))

        def generate(self, rng, tier):
            # (the stream contract of a reader is stated for buffer sizes that are multiples of ITS sector size: a 4096-byte
            # sector VHDX under a 1536-byte buffer is outside it, DESIGN.md §6 C08)
            cs = [c for c in base.generate(self, rng, tier) if size % int(c.get("sector_size") or 512) == 0]
            return cs[: (3 * n if tier == "thorough" else n)]
    inst = Buffered.__new__(Buffered)
    inst.__dict__.update(suite.__dict__)
    return inst
