"""Shared judging logic for the block-mapped reader suites (C01–C08, C10, C13)."""
from __future__ import annotations

from harness import core
from harness.main import Finding


def outcome_of(r):
    """implementation request result -> ('ok', bytes) | ('exc', name, where) | ('hang',) ..."""
    if isinstance(r, (bytes, bytearray)):
        return ("ok", bytes(r))
    if isinstance(r, dict):
        if r.get("outcome") == "exc":
            return ("exc", r.get("exc"), r.get("where", ""), r.get("msg", ""))
        return (r.get("outcome", "crash"), r.get("detail", ""))
    return ("crash", repr(r)[:100])


def call(fn, *a):
    """Run one implementation request, catching exceptions into a result dict (worker side)."""
    import os
    import traceback
    try:
        return fn(*a)
    except MemoryError:
        raise
    except Exception as e:  # noqa: BLE001
        where = ""
        for fr in reversed(traceback.extract_tb(e.__traceback__)):
            if "dissect" in fr.filename:
                where = f"{os.path.basename(fr.filename)}:{fr.name}"
                break
        return {"outcome": "exc", "exc": type(e).__name__, "msg": str(e)[:200], "where": where}


def judge_read(label, impl_r, model_res, spec_plan, want_len, mat, exact_len=True, sig=""):
    """Compare one read three ways.

    impl_r     what the implementation returned for the request
    model_res  ('ok', plan) | ('err',) | ('fuel',) | None (no model for this request)
    spec_plan  plan covering at least want_len bytes according to the specification, or None
    want_len   number of leading bytes that must equal the spec (the rest, if any, is slack)
    mat        function plan -> bytes
    exact_len  implementation must return exactly want_len bytes (stream-level) rather than >= want_len
    """
    fs = []
    io = outcome_of(impl_r)
    spec_bytes = None
    if spec_plan is not None:
        spec_bytes = mat(spec_plan)[:want_len]
        if len(spec_bytes) != want_len:
            fs.append(Finding("coq_error", f"{label}: spec plan yields {len(spec_bytes)} bytes, wanted {want_len}"))
            spec_bytes = None
    model_bytes = None
    if model_res is not None:
        if model_res[0] == "fuel":
            fs.append(Finding("model_vs_spec", f"{label}: model ran out of fuel", sig + ":fuel"))
        elif model_res[0] == "ok":
            model_bytes = mat(core.plan_of(model_res[1]))
    # impl vs spec
    if spec_bytes is not None:
        if io[0] == "ok":
            got = io[1]
            bad = (len(got) != want_len) if exact_len else (len(got) < want_len)
            if bad:
                fs.append(Finding("impl_vs_spec", f"{label}: implementation returned {len(got)} bytes, "
                                  f"specification {want_len}", sig + ":len"))
            elif got[:want_len] != spec_bytes:
                d = core.first_diff(got[:want_len], spec_bytes)
                fs.append(Finding("impl_vs_spec", f"{label}: bytes differ from the specification at +{d} "
                                  f"(impl {got[d:d+8].hex()} spec {spec_bytes[d:d+8].hex()})", sig + ":bytes"))
        elif io[0] == "exc":
            fs.append(Finding("impl_vs_spec", f"{label}: implementation raised {io[1]} at {io[2]} ({io[3][:80]}) "
                              f"where the specification defines {want_len} bytes", sig + f":exc:{io[1]}"))
        else:
            fs.append(Finding("impl_fault", f"{label}: implementation {io[0]} {io[1:]}", sig + f":{io[0]}"))
    # impl vs model
    if model_res is not None and model_res[0] != "fuel":
        if model_res[0] == "ok" and io[0] == "ok":
            if io[1] != model_bytes:
                d = core.first_diff(io[1], model_bytes)
                fs.append(Finding("impl_vs_model", f"{label}: implementation bytes differ from the model plan at +{d} "
                                  f"(lengths {len(io[1])}/{len(model_bytes)})", sig + ":model-bytes"))
        elif model_res[0] == "ok" and io[0] == "exc":
            fs.append(Finding("impl_vs_model", f"{label}: implementation raised {io[1]} at {io[2]}, model returns a plan",
                              sig + ":model-ok-impl-exc"))
        elif model_res[0] == "err" and io[0] == "ok":
            fs.append(Finding("impl_vs_model", f"{label}: model predicts an exception, implementation returned "
                              f"{len(io[1])} bytes", sig + ":model-err-impl-ok"))
    # model vs spec
    if model_bytes is not None and spec_bytes is not None:
        if model_bytes[:want_len] != spec_bytes:
            fs.append(Finding("model_vs_spec", f"{label}: model plan differs from the specification", sig + ":mvs"))
    if model_res is not None and model_res[0] == "err" and spec_bytes is not None:
        fs.append(Finding("model_vs_spec", f"{label}: model predicts an exception where the spec defines bytes",
                          sig + ":mvs-err"))
    return fs
