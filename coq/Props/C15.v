(* Props/C15.v — Encrypted VMX: unlock round-trips and is authenticated. *)
From Coq Require Import ZArith List.
From DH Require Import Model.VmxCrypto Proofs.VmxCrypto.
Open Scope Z_scope.

Theorem C15_len_nonneg : forall (l : list Z), 0 <= len l.
Proof. exact (@len_nonneg Z). Qed.
Print Assumptions C15_len_nonneg.
